"""Shared machinery for the /verif checks: paths, process helpers, Lean build + axiom audit,
cargo workspace management, evidence writer, verdict logic (violations vs known findings)."""
import hashlib
import json
import os
import random
import re
import shutil
import subprocess
import sys
import time

ROOT = os.path.dirname(os.path.dirname(os.path.abspath(__file__)))
REPO = os.environ.get("VERIF_REPO", "/repo")
CACHE = os.path.join(ROOT, ".cache")
LEAN = os.path.join(ROOT, "lean")
TARGET = os.path.join(CACHE, "target")
WS = os.path.join(CACHE, "ws")
ALLOWED_AXIOMS = {"propext", "Classical.choice", "Quot.sound"}

CARGO_ENV = {
    "CARGO_NET_OFFLINE": "true",
    "CARGO_TARGET_DIR": TARGET,
    "CARGO_TERM_COLOR": "never",
    "RUSTFLAGS": "-Awarnings",
    "CARGO_INCREMENTAL": "0",
}


def log(*a):
    print(*a, file=sys.stderr, flush=True)


def sh(cmd, cwd=None, env=None, timeout=None, input=None, check=False):
    e = dict(os.environ)
    if env:
        e.update(env)
    t0 = time.time()
    p = subprocess.run(cmd, cwd=cwd, env=e, timeout=timeout, input=input,
                       stdout=subprocess.PIPE, stderr=subprocess.PIPE, text=True,
                       shell=isinstance(cmd, str))
    if check and p.returncode != 0:
        raise RuntimeError("command failed (%s): %s\n%s\n%s" % (p.returncode, cmd, p.stdout[-4000:], p.stderr[-4000:]))
    p.wall = time.time() - t0
    return p


def write_if_changed(path, content):
    os.makedirs(os.path.dirname(path), exist_ok=True)
    try:
        with open(path) as f:
            if f.read() == content:
                return False
    except FileNotFoundError:
        pass
    with open(path, "w") as f:
        f.write(content)
    return True


def repo_sources_hash():
    """Hash of the working-tree sources the macros and runtime are built from."""
    h = hashlib.sha256()
    for base in ("sylvia-derive/src", "sylvia/src", "sylvia-derive/Cargo.toml", "sylvia/Cargo.toml", "Cargo.toml"):
        p = os.path.join(REPO, base)
        if os.path.isfile(p):
            h.update(base.encode()); h.update(open(p, "rb").read())
            continue
        for d, _, fs in sorted(os.walk(p)):
            for f in sorted(fs):
                fp = os.path.join(d, f)
                h.update(os.path.relpath(fp, REPO).encode())
                h.update(open(fp, "rb").read())
    return h.hexdigest()[:16]


# ---------------------------------------------------------------------------------------------
# Lean
# ---------------------------------------------------------------------------------------------

FORBIDDEN = re.compile(r"\b(sorry|admit|native_decide|bv_decide|implemented_by|unsafe)\b|^\s*axiom\s|maxHeartbeats\s+0\b")


def strip_lean_comments(src):
    out = []
    i = 0
    depth = 0
    n = len(src)
    while i < n:
        if src.startswith("/-", i):
            depth += 1; i += 2; continue
        if depth and src.startswith("-/", i):
            depth -= 1; i += 2; continue
        if depth:
            if src[i] == "\n":
                out.append("\n")
            i += 1; continue
        if src.startswith("--", i):
            while i < n and src[i] != "\n":
                i += 1
            continue
        if src[i] == '"':
            j = i + 1
            while j < n and src[j] != '"':
                j += 2 if src[j] == "\\" else 1
            out.append('""'); i = j + 1; continue
        out.append(src[i]); i += 1
    return "".join(out)


def lean_forbidden_scan():
    hits = []
    for d, _, fs in os.walk(os.path.join(LEAN, "Sylvia")):
        for f in fs:
            if not f.endswith(".lean"):
                continue
            p = os.path.join(d, f)
            code = strip_lean_comments(open(p).read())
            for ln, line in enumerate(code.split("\n"), 1):
                if FORBIDDEN.search(line):
                    hits.append("%s:%d: %s" % (os.path.relpath(p, LEAN), ln, line.strip()))
    return hits


def lean_build(targets, timeout=1800):
    """lake build the given module targets. Returns (ok, log)."""
    p = sh(["lake", "build"] + list(targets), cwd=LEAN, timeout=timeout)
    out = p.stdout + p.stderr
    return p.returncode == 0, out


def lean_failed_modules(out):
    return sorted(set(re.findall(r"^- (Sylvia\.[\w.]+)", out, re.M)))


def lean_audit(theorems):
    """#print axioms for fully-qualified theorem names; returns {thm: [axioms]} or {thm: None} if unknown."""
    mods = sorted({m for m, _ in theorems})
    src = "".join("import %s\n" % m for m in mods) + "".join("#print axioms %s\n" % t for _, t in theorems)
    path = os.path.join(CACHE, "audit_%d.lean" % os.getpid())
    os.makedirs(CACHE, exist_ok=True)
    open(path, "w").write(src)
    p = sh(["lake", "env", "lean", path], cwd=LEAN, timeout=600)
    os.remove(path)
    out = p.stdout + p.stderr
    res = {}
    for _, t in theorems:
        m = re.search(r"'%s' depends on axioms: \[([^\]]*)\]" % re.escape(t), out)
        if m:
            res[t] = [a.strip() for a in m.group(1).replace("\n", " ").split(",") if a.strip()]
        elif re.search(r"'%s' does not depend on any axioms" % re.escape(t), out):
            res[t] = []
        else:
            res[t] = None
    return res, out


def leanchecker(mods):
    p = sh(["lake", "env", "leanchecker"] + list(mods), cwd=LEAN, timeout=3600)
    return p.returncode == 0, (p.stdout + p.stderr)[-2000:]


_driver_built = set()


def lean_driver(name="svmodel"):
    """Build (if needed) and return the path of a driver executable. `svmodel` holds the hand-written model only; the operations that
    run functions regenerated from the Rust source live in one executable per regenerated file (`svx_utils`, `svx_bridge`), so a
    regenerated file that no longer builds affects only the checks of the property it belongs to."""
    exe = os.path.join(LEAN, ".lake", "build", "bin", name)
    if name not in _driver_built:
        p = sh(["lake", "build", name], cwd=LEAN, timeout=1800)
        if p.returncode != 0:
            raise RuntimeError("model driver %s failed to build:\n" % name + (p.stdout + p.stderr)[-6000:])
        _driver_built.add(name)
    return exe


def run_driver(lines, timeout=3600, name="svmodel"):
    exe = lean_driver(name)
    p = sh([exe], input="\n".join(lines) + "\n", timeout=timeout)
    if p.returncode != 0:
        raise RuntimeError("model driver crashed: " + p.stderr[-2000:])
    out = p.stdout.split("\n")
    if out and out[-1] == "":
        out.pop()
    return out


def run_driver_x(ctx, name, lines, timeout=3600):
    """Run operations of a driver that holds regenerated functions; when it does not build (the regenerated file is outside the
    translated subset, or no longer type-checks) the failure is an obligation failure of this property and every line is `unavailable`."""
    try:
        return run_driver(lines, timeout, name)
    except RuntimeError as e:
        ctx.obligation_failed("driver " + name, str(e)[-1500:])
        return ["unavailable"] * len(lines)


# ---------------------------------------------------------------------------------------------
# Cargo workspace under .cache/ws (rt harness + corpus shards), hook test binary in /repo
# ---------------------------------------------------------------------------------------------

def cargo(args, cwd, env=None, timeout=3600):
    e = dict(CARGO_ENV)
    if env:
        e.update(env)
    return sh(["cargo"] + args, cwd=cwd, env=e, timeout=timeout)


def ensure_ws(members):
    """Create/update the scratch cargo workspace with the given member dirs (name -> source dir to mirror)."""
    os.makedirs(WS, exist_ok=True)
    names = sorted(members)
    toml = "[workspace]\nresolver = \"2\"\nmembers = [%s]\n\n[profile.dev]\ndebug = 0\nopt-level = 0\nincremental = false\n\n[profile.dev.package.\"*\"]\nopt-level = 1\n" % ", ".join('"%s"' % n for n in names)
    # keep previously registered members that still exist on disk, so one shared lock/target works
    write_if_changed(os.path.join(WS, "Cargo.toml"), toml)
    lock = os.path.join(WS, "Cargo.lock")
    if not os.path.exists(lock):
        shutil.copy(os.path.join(REPO, "Cargo.lock"), lock)
    for n, src in members.items():
        if src is None:
            continue
        dst = os.path.join(WS, n)
        for d, _, fs in os.walk(src):
            for f in fs:
                sp = os.path.join(d, f)
                rel = os.path.relpath(sp, src)
                content = open(sp).read().replace("@REPO@", REPO)
                write_if_changed(os.path.join(dst, rel), content)


def build_rt(own=None):
    """Build the runtime-library harness (L3) against /repo's current sources; returns exe path.
    The harness has one module per property (cargo features remote / intoresp / inter). When the whole harness does not build and
    `own` names the caller's module, only that module is built: a tree on which another property's programs stopped compiling
    does not break this property's check."""
    ensure_ws_members({"rt": os.path.join(ROOT, "harness", "rt")})
    p = cargo(["build", "--offline", "-p", "verif-rt"], cwd=WS)
    if p.returncode == 0:
        return os.path.join(TARGET, "debug", "verif-rt")
    if own is None:
        raise BuildError("rt harness build failed", p.stdout + p.stderr)
    tdir = os.path.join(CACHE, "target-own")
    feats = "full" + ("," + own if own else "")
    p2 = cargo(["build", "--offline", "-p", "verif-rt", "--no-default-features", "--features", feats, "--target-dir", tdir], cwd=WS)
    if p2.returncode != 0:
        raise BuildError("rt harness build failed (module %s alone)" % (own or "core"), p2.stdout + p2.stderr)
    return os.path.join(tdir, "debug", "verif-rt")


def build_rt_min():
    """The same harness against sylvia's default feature set only (staking; no stargate / cosmwasm_2_0): feature-dependent
    code paths of the runtime library (cfg-guarded match arms) are exercised as a default user builds them."""
    ensure_ws_members({"rt": os.path.join(ROOT, "harness", "rt")})
    p = cargo(["build", "--offline", "-p", "verif-rt", "--no-default-features", "--features", "staking_only",
               "--target-dir", os.path.join(CACHE, "target-min")], cwd=WS)
    if p.returncode != 0:
        raise BuildError("rt harness (default features) build failed", p.stdout + p.stderr)
    return os.path.join(CACHE, "target-min", "debug", "verif-rt")


class BuildError(Exception):
    def __init__(self, msg, out):
        super().__init__(msg)
        self.out = out


def ensure_ws_members(new):
    """Add members to the workspace, preserving the ones already there."""
    existing = {}
    cfg = os.path.join(WS, "Cargo.toml")
    if os.path.exists(cfg):
        m = re.search(r"members = \[([^\]]*)\]", open(cfg).read())
        if m:
            for n in re.findall(r'"([^"]+)"', m.group(1)):
                if os.path.isdir(os.path.join(WS, n)):
                    existing[n] = None
    existing.update(new)
    ensure_ws(existing)


def run_lines(exe, lines, timeout=3600, env=None):
    p = sh([exe], input="\n".join(lines) + "\n", timeout=timeout, env=env)
    if p.returncode != 0:
        raise RuntimeError("harness crashed (%s): %s" % (p.returncode, p.stderr[-3000:]))
    out = p.stdout.split("\n")
    if out and out[-1] == "":
        out.pop()
    return out


HOOK_MAIN = os.path.join(ROOT, "harness", "hook", "hook_main.rs")


def run_hook(mode, input_path, output_path, timeout=3600, extra_env=None):
    """Run the in-process expansion harness inside sylvia-derive's test binary (feature verif-hook)."""
    env = {"SYLVIA_VERIF_HARNESS": HOOK_MAIN, "VERIF_HOOK_MODE": mode,
           "VERIF_HOOK_IN": input_path, "VERIF_HOOK_OUT": output_path, "VERIF_REPO": REPO}
    if extra_env:
        env.update(extra_env)
    p = cargo(["test", "--offline", "-p", "sylvia-derive", "--features", "verif-hook", "--lib", "--",
               "verif_hook::verif_entry", "--exact", "--nocapture", "--test-threads", "1"],
              cwd=REPO, env=env, timeout=timeout)
    if p.returncode != 0:
        raise BuildError("hook harness failed", p.stdout[-6000:] + p.stderr[-6000:])
    return p


# ---------------------------------------------------------------------------------------------
# Verdicts and evidence
# ---------------------------------------------------------------------------------------------

def load_known():
    p = os.path.join(ROOT, "known_findings.json")
    if not os.path.exists(p):
        return {"known": [], "fixed": []}
    return json.load(open(p))


class Ctx:
    def __init__(self, pid, tier, seed):
        self.pid = pid
        self.tier = tier
        self.seed = seed
        self.rng = random.Random((hash_str(pid) << 32) ^ seed)
        self.t0 = time.time()
        self.violations = []     # dicts: cls, what, replay (object)
        self.known_hits = []
        self.cov = {"evaluations": 0, "distinct_nontrivial": 0, "rule": "", "samples": [],
                    "obligations": 0, "discharged": 0, "checker_cmd": "", "trusted_base": [],
                    "traces_validated_against_impl": 0, "streams": {}}
        self.assumptions = []
        self.level = "proof"
        self.obligation_failures = []
        self.quick = tier == "quick"

    def size(self, quick, thorough):
        return quick if self.quick else thorough

    # -- evidence helpers
    def add_stream(self, name, evaluations, distinct, samples=None, **extra):
        self.cov["evaluations"] += evaluations
        self.cov["distinct_nontrivial"] += distinct
        s = {"evaluations": evaluations, "distinct_nontrivial": distinct}
        s.update(extra)
        self.cov["streams"][name] = s
        if samples:
            self.cov["samples"].extend(samples[:4])

    def violation(self, cls, what, replay):
        """Record a concrete failing case. cls is the stable class used to match known findings."""
        self.violations.append({"cls": cls, "what": what, "replay": replay})

    def obligation_failed(self, name, detail):
        self.obligation_failures.append({"obligation": name, "detail": detail})


def hash_str(s):
    return int(hashlib.sha256(s.encode()).hexdigest()[:8], 16)


def prove(ctx, modules, theorems, note_modules=None):
    """Build the theorem modules, scan for forbidden constructs, audit axioms.
    theorems: list of (module, fully qualified name). Records obligations in ctx."""
    hits = lean_forbidden_scan()
    if hits:
        ctx.obligation_failed("no-sorry-scan", "; ".join(hits[:5]))
    modules = sorted(set(modules) | {m for m, _ in theorems})
    ok, out = lean_build(modules)
    ctx.cov["obligations"] += len(theorems)
    ctx.cov["checker_cmd"] = "cd /verif/lean && lake build %s && lake env lean <#print axioms of each theorem>" % " ".join(modules)
    if not ok:
        # which modules still check? (each theorem / obligation module is judged on its own)
        bad_mods = []
        for m in modules:
            okm, outm = lean_build([m])
            if not okm:
                bad_mods.append(m)
                errs = re.findall(r"^error: (.*)$", outm, re.M)
                ctx.obligation_failed("lake build " + m, "\n".join(errs[:8])[-2000:])
        if not bad_mods:
            ctx.obligation_failed("lake build " + " ".join(modules), out[-2000:])
            return False
        theorems_ok = [(m, t) for m, t in theorems if m not in bad_mods]
        res, aout = lean_audit(theorems_ok) if theorems_ok else ({}, "")
        for (m, t) in theorems_ok:
            ax = res.get(t)
            if ax is not None and set(ax) <= ALLOWED_AXIOMS:
                ctx.cov["discharged"] += 1
        ctx.cov.setdefault("theorems", []).extend(t for _, t in theorems)
        ctx.cov.setdefault("theorems_not_checking", []).extend(t for m, t in theorems if m in bad_mods)
        return False
    res, aout = lean_audit(theorems)
    good = 0
    for (m, t) in theorems:
        ax = res.get(t)
        if ax is None:
            ctx.obligation_failed(t, "theorem not found by #print axioms: " + aout[-500:])
        elif not set(ax) <= ALLOWED_AXIOMS:
            ctx.obligation_failed(t, "depends on axioms %s" % ax)
        else:
            good += 1
    ctx.cov["discharged"] += good
    ctx.cov.setdefault("theorems", []).extend(t for _, t in theorems)
    if not ctx.quick:
        okc, outc = leanchecker(modules)
        ctx.cov["leanchecker"] = "ok" if okc else outc
        if not okc:
            ctx.obligation_failed("leanchecker", outc)
    return good == len(theorems) and not hits


def finish(ctx):
    """Write evidence, print verdict lines, return exit code."""
    known = load_known()
    unlisted = []
    for v in ctx.violations:
        hit = None
        for k in known.get("known", []):
            if k["property"] == ctx.pid and k["cls"] == v["cls"] and re.search(k.get("detail_regex", ""), v["what"]):
                hit = k
                break
        if hit:
            if hit["id"] not in [h["id"] for h in ctx.known_hits]:
                ctx.known_hits.append(hit)
        else:
            unlisted.append(v)
    rc = 0
    os.makedirs(os.path.join(ROOT, "replays"), exist_ok=True)
    for h in ctx.known_hits:
        print("KNOWN-FINDING: property=%s %s" % (ctx.pid, h["what"]))
    seen_cls = set()
    for i, v in enumerate(unlisted):
        if v["cls"] in seen_cls:
            continue
        seen_cls.add(v["cls"])
        path = os.path.join(ROOT, "replays", "%s-%d-%d.json" % (ctx.pid, ctx.seed, i))
        json.dump({"property": ctx.pid, "class": v["cls"], "what": v["what"], "replay": v["replay"],
                   "seed": ctx.seed, "tier": ctx.tier}, open(path, "w"), indent=1)
        print("VIOLATION property=%s replay=%s" % (ctx.pid, path))
        rc = 1
    if ctx.obligation_failures and not unlisted:
        # proof obligation / correspondence broke but no concrete failing input was found
        # (known findings do not excuse a broken obligation that they do not explain)
        unexplained = [o for o in ctx.obligation_failures if not o.get("explained_by_known")]
        if unexplained:
            path = os.path.join(ROOT, "replays", "%s-%d-obligation.json" % (ctx.pid, ctx.seed))
            json.dump({"property": ctx.pid, "no_failing_input_found": True,
                       "broken": unexplained, "seed": ctx.seed, "tier": ctx.tier}, open(path, "w"), indent=1)
            print("VIOLATION property=%s replay=%s no-failing-input-found" % (ctx.pid, path))
            rc = 1
    ev = {
        "property_id": ctx.pid, "tier": ctx.tier, "seed": ctx.seed, "level": ctx.level,
        "coverage": ctx.cov, "assumptions": ctx.assumptions,
        "wall_s": round(time.time() - ctx.t0, 2),
        "violations": len(unlisted) + (1 if rc and not unlisted else 0),
    }
    ev["coverage"]["known_findings_hit"] = [h["id"] for h in ctx.known_hits]
    ev["coverage"]["obligation_failures"] = ctx.obligation_failures
    if not ev["coverage"]["samples"]:
        ev["coverage"]["samples"] = ["(no samples recorded)"]
    os.makedirs(os.path.join(ROOT, "evidence"), exist_ok=True)
    json.dump(ev, open(os.path.join(ROOT, "evidence", ctx.pid + ".json"), "w"), indent=1, default=str)
    log("[%s] %s tier=%s seed=%d wall=%.1fs evaluations=%d obligations=%d/%d" % (
        ctx.pid, "OK" if rc == 0 else "FAIL", ctx.tier, ctx.seed, time.time() - ctx.t0,
        ctx.cov["evaluations"], ctx.cov["discharged"], ctx.cov["obligations"]))
    return rc


def diff_streams(ctx, name, ops, impl, model, cls_of=None, max_report=3):
    """Compare implementation vs model outputs line by line; a mismatch is a broken correspondence."""
    n = 0
    if len(impl) != len(ops) or len(model) != len(ops):
        ctx.obligation_failed("correspondence:" + name, "stream length mismatch ops=%d impl=%d model=%d" % (len(ops), len(impl), len(model)))
        return 0
    for op, a, b in zip(ops, impl, model):
        if a != b:
            n += 1
            if n <= max_report:
                k = next((i for i, (x, y) in enumerate(zip(a, b)) if x != y), min(len(a), len(b)))
                ctx.obligation_failed("correspondence:" + name, "op=%r impl=%r model=%r first-difference-at=%d impl[..]=%r model[..]=%r" % (
                    op[:300], a[:300], b[:300], k, a[max(0, k - 60):k + 80], b[max(0, k - 60):k + 80]))
    return n
