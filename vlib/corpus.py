"""L2: generated programs compiled against /repo's sylvia (real macros, real serde, real rustc), each
with echo handlers and a `run(op, args)` function; plus the value / document generators."""
import json
import os
import re

from . import casing, common as c, gen
from .gen import P, T

RESERVED = {"new", "dispatch", "contract", "querier", "instantiate", "type", "self", "super", "crate", "move", "ref", "as", "in",
            "fn", "mod", "use", "pub", "let", "loop", "match", "if", "else", "for", "while", "impl", "trait", "struct", "enum",
            "do", "box", "dyn", "async", "await", "try", "yield", "macro", "final", "override", "priv", "virtual", "abstract",
            "become", "typeof", "unsized", "static", "const", "where", "return", "break", "continue", "true", "false", "extern"}

SCALARS = ["u8", "u32", "u64", "i32", "i64", "bool", "String", "Uint128", "Addr", "Empty", "Binary"]


def rand_vty(rng, depth=0):
    r = rng.random()
    if depth < 2 and r < 0.15:
        return P("Option", rand_vty(rng, depth + 1))
    if depth < 2 and r < 0.28:
        return P("Vec", rand_vty(rng, depth + 1))
    if depth < 2 and r < 0.36:
        return T(rand_vty(rng, depth + 1), rand_vty(rng, depth + 1))
    return P(rng.choice(SCALARS))


STRS = ["", "a", "hello world", "quo\"te", "back\\slash", "new\nline", "tab\t", "üñí€", "\u0001\u001f", "{\"a\":1}", "null", "𝄞", "a/b"]


def rand_value(rng, ty):
    """a valid JSON value (python object) of the type"""
    if "t" in ty:
        return [rand_value(rng, x) for x in ty["t"]]
    n, args = ty["p"][0]
    if n == "Option":
        return None if rng.random() < 0.4 else rand_value(rng, args[0])
    if n == "Vec":
        return [rand_value(rng, args[0]) for _ in range(rng.choice([0, 1, 2, 3]))]
    if n == "u8":
        return rng.choice([0, 1, 7, 255, rng.randrange(256)])
    if n == "u32":
        return rng.choice([0, 1, 4294967295, rng.randrange(2 ** 32)])
    if n == "u64":
        return rng.choice([0, 1, 2 ** 64 - 1, 2 ** 63, rng.randrange(2 ** 64)])
    if n == "i32":
        return rng.choice([0, -1, 2 ** 31 - 1, -2 ** 31, rng.randrange(-2 ** 31, 2 ** 31)])
    if n == "i64":
        return rng.choice([0, -1, 2 ** 63 - 1, -2 ** 63, rng.randrange(-2 ** 63, 2 ** 63)])
    if n == "bool":
        return rng.random() < 0.5
    if n in ("String", "Addr"):
        return rng.choice(STRS)
    if n == "Uint128":
        return str(rng.choice([0, 1, 2 ** 128 - 1, rng.randrange(2 ** 100)]))
    if n == "Empty":
        return {}
    if n == "Binary":
        import base64
        return base64.b64encode(rng.choice([b"", b"a", b"hello", b"\x00\xff\x10", bytes(rng.randrange(256) for _ in range(rng.randrange(9)))])).decode()
    raise ValueError(n)


def wrong_value(rng, ty):
    """JSON text of a value that is NOT valid for the type"""
    if "t" in ty:
        return rng.choice(["[]", "[1]", "{}", "null", "[1,2,3]" if len(ty["t"]) == 2 else "[1]"]) if True else ""
    n = ty["p"][0][0]
    if n in ("u8", "u32", "u64", "i32", "i64"):
        over = {"u8": "256", "u32": "4294967296", "u64": "18446744073709551616", "i32": "2147483648", "i64": "9223372036854775808"}[n]
        opts = ['"5"', "true", "null", "[]", "{}", "1.5", over, "007", "1e2"]
        if n.startswith("u"):
            opts += ["-1"]
        return rng.choice(opts)
    if n == "bool":
        return rng.choice(["0", '"true"', "null", "[]"])
    if n in ("String", "Addr"):
        return rng.choice(["5", "true", "null", "[]", "{}"])
    if n == "Uint128":
        return rng.choice(["5", '"-1"', '"abc"', '""', "null", '"340282366920938463463374607431768211456"'])
    if n == "Empty":
        return rng.choice(["[]", "null", "5", '"x"'])
    if n == "Binary":
        # (cosmwasm's engine is indifferent to padding and checks trailing bits: only clearly invalid texts are generated)
        return rng.choice(["5", "null", "[]", '"!!!!"', '"ab!d"', '"a b="', "{}"])
    if n == "Option":
        inner = ty["p"][0][1][0]
        for _ in range(5):
            w = wrong_value(rng, inner)
            if w != "null":
                return w
        return '"zz"' if inner["p"][0][0] not in ("String", "Addr") else "7"
    if n == "Vec":
        return rng.choice(["{}", "null", "5", '"x"'])
    raise ValueError(n)


def jtext(v):
    """compact JSON as serde-json-wasm writes it (control characters as \\u00XX with upper-case hex digits)"""
    t = json.dumps(v, separators=(",", ":"), ensure_ascii=False)
    return re.sub(r"\\u00([0-9a-f]{2})", lambda m: "\\u00" + m.group(1).upper(), t)


# ---------------------------------------------------------------------------------------------
# program generation
# ---------------------------------------------------------------------------------------------
def fresh_name(rng, used_fn, used_wire, wild_p=0.25):
    for _ in range(200):
        n = gen.wild_name(rng) if rng.random() < wild_p else gen.shape_name(rng)
        if n in RESERVED or n in used_fn:
            continue
        w = casing.wire_name(n)
        v = casing.upper_camel(n)
        if not v or not (v[0].isalpha()) or w in used_wire or casing.cc_snake(v) in RESERVED or casing.cc_snake(v) in used_fn:
            continue
        # the published (convert_case) form must not collide either, whichever rule the tree uses
        if casing.cc_snake(v) in used_wire:
            continue
        used_fn.add(n)
        used_fn.add(casing.cc_snake(v))
        used_wire.add(w)
        used_wire.add(casing.cc_snake(v))
        return n
    raise RuntimeError("name space exhausted")


HELPER_LOCAL_TYPES = {"code_id": P("u64"), "label": P("String"), "admin": P("Option", P("String")), "contract_addr": P("String"), "contract": P("String"),
                      "addr": P("Addr"), "sender": P("Addr"), "msg": P("Binary"), "salt": P("Binary")}


def gen_args(rng, maxn=3):
    if rng.random() < (0.06 if maxn >= 3 else 0.12):
        # many same-typed parameters: positional mix-ups (field10 vs field2 ...) only show here
        ty = rng.choice([P("u32"), P("String"), P("i64")])
        return [{"name": "q%d" % i, "ty": ty} for i in range(rng.choice([10, 11, 12, 13]))]
    n = rng.choice([0, 1, 1, 2, 2, maxn])
    # names the generated helpers use for their own locals / fields are in the pool on purpose (shadowing)
    names = rng.sample(["a", "b", "amount", "to", "flag", "items", "memo", "x1", "y_2", "who",
                        "contract", "funds", "msg", "addr", "querier", "code_id", "label", "admin", "sender", "salt", "app", "contract_addr",
                        "type", "ref", "match"], n)
    out = []
    for nm in names:
        ty = rand_vty(rng)
        # a like-named local of a generated helper shadows silently only when the types agree (otherwise the program stops
        # compiling, which is visible at once): half of the time such a name gets the type the helpers give their local
        if nm in HELPER_LOCAL_TYPES and rng.random() < 0.5:
            ty = HELPER_LOCAL_TYPES[nm]
        a = {"name": nm, "ty": ty}
        if rng.random() < 0.15 and "t" not in ty and ty["p"][0][0] != "Addr":
            a["attrs"] = ["serde(default)"]
        out.append(a)
    # sometimes two adjacent arguments of the same type (swap detection)
    if len(out) >= 2 and rng.random() < 0.4:
        out[1]["ty"] = out[0]["ty"]
        if "t" in out[1]["ty"] or out[1]["ty"]["p"][0][0] == "Addr":
            out[1].pop("attrs", None)
    return out


DATA_MODES = {
    "none": None,
    "raw": {"raw": True}, "raw_opt": {"raw": True, "opt": True},
    "typed": {}, "opt": {"opt": True},
    "inst": {"instantiate": True}, "inst_opt": {"instantiate": True, "opt": True},
}


INNER_TYPES = [P("String"), P("u32"), P("Uint128"), P("Vec", P("u8")), P("bool"), T(P("u8"), P("String")), P("Option", P("u32"))]


def data_arg(rng, mode, inner_idx=None):
    d = dict(DATA_MODES[mode])
    if mode == "raw":
        ty = P("Binary")
    elif mode == "raw_opt":
        ty = P("Option", P("Binary"))
    elif mode == "inst":
        ty = P("MsgInstantiateContractResponse")
    elif mode == "inst_opt":
        ty = P("Option", P("MsgInstantiateContractResponse"))
    else:
        # (a nullable payload type is still a *mandatory* parameter unless `opt` is written)
        inner = rng.choice(INNER_TYPES) if inner_idx is None else INNER_TYPES[inner_idx % len(INNER_TYPES)]
        ty = inner if mode == "typed" else P("Option", inner)
        d["inner"] = inner
    return {"name": "data", "ty": ty, "data": {k: bool(v) for k, v in d.items() if k != "inner"}, "data_mode": mode, "inner": d.get("inner")}


def gen_replies(rng, ce, taken=(), idx=None):
    """reply handlers: per handler name a pattern of methods covering success / error / always"""
    used = set()
    methods = []
    nentries = rng.choice([1, 2, 2, 3, 4])
    hnames = []
    while len(hnames) < nentries:
        h = gen.shape_name(rng)
        if h in RESERVED or casing.cc_upper_snake(h) in used or h in hnames or h in taken:
            continue
        used.add(casing.cc_upper_snake(h))
        hnames.append(h)
    shared = None
    for h in hnames:
        pattern = rng.choice(["S", "E", "SE", "ES", "A", "S", "SE"])
        psig = rng.choice(["raw", "one", "two", "three"])
        one_ty = None
        if idx is not None:
            # compiled corpora walk through the payload shapes, and through every scalar type for the single typed value
            k2 = idx * 3 + hnames.index(h)
            psig = ["one", "raw", "two", "one", "three"][k2 % 5]
            one_ty = P(SCALARS[(k2 // 5) % len(SCALARS)]) if k2 % 5 == 0 else None
        if psig == "raw":
            payload = [{"name": "pl", "ty": P("Binary"), "payload_raw": True}]
        else:
            n = {"one": 1, "two": 2, "three": 3}[psig]
            payload = [{"name": "p%d" % i, "ty": one_ty or rand_vty(rng, 1)} for i in range(n)]
        mode = rng.choice(list(DATA_MODES))
        inner_idx = None
        if idx is not None:
            # compiled corpora walk through every (data mode, payload type) pair instead of leaving the coverage to chance
            kk = idx * 3 + hnames.index(h)
            mode = list(DATA_MODES)[kk % len(DATA_MODES)]
            inner_idx = kk // len(DATA_MODES)
        # sometimes the methods of one handler name serve a second name too (`handlers=[h, h2]`, or the argument written twice)
        alias = None
        if rng.random() < 0.3:
            cand = gen.shape_name(rng)
            if cand not in RESERVED and casing.cc_upper_snake(cand) not in used and cand not in hnames and cand not in taken:
                used.add(casing.cc_upper_snake(cand))
                alias = cand
        alias_split = rng.random() < 0.5
        one_sided_raw = rng.choice([None, None, 1, 1])   # the second-declared method only: the entry is raw by the first-declared rule
        for k, on in enumerate(pattern):
            on_word = {"S": "success", "E": "error", "A": "always"}[on]
            fn = h if (len(pattern) == 1 and rng.random() < 0.5) else "on_%s_%s" % (h, on_word)
            args = []
            role = "none"
            if on == "S":
                if mode != "none":
                    args.append(data_arg(rng, mode, inner_idx))
                    role = mode
            elif on == "E":
                args.append({"name": "error", "ty": P("String")})
                role = "error"
            else:
                args.append({"name": "result", "ty": P("SubMsgResult")})
                role = "result"
            # the merged methods of one entry must agree on the payload *types*; names may differ.
            # Sometimes the payload parameters carry the names the generated dispatcher uses for its own locals (shadowing)
            first = args[0]["name"] if args else None
            if rng.random() < 0.3:
                pool = [n for n in ["gas_used", "events", "msg_responses", "data", "error", "result", "payload", "deps", "env", "sub_msg_resp",
                                    "id", "reply_on", "msg", "gas_limit"] if n != first]
                rng.shuffle(pool)
                args += [dict(a, name=pool[i]) for i, a in enumerate(payload)]
            else:
                args += [dict(a, name=a["name"] + ("" if k == 0 else "b")) for a in payload]
            # a raw payload parameter marked on one of the two merged methods only (legal: merging compares count and types): builder and
            # dispatcher must both go by the first-declared method's marking
            if psig == "raw" and len(pattern) == 2 and one_sided_raw == k:
                # (`echo_raw`: the echo handler still prints the bytes the way it prints a raw payload)
                args[-1] = dict({kk_: vv_ for kk_, vv_ in args[-1].items() if kk_ != "payload_raw"}, echo_raw=True)
            msg = {"kind": "reply", "reply_on": on_word, "handlers": [] if fn == h else [h]}
            if alias:
                msg["handlers"] = [h, alias]
                msg["handlers_split"] = alias_split
            # dispatch_reply returns the handler's result as is: reply handlers must return the contract's own error type
            methods.append({"name": fn, "msg": msg, "args": args, "ret_kind": "resp", "ret_err": "ce" if ce else "std",
                            "reply_role": role, "reply_handler": h})
    return methods


def reply_table(prog):
    """python oracle: handler name -> {outcome: method}, in first-seen order (numeric ids)"""
    tbl = []
    for m in prog["contract"]["methods"]:
        if m["msg"]["kind"] != "reply":
            continue
        for h in (m["msg"].get("handlers") or [m["name"]]):
            e = next((x for x in tbl if x["handler"] == h), None)
            if e is None:
                e = {"handler": h, "methods": {}}
                tbl.append(e)
            e["methods"][m["msg"]["reply_on"]] = m
    return tbl


def gen_program(rng, idx, wild_p=0.25, n_ifaces=None, with_ce=None, replies_p=0.6):
    used_fn = {k: set() for k in ("all",)}["all"]
    used_wire = {"exec": set(), "query": set(), "sudo": set()}
    ce = rng.random() < 0.5 if with_ce is None else with_ce
    nif = rng.choice([0, 1, 1, 2]) if n_ifaces is None else n_ifaces
    ifaces = []
    fn_names = set()
    for i in range(nif):
        ms = []
        for _ in range(rng.randint(1, 3)):
            k = rng.choice(["exec", "exec", "query", "sudo"])
            nm = fresh_name(rng, fn_names, used_wire[k], wild_p)
            ret = "resp" if k != "query" else rng.choice(QUERY_RET_KINDS)
            ms.append({"name": nm, "msg": {"kind": k}, "args": gen_args(rng), "ret_kind": ret, "ret_err": "self"})
        ifaces.append({"module": "ifc%d" % i, "name": "Ifc%d" % i, "methods": ms,
                       "alias": ("Alias%d" % i) if rng.random() < 0.3 else None})
    # contract: a name may deliberately re-use a name of *another kind* (C04)
    # instantiate / migrate handlers are not always called `instantiate` / `migrate`: names whose UpperCamel -> snake round trip is lossy
    # (digits) show emitters that rebuild a handler's name from its variant name; sometimes a *partner* handler of another kind carries
    # exactly the round-tripped name and the same parameters
    inst_name = rng.choice(["instantiate", "instantiate", "setup2", "init_v2_x", "new_contract1"])
    fn_names.add(inst_name)
    cms = [{"name": inst_name, "msg": {"kind": "instantiate"}, "args": gen_args(rng, 2), "ret_kind": "resp",
            "ret_err": rng.choice(["std", "ce"]) if ce else "std"}]
    partners = []

    def partner_of(m, kind):
        pn = casing.cc_snake(casing.upper_camel(m["name"]))
        if pn != m["name"] and pn not in fn_names and casing.wire_name(pn) not in used_wire[kind] and rng.random() < 0.5:
            fn_names.add(pn)
            used_wire[kind].add(casing.wire_name(pn))
            used_wire[kind].add(casing.cc_snake(casing.upper_camel(pn)))
            partners.append({"name": pn, "msg": {"kind": kind}, "args": [dict(a) for a in m["args"]], "ret_kind": "resp", "ret_err": m["ret_err"]})
    partner_of(cms[0], "exec")
    other_kind_names = [(m["name"], m["msg"]["kind"]) for i in ifaces for m in i["methods"]]
    for _ in range(rng.randint(1, 5)):
        k = rng.choice(["exec", "exec", "query", "sudo"])
        nm = None
        if other_kind_names and rng.random() < 0.3:
            cand, ck = rng.choice(other_kind_names)
            if ck != k and casing.wire_name(cand) not in used_wire[k] and cand not in [m["name"] for m in cms]:
                nm = cand
                used_wire[k].add(casing.wire_name(cand))
                used_wire[k].add(casing.cc_snake(casing.upper_camel(cand)))
        if nm is None:
            nm = fresh_name(rng, fn_names, used_wire[k], wild_p)
        args = gen_args(rng)
        cms.append({"name": nm, "msg": {"kind": k}, "args": args, "ret_kind": "resp" if k != "query" else rng.choice(QUERY_RET_KINDS),
                    "ret_err": rng.choice(["std", "ce"]) if ce else "std"})
    if rng.random() < 0.5:
        mig_name = rng.choice([n for n in ["mig_rate", "mig_rate", "upgrade2", "migrate_v3"] if n not in fn_names])
        fn_names.add(mig_name)
        cms.append({"name": mig_name, "msg": {"kind": "migrate"}, "args": gen_args(rng, 2), "ret_kind": "resp",
                    "ret_err": rng.choice(["std", "ce"]) if ce else "std"})
        # (no partner for migrate: the multitest proxy trait names its methods by the round-tripped name for every kind, so a migrate
        #  handler `upgrade2` next to a sudo handler `upgrade_2` cannot be expressed there: observation in DESIGN §12)
    cms += partners
    # same name and shape in two kinds inside the contract itself
    execs = [m for m in cms if m["msg"]["kind"] == "exec"]
    if execs and rng.random() < 0.4:
        src = rng.choice(execs)
        if casing.wire_name(src["name"]) not in used_wire["sudo"]:
            pass  # two methods cannot share a Rust name inside one impl; cross-kind sharing is done via interfaces above
    if rng.random() < replies_p:
        cms += gen_replies(rng, ce, taken={m["name"] for m in cms}, idx=idx)
    # a handler may name the context type of another kind with the same shape (the macro only looks at the attribute)
    for m in cms:
        if m["msg"]["kind"] == "instantiate" and rng.random() < 0.3:
            m["ctx_ty"] = "ExecCtx"
        if m["msg"]["kind"] == "migrate" and rng.random() < 0.3:
            m["ctx_ty"] = "SudoCtx"
        if m["msg"]["kind"] == "sudo" and rng.random() < 0.15:
            m["ctx_ty"] = "MigrateCtx"
    rng.shuffle(cms)
    contract = {"name": "Ct", "error": "ContractError" if ce else None, "methods": cms,
                "replies": any(m["msg"]["kind"] == "reply" for m in cms),
                "ifaces": [{"module": i["module"], "alias": i["alias"]} for i in ifaces]}
    return {"id": "p%d" % idx, "ifaces": ifaces, "contract": contract}


# ---------------------------------------------------------------------------------------------
# rendering as a Rust module
# ---------------------------------------------------------------------------------------------
def err_ty_text(m, contract):
    if m["ret_err"] == "self":
        return "Self::Error"
    if m["ret_err"] == "ce":
        return "ContractError"
    return "StdError"


# the response type a query *declares* (what the query-response table must name) ...
RESP_TYPES = {"echo": "EchoResp", "respb": "RespB", "respc": "RespC", "respb_explicit": "RespB", "respb_as_c": "RespC", "str": "String", "bin": "Binary"}
# ... and the type the handler's signature returns (`respb_as_c`: an explicit resp= naming another type than the signature)
BODY_TYPES = {"echo": "EchoResp", "respb": "RespB", "respc": "RespC", "respb_explicit": "RespB", "respb_as_c": "RespB", "str": "String", "bin": "Binary"}
# `str` / `bin`: the echo returned as a plain String / as Binary — the JSON encoding of the returned value is then a string, not an object
QUERY_RET_KINDS = ["echo", "echo", "respb", "respc", "respb_explicit", "respb_as_c", "str", "bin"]


def ret_ty(m, contract):
    inner = {"p": [["Response", []]]} if m["ret_kind"] == "resp" else {"p": [[BODY_TYPES[m["ret_kind"]], []]]}
    if m["ret_kind"] == "respb_as_c":
        m["msg"]["resp"] = "RespC"
    if m["ret_kind"] == "respb_explicit":
        # an aliased result type: the response type has to be named in the attribute
        m["msg"]["resp"] = "RespB"
        e = {"self": {"p": [["Self", []], ["Error", []]]}, "ce": {"p": [["ContractError", []]]}, "std": {"p": [["StdError", []]]}}[m["ret_err"]]
        return {"p": [["QResultB", [e]]]}
    if m["ret_err"] == "self":
        return {"p": [["Result", [inner, {"p": [["Self", []], ["Error", []]]}]]]}
    if m["ret_err"] == "ce":
        return {"p": [["Result", [inner, {"p": [["ContractError", []]]}]]]}
    return {"p": [["StdResult", [inner]]]}


FIRST_EXPR = {
    "none": 'String::from("-")',
    "typed": "j(&data)", "opt": "j(&data)",
    "raw": 'format!("raw:{}", hex(data.as_slice()))',
    "raw_opt": 'format!("rawopt:{}", data.as_ref().map(|d| hex(d.as_slice())).unwrap_or_else(|| "none".into()))',
    "inst": 'format!("inst:{}", show_inst(&data))',
    "inst_opt": 'format!("instopt:{}", data.as_ref().map(show_inst).unwrap_or_else(|| "none".into()))',
    "error": 'format!("error:{}", error)',
    "result": "show_result(&result)",
}


def reply_body(part, m):
    hid = "%s.%s" % (part, m["name"])
    ety = {"self": "Self::Error", "ce": "ContractError", "std": "StdError"}[m["ret_err"]]
    role = m["reply_role"]
    pargs = m["args"][(0 if role == "none" else 1):]
    parts = []
    for a in pargs:
        if a.get("payload_raw") or a.get("echo_raw"):
            parts.append('("%s", format!("\\"x{}\\"", hex(%s.as_slice())))' % (a["name"], gen.rs_ident(a["name"])))
        else:
            parts.append('("%s", j(&%s))' % (a["name"], gen.rs_ident(a["name"])))
    return ("let attrs = echo_reply::<%s, _>(\"%s\", &ctx, %s, &[%s])?; ctx.deps.storage.set(b\"ran\", b\"%s\"); Ok(resp_of(attrs))"
            % (ety, hid, FIRST_EXPR[role], ", ".join(parts), hid))


def handler_body(part, m):
    kind = m["msg"]["kind"]
    if kind == "reply":
        return reply_body(part, m)
    hid = "%s.%s" % (part, m["name"])
    args = ", ".join('("%s", j(&%s))' % (a["name"], gen.rs_ident(a["name"])) for a in m["args"])
    info = "Some(&ctx.info)" if kind in ("exec", "instantiate") else "None"
    store = "ctx.deps.storage"
    ety = {"self": "Self::Error", "ce": "ContractError", "std": "StdError"}[m["ret_err"]]
    lines = ["let attrs = echo::<%s>(\"%s\", %s, &ctx.env, %s, &[%s])?;" % (ety, hid, store, info, args)]
    if kind != "query":
        lines.append('ctx.deps.storage.set(b"ran", b"%s");' % hid)
        lines.append('ctx.deps.storage.set(b"last", show_pairs(&attrs).as_bytes());')
        if kind == "migrate":
            # migrate handlers answer with data: what the chain / the proxies do with a response's data is then observable
            lines.append('Ok(resp_of(attrs).set_data(b"m:%s".to_vec()))' % hid)
        else:
            lines.append("Ok(resp_of(attrs))")
    else:
        if m["ret_kind"] == "str":
            lines.append("Ok(show_pairs(&attrs))")
        elif m["ret_kind"] == "bin":
            lines.append("Ok(Binary::from(show_pairs(&attrs).into_bytes()))")
        else:
            lines.append("Ok(%s::from(attrs))" % BODY_TYPES[m["ret_kind"]])
    return " ".join(lines)


def finalize(prog):
    """fill in the derived keys the renderers need (ret types, handler ids)"""
    ct = prog["contract"]
    for i in prog["ifaces"]:
        for m in i["methods"]:
            m["ret"] = ret_ty(m, ct)
    for m in ct["methods"]:
        m["ret"] = ret_ty(m, ct)
    return prog


def render_module(prog):
    finalize(prog)
    ct = prog["contract"]
    out = ["pub mod %s {" % prog["id"], "    #![allow(unused_variables, unused_mut, dead_code, clippy::all)]", "    use crate::prelude::*;"]
    for i in prog["ifaces"]:
        out.append("    pub mod %s {" % i["module"])
        out.append("        use crate::prelude::*;")
        it = dict(i)
        it["custom_msg"] = "Empty"
        it["custom_query"] = "Empty"
        src = gen.render_interface(it)
        out.append("        #[interface]")
        out += ["        " + l for l in src.split("\n")]
        out.append("    }")
    out.append("    pub struct Ct;")
    cc = dict(ct)
    cc["ifaces"] = [{"module": i["module"], "alias": i.get("alias")} for i in ct["ifaces"]]
    cc["methods"] = [dict(m, ctx_ty=m.get("ctx_ty"), body=handler_body("ct", m)) for m in ct["methods"]]
    src = gen.render_contract(cc)
    out.append("    #[entry_points]")
    out.append("    #[contract]")
    out += ["    " + l for l in src.split("\n")]
    err = "ContractError" if ct.get("error") else "StdError"
    for i in prog["ifaces"]:
        out.append("    impl %s::%s for Ct {" % (i["module"], i["name"]))
        out.append("        type Error = %s;" % err)
        for m in i["methods"]:
            mm = dict(m, body=handler_body(i["module"], m))
            mm.pop("msg")
            mm["args"] = [{"name": a["name"], "ty": a["ty"]} for a in m["args"]]
            mm["ctx_ty"] = gen.CTX[m["msg"]["kind"]]
            out.append("    " + gen.render_method(mm).replace("\n", "\n    "))
        out.append("    }")
    out.append(render_run(prog))
    out.append("}")
    return "\n".join(out)


MSG_TY = {"exec": "ExecMsg", "query": "QueryMsg", "sudo": "SudoMsg", "instantiate": "InstantiateMsg", "migrate": "MigrateMsg"}
WRAP_TY = {"exec": "ContractExecMsg", "query": "ContractQueryMsg", "sudo": "ContractSudoMsg"}
LIST_FN = {"exec": "execute_messages", "query": "query_messages", "sudo": "sudo_messages"}
EP_FN = {"exec": "execute", "query": "query", "sudo": "sudo", "instantiate": "instantiate", "migrate": "migrate"}


def part_paths(prog):
    """(index, sv path, label) of the parts: interfaces in declaration order, then the contract"""
    ps = []
    for n, i in enumerate(prog["ifaces"]):
        ps.append((n, "%s::sv" % i["module"], i.get("alias") or casing.upper_camel(i["module"]), i["methods"]))
    ps.append((len(ps), "sv", "Ct", prog["contract"]["methods"]))
    return ps


def has_kind(prog, k):
    return any(m["msg"]["kind"] == k for m in prog["contract"]["methods"])


def ctx_tuple(kind):
    if kind in ("exec", "instantiate"):
        return "(deps.as_mut(), c.env(), c.info())"
    if kind == "query":
        return "(deps.as_ref(), c.env())"
    return "(deps.as_mut(), c.env())"


def ep_args(kind):
    if kind in ("exec", "instantiate"):
        return "deps.as_mut(), c.env(), c.info()"
    if kind == "query":
        return "deps.as_ref(), c.env()"
    return "deps.as_mut(), c.env()"


def render_run(prog):
    parts = part_paths(prog)
    L = []
    A = L.append
    A("    pub fn run(op: &str, rest: &str) -> String {")
    A("        match op {")
    # ---- de <part> <kind> <json>
    A('            "de" => {')
    A("                let mut it = rest.splitn(3, ' ');")
    A('                let (part, kind, json) = (it.next().unwrap_or(""), it.next().unwrap_or(""), it.next().unwrap_or(""));')
    A("                match (part, kind) {")
    for idx, svp, label, methods in parts:
        kinds = ["exec", "query", "sudo"] + (["instantiate"] + (["migrate"] if has_kind(prog, "migrate") else []) if svp == "sv" else [])
        for k in kinds:
            A('                    ("%d", "%s") => match from_json::<%s::%s>(json.as_bytes()) { Ok(m) => format!("ok {}", j(&m)), Err(_) => "err".into() },' % (idx, k, svp, MSG_TY[k]))
    A('                    _ => "bad-op".into(),')
    A("                }")
    A("            }")
    # ---- dew <kind> <json>
    A('            "dew" => {')
    A("                let mut it = rest.splitn(2, ' ');")
    A('                let (kind, json) = (it.next().unwrap_or(""), it.next().unwrap_or(""));')
    A("                match kind {")
    for k in ("exec", "query", "sudo"):
        arms = " ".join('sv::%s::%s(_) => "%s",' % (WRAP_TY[k], label, label) for _, _, label, _ in parts)
        A('                    "%s" => match from_json::<sv::%s>(json.as_bytes()) {' % (k, WRAP_TY[k]))
        A('                        Ok(m) => { let label = match &m { %s }; format!("ok {} {}", label, j(&m)) }' % arms)
        A("                        Err(e) => show_wrapper_err(&e),")
        A("                    },")
    A('                    _ => "bad-op".into(),')
    A("                }")
    A("            }")
    # ---- lists <kind>
    A('            "lists" => match rest {')
    for k in ("exec", "query", "sudo"):
        calls = ", ".join("%s::%s().to_vec()" % (svp, LIST_FN[k]) for _, svp, _, _ in parts)
        A('                "%s" => { let ls: Vec<Vec<&str>> = vec![%s]; ls.iter().map(|l| l.join(",")).collect::<Vec<_>>().join("|") }' % (k, calls))
    A('                _ => "bad-op".into(),')
    A("            },")
    # ---- qresp <part|w>, anyof <kind>
    A('            "qresp" => match rest {')
    for idx, svp, label, methods in parts:
        A('                "%d" => show_schemas(<%s::QueryMsg as sylvia::cw_schema::QueryResponses>::response_schemas()),' % (idx, svp))
    A('                "w" => show_schemas(<sv::ContractQueryMsg as sylvia::cw_schema::QueryResponses>::response_schemas()),')
    A('                _ => "bad-op".into(),')
    A("            },")
    A('            "anyof" => match rest {')
    for k in ("exec", "query", "sudo"):
        A('                "%s" => show_any_of(sylvia::schemars::schema_for!(sv::%s)),' % (k, WRAP_TY[k]))
    A('                _ => "bad-op".into(),')
    A("            },")
    # ---- disp / entry <kind> <ctx..> <json>
    for opname in ("disp", "entry"):
        A('            "%s" => {' % opname)
        A("                let mut it = rest.splitn(7, ' ');")
        A('                let kind = it.next().unwrap_or("");')
        A("                let c = Ctx::parse(&mut it);")
        A('                let json = it.next().unwrap_or("");')
        A("                let mut deps = c.deps();")
        A("                match kind {")
        for k in ("exec", "query", "sudo", "instantiate", "migrate"):
            if k == "migrate" and not has_kind(prog, "migrate"):
                continue
            ty = "sv::" + (WRAP_TY.get(k) or MSG_TY[k])
            errshow = "show_wrapper_err(&e)" if k in WRAP_TY else '"err".to_string()'
            if opname == "disp":
                call = "m.dispatch(&Ct::new(), %s)" % ctx_tuple(k)
            else:
                call = "entry_points::%s(%s, m)" % (EP_FN[k], ep_args(k))
            show = "show_query(r)" if k == "query" else "show_resp(r, &deps.storage)"
            A('                    "%s" => match from_json::<%s>(json.as_bytes()) {' % (k, ty))
            A('                        Err(e) => format!("de-{}", %s),' % errshow)
            A("                        Ok(m) => { let r = %s; %s }" % (call, show))
            A("                    },")
        A('                    _ => "bad-op".into(),')
        A("                }")
        A("            }")
    # ---- ser <part> <kind> <method> <args json array>
    A('            "ser" => {')
    A("                let mut it = rest.splitn(4, ' ');")
    A('                let (part, kind, method, json) = (it.next().unwrap_or(""), it.next().unwrap_or(""), it.next().unwrap_or(""), it.next().unwrap_or(""));')
    A("                match (part, kind, method) {")
    for idx, svp, label, methods in parts:
        for m in methods:
            k = m["msg"]["kind"]
            if k == "reply":
                continue
            tys = [gen.ty_text(a["ty"], " ") for a in m["args"]]
            names = [gen.rs_ident(a["name"]) for a in m["args"]]
            if k in ("instantiate", "migrate"):
                ctor = "%s::%s::new(%s)" % (svp, MSG_TY[k], ", ".join("a.%d.clone()" % i for i in range(len(tys))))
                lit = "%s::%s { %s }" % (svp, MSG_TY[k], ", ".join("%s: a.%d.clone()" % (n, i) for i, n in enumerate(names)))
            else:
                v = casing.upper_camel(m["name"])
                ctor = "%s::%s::%s(%s)" % (svp, MSG_TY[k], casing.cc_snake(v), ", ".join("a.%d.clone()" % i for i in range(len(tys))))
                lit = "%s::%s::%s { %s }" % (svp, MSG_TY[k], v, ", ".join("%s: a.%d.clone()" % (n, i) for i, n in enumerate(names)))
            tup = "(%s)" % "".join(t + ", " for t in tys)
            if tys:
                A('                    ("%d", "%s", "%s") => match from_json::<%s>(json.as_bytes()) {' % (idx, k, m["name"], tup))
                A('                        Ok(a) => { let m = %s; let lit = %s; format!("ok {} {}", j(&m), m == lit) }' % (ctor, lit))
                A('                        Err(_) => "bad-args".into(),')
                A("                    },")
            else:
                A('                    ("%d", "%s", "%s") => { let m = %s; let lit = %s; format!("ok {} {}", j(&m), m == lit) }' % (idx, k, m["name"], ctor, lit))
    A('                    _ => "bad-op".into(),')
    A("                }")
    A("            }")
    L.extend(render_helper_ops(prog))
    L.extend(render_mt_ops(prog))
    L.extend(render_reply_ops(prog))
    A('            _ => "bad-op".into(),')
    A("        }")
    A("    }")
    return "\n".join(L)


def render_mt_ops(prog):
    """multitest histories: `mtp` runs a history through the generated proxies, `mtr` runs a history of raw JSON operations.
    steps are separated by `;`, fields by `:`; after every step the whole chain state is printed"""
    parts = part_paths(prog)
    ct = prog["contract"]
    L = []
    A = L.append
    inst = [m for m in ct["methods"] if m["msg"]["kind"] == "instantiate"][0]
    mig = [m for m in ct["methods"] if m["msg"]["kind"] == "migrate"]

    def tup(m):
        tys = [gen.ty_text(a["ty"], " ") for a in m["args"]]
        return "(%s)" % "".join(t + ", " for t in tys), "".join(", a.%d.clone()" % i for i in range(len(tys))), len(tys)

    def with_args(m, expr_fn, indent):
        t, call_args, n = tup(m)
        if n:
            return '%smatch from_json::<%s>(&unhex(f[f.len() - 1])) { Ok(a) => { %s } Err(_) => "bad-args".to_string() }' % (indent, t, expr_fn(call_args))
        return "%s{ %s }" % (indent, expr_fn(""))

    A('            "mtp" | "mtr" => {')
    A("                let app = mt_app();")
    A("                let mut codes: Vec<sv::mt::CodeId<'_, Ct, MtApp>> = vec![];")
    A("                let mut raw_codes: Vec<u64> = vec![];")
    A("                let mut contracts: Vec<Option<Addr>> = vec![];")
    A("                let mut outs: Vec<String> = vec![];")
    A("                for step in rest.split(';') {")
    A("                    let f: Vec<&str> = step.split(':').collect();")
    A("                    let slot = |i: &str| -> Option<Addr> { contracts.get(i.parse::<usize>().unwrap_or(usize::MAX)).cloned().flatten() };")
    A("                    let mut new_code: Option<sv::mt::CodeId<'_, Ct, MtApp>> = None;")
    A("                    let mut new_raw_code: Option<u64> = None;")
    A("                    let mut new_contract: Option<Option<Addr>> = None;")
    A("                    let r = std::panic::catch_unwind(std::panic::AssertUnwindSafe(|| -> String { match (op, f[0]) {")
    # ---- store
    A('                        ("mtp", "store") => { let c = sv::mt::CodeId::<Ct, _>::store_code(&app); let s = format!("code={}", c.code_id()); new_code = Some(c); s }')
    A('                        ("mtr", "store") => { let id = app.app_mut().store_code(Box::new(Ct::new())); new_raw_code = Some(id); format!("code={}", id) }')
    A('                        (_, "setfail") => match slot(f[1]) { Some(a) => { set_fail(&app, &a, &String::from_utf8_lossy(&unhex(f[2]))); "ok".into() } None => "no-contract".into() },')
    # ---- proxy instantiate: inst:<code>:<sender>:<setters>:<argshex>
    A('                        ("mtp", "inst") => {')
    A('                            let code = match codes.get(f[1].parse::<usize>().unwrap_or(usize::MAX)) { Some(c) => c, None => return "no-code".into() };')
    A("                            let sender = acct(f[2]);")
    A("                            enum St { L(String), A(Option<String>), F(Vec<Coin>), S(Option<Vec<u8>>) }")
    A("                            let sts: Vec<St> = f[3].split('/').filter(|x| !x.is_empty() && *x != \"-\").map(|x| { let (k, v) = x.split_once('=').unwrap_or((x, \"\")); match k {")
    A('                                "l" => St::L(String::from_utf8_lossy(&unhex(v)).to_string()),')
    A('                                "a" => St::A(if v == "-" { None } else if v == "~" { Some(String::new()) } else { Some(acct(v).to_string()) }),')
    A('                                "f" => St::F(coins_of(v)),')
    A('                                _ => St::S(if v == "-" { None } else { Some(unhex(v)) }),')
    A("                            } }).collect();")

    def inst_expr(call_args):
        return ("let mut p = code.instantiate(%s); for s in &sts { p = match s { St::L(l) => p.with_label(l.as_str()), St::A(Some(a)) => p.with_admin(a.as_str()), St::A(None) => p.with_admin(None), "
                "St::F(c) => p.with_funds(c.as_slice()), St::S(Some(b)) => p.with_salt(b.as_slice()), St::S(None) => p.with_salt(None) }; } "
                "match p.call(&sender) { Ok(px) => { let s = format!(\"ok addr={}\", px.contract_addr); new_contract = Some(Some(px.contract_addr.clone())); s } Err(e) => { new_contract = Some(None); format!(\"err {}\", e) } }") % call_args.lstrip(", ")
    A(with_args(inst, inst_expr, "                            "))
    A("                        }")
    # ---- raw instantiate: inst:<code>:<sender>:<funds>:<labelhex>:<admin|->:<salthex|->:<bodyhex>
    A('                        ("mtr", "inst") => {')
    A('                            let code_id = match raw_codes.get(f[1].parse::<usize>().unwrap_or(usize::MAX)) { Some(c) => *c, None => return "no-code".into() };')
    A("                            let sender = acct(f[2]);")
    A('                            let admin = if f[5] == "-" { None } else if f[5] == "~" { Some(String::new()) } else { Some(acct(f[5]).to_string()) };')
    A("                            let label = String::from_utf8_lossy(&unhex(f[4])).to_string();")
    A("                            let body = Binary::from(unhex(f[7]));")
    A('                            let msg = if f[6] == "-" { WasmMsg::Instantiate { admin, code_id, msg: body, funds: coins_of(f[3]), label } }')
    A("                                      else { WasmMsg::Instantiate2 { admin, code_id, label, msg: body, funds: coins_of(f[3]), salt: Binary::from(unhex(f[6])) } };")
    A("                            match raw_wasm(&app, &sender, msg) {")
    A("                                Ok(r) => match sylvia::cw_utils::parse_instantiate_response_data(r.data.clone().unwrap_or_default().as_slice()) {")
    A('                                    Ok(d) => { new_contract = Some(Some(Addr::unchecked(d.contract_address.clone()))); format!("ok addr={}", d.contract_address) }')
    A('                                    Err(e) => { new_contract = Some(None); format!("err bad-instantiate-data {}", e) }')
    A("                                },")
    A("                                Err(e) => { new_contract = Some(None); show_any_err(&e) }")
    A("                            }")
    A("                        }")
    # ---- proxy exec / query / sudo
    for kind, opname in (("exec", "exec"), ("query", "query"), ("sudo", "sudo")):
        A('                        ("mtp", "%s") => {' % opname)
        A('                            let addr = match slot(f[1]) { Some(a) => a, None => return "no-contract".into() };')
        A("                            let proxy: Proxy<'_, MtApp, Ct> = Proxy::new(addr.clone(), &app);")
        if kind == "exec":
            A("                            let sender = acct(f[4]);")
            A("                            let coins = coins_of(f[5]);")
        A("                            match (f[2], f[3]) {")
        for idx, svp, label, methods in parts:
            for m in methods:
                if m["msg"]["kind"] != kind:
                    continue
                cname = casing.cc_snake(casing.upper_camel(m["name"]))
                if svp == "sv":
                    tr = "<Proxy<'_, MtApp, Ct> as sv::mt::CtProxy<'_, MtApp>>"
                else:
                    it = prog["ifaces"][idx]
                    tr = "<Proxy<'_, MtApp, Ct> as %s::sv::mt::%sProxy<MtApp, Empty>>" % (it["module"], it["name"])
                if kind == "exec":
                    fn = lambda ca, tr=tr, cname=cname: ('let ep = %s::%s(&proxy%s); let earlier = [Coin::new(9u128, "earlier")]; let ep = if f[5] == "-" { ep } else { ep.with_funds(&earlier).with_funds(coins.as_slice()) }; '
                                                          'match ep.call(&sender) { Ok(r) => show_app_resp(&r), Err(e) => format!("err {}", e) }') % (tr, cname, ca)
                elif kind == "query":
                    fn = lambda ca, tr=tr, cname=cname: 'match %s::%s(&proxy%s) { Ok(r) => format!("ok {}", j(&r)), Err(e) => format!("err {}", e) }' % (tr, cname, ca)
                else:
                    fn = lambda ca, tr=tr, cname=cname: 'match %s::%s(&proxy%s) { Ok(r) => show_app_resp(&r), Err(e) => format!("err {}", e) }' % (tr, cname, ca)
                A('                                ("%d", "%s") =>' % (idx, m["name"]))
                A(with_args(m, fn, "                                    ") + ",")
        A('                                _ => "bad-op".into(),')
        A("                            }")
        A("                        }")
    # ---- proxy migrate: mig:<cidx>:<sender>:<newcode>:<argshex>
    A('                        ("mtp", "mig") => {')
    if mig:
        A('                            let addr = match slot(f[1]) { Some(a) => a, None => return "no-contract".into() };')
        A("                            let proxy: Proxy<'_, MtApp, Ct> = Proxy::new(addr.clone(), &app);")
        A("                            let sender = acct(f[2]);")
        A('                            let new_code_id = match codes.get(f[3].parse::<usize>().unwrap_or(usize::MAX)) { Some(c) => c.code_id(), None => 999 };')
        cname = casing.cc_snake(casing.upper_camel(mig[0]["name"]))
        fn = lambda ca: ("match <Proxy<'_, MtApp, Ct> as sv::mt::CtProxy<'_, MtApp>>::%s(&proxy%s).call(&sender, new_code_id) { Ok(r) => show_app_resp(&r), Err(e) => format!(\"err {}\", e) }" % (cname, ca))
        A(with_args(mig[0], fn, "                            "))
    else:
        A('                            "no-migrate".to_string()')
    A("                        }")
    # ---- raw exec / query / sudo / migrate
    A('                        ("mtr", "exec") => { let addr = match slot(f[1]) { Some(a) => a, None => return "no-contract".into() };')
    A("                            match raw_wasm(&app, &acct(f[2]), WasmMsg::Execute { contract_addr: addr.to_string(), msg: Binary::from(unhex(f[4])), funds: coins_of(f[3]) }) {")
    A("                                Ok(r) => show_app_resp(&strip_exec_data(r)), Err(e) => show_any_err(&e) } }")
    A('                        ("mtr", "query") => { let addr = match slot(f[1]) { Some(a) => a, None => return "no-contract".into() }; raw_query(&app, &addr, unhex(f[2])) }')
    A('                        ("mtr", "sudo") => { let addr = match slot(f[1]) { Some(a) => a, None => return "no-contract".into() };')
    A("                            match raw_sudo(&app, &addr, unhex(f[2])) { Ok(r) => show_app_resp(&r), Err(e) => show_any_err(&e) } }")
    A('                        ("mtr", "mig") => { let addr = match slot(f[1]) { Some(a) => a, None => return "no-contract".into() };')
    A('                            let new_code_id = match raw_codes.get(f[3].parse::<usize>().unwrap_or(usize::MAX)) { Some(c) => *c, None => 999 };')
    A("                            match raw_wasm(&app, &acct(f[2]), WasmMsg::Migrate { contract_addr: addr.to_string(), new_code_id, msg: Binary::from(unhex(f[4])) }) {")
    A("                                Ok(r) => show_app_resp(&r), Err(e) => show_any_err(&e) } }")
    A('                        _ => "bad-op".into(),')
    A("                    } }));")
    A("                    if let Some(c) = new_code { codes.push(c); }")
    A("                    if let Some(c) = new_raw_code { raw_codes.push(c); }")
    A("                    if let Some(c) = new_contract { contracts.push(c); }")
    A('                    else if f[0] == "inst" && r.is_err() { contracts.push(None); }')
    A('                    let r = r.unwrap_or_else(|_| "PANIC".to_string());')
    A('                    outs.push(canon_addrs(&format!("{} @@ {}", r, show_chain(&app, &contracts)), &contracts));')
    A("                }")
    A('                outs.join(" ;; ")')
    A("            }")
    return L


def render_helper_ops(prog):
    """remote helpers: executor / querier obtained from a Remote handle, the instantiate builder, the admin helpers"""
    parts = part_paths(prog)
    ct = prog["contract"]
    err = "ContractError" if ct.get("error") else "StdError"
    L = []
    A = L.append
    # ---- xh <part> <via> <method> <addrhex> <amount> <fail> <sender> <height> <seed> <json args>
    A('            "xh" => {')
    A("                let f: Vec<&str> = rest.splitn(10, ' ').collect();")
    A('                if f.len() < 10 { return "bad-op".into(); }')
    A("                let addr = Addr::unchecked(String::from_utf8_lossy(&unhex(f[3])).to_string());")
    A("                let funds = coins_multi(f[4]);")
    A("                let c = Ctx { fail: f[5].to_string(), sender: f[6].to_string(), amount: f[4].parse().unwrap_or(0), height: f[7].parse().unwrap_or(1), seed: f[8].to_string() };")
    A("                let json = f[9];")
    A("                let built: Result<WasmMsg, String> = match (f[0], f[1], f[2]) {")
    for idx, svp, label, methods in parts:
        for m in methods:
            if m["msg"]["kind"] != "exec":
                continue
            tys = [gen.ty_text(a["ty"], " ") for a in m["args"]]
            tup = "(%s)" % "".join(t + ", " for t in tys)
            cname = casing.cc_snake(casing.upper_camel(m["name"]))
            vias = [("ct", "Ct")] + ([("dyn", "dyn %s::%s<Error = %s>" % (prog["ifaces"][idx]["module"], prog["ifaces"][idx]["name"], err))] if svp != "sv" else [])
            for via, ty in vias:
                call = "<ExecutorBuilder<(EmptyExecutorBuilderState, %s)> as %s::Executor>::%s(Remote::<%s>::new(addr.clone()).executor().with_funds(vec![Coin::new(9u128, \"earlier\")]).with_funds(funds.clone())%s)" % (
                    ty, svp, cname, ty, "".join(", a.%d.clone()" % i for i in range(len(tys))))
                if tys:
                    A('                    ("%d", "%s", "%s") => match from_json::<%s>(json.as_bytes()) { Ok(a) => %s.map(|b| b.build()).map_err(|e| e.to_string()), Err(_) => Err("bad-args".into()) },' % (idx, via, m["name"], tup, call))
                else:
                    A('                    ("%d", "%s", "%s") => %s.map(|b| b.build()).map_err(|e| e.to_string()),' % (idx, via, m["name"], call))
    A('                    _ => Err("bad-op".into()),')
    A("                };")
    A("                match built {")
    A('                    Err(e) => format!("err {}", e),')
    A("                    Ok(msg) => {")
    A("                        let shown = show_wasm(&msg);")
    A("                        let body = match &msg { WasmMsg::Execute { msg, .. } => msg.to_vec(), _ => vec![] };")
    A("                        let mut deps = c.deps();")
    A("                        let res = match from_json::<sv::ContractExecMsg>(&body) {")
    A('                            Err(e) => format!("de-{}", show_wrapper_err(&e)),')
    A("                            Ok(m) => { let r = entry_points::execute(deps.as_mut(), c.env(), c.info(), m); show_resp(r, &deps.storage) }")
    A("                        };")
    A('                        format!("{} => {}", shown, res)')
    A("                    }")
    A("                }")
    A("            }")
    # ---- qh <part> <via> <method> <addrhex> <height> <seed> <json args>
    A('            "qh" => {')
    A("                let f: Vec<&str> = rest.splitn(7, ' ').collect();")
    A('                if f.len() < 7 { return "bad-op".into(); }')
    A("                let addr = Addr::unchecked(String::from_utf8_lossy(&unhex(f[3])).to_string());")
    A('                let c = Ctx { fail: "-".into(), sender: "s".into(), amount: 0, height: f[4].parse().unwrap_or(1), seed: f[5].to_string() };')
    A("                let json = f[6];")
    A("                let mut outer = mock_dependencies();")
    A("                let (h, sd) = (c.height, c.seed.clone());")
    A("                outer.querier.update_wasm(move |q| match q {")
    A("                    sylvia::cw_std::WasmQuery::Smart { contract_addr, msg } => {")
    A('                        SEEN_QUERY.with(|s| *s.borrow_mut() = format!("addr={} body={}", contract_addr, String::from_utf8_lossy(msg.as_slice())));')
    A('                        let c2 = Ctx { fail: "-".into(), sender: "s".into(), amount: 0, height: h, seed: sd.clone() };')
    A("                        let deps = c2.deps();")
    A("                        match from_json::<sv::ContractQueryMsg>(msg.as_slice()) {")
    A("                            Ok(m) => match entry_points::query(deps.as_ref(), c2.env(), m) {")
    A("                                Ok(b) => sylvia::cw_std::SystemResult::Ok(sylvia::cw_std::ContractResult::Ok(b)),")
    A("                                Err(e) => sylvia::cw_std::SystemResult::Ok(sylvia::cw_std::ContractResult::Err(e.to_string())),")
    A("                            },")
    A('                            Err(e) => sylvia::cw_std::SystemResult::Ok(sylvia::cw_std::ContractResult::Err(format!("de-{}", show_wrapper_err(&e)))),')
    A("                        }")
    A("                    }")
    A('                    _ => sylvia::cw_std::SystemResult::Err(sylvia::cw_std::SystemError::Unknown {}),')
    A("                });")
    A("                let wrapper = sylvia::cw_std::QuerierWrapper::<Empty>::new(&outer.querier);")
    A("                SEEN_QUERY.with(|s| s.borrow_mut().clear());")
    A("                let res: Result<String, String> = match (f[0], f[1], f[2]) {")
    for idx, svp, label, methods in parts:
        for m in methods:
            if m["msg"]["kind"] != "query":
                continue
            tys = [gen.ty_text(a["ty"], " ") for a in m["args"]]
            tup = "(%s)" % "".join(t + ", " for t in tys)
            cname = casing.cc_snake(casing.upper_camel(m["name"]))
            vias = [("ct", "Ct")] + ([("dyn", "dyn %s::%s<Error = %s>" % (prog["ifaces"][idx]["module"], prog["ifaces"][idx]["name"], err))] if svp != "sv" else [])
            for via, ty in vias:
                call = "<BoundQuerier<'_, Empty, %s> as %s::Querier>::%s(&BoundQuerier::<Empty, %s>::borrowed(&addr, &wrapper)%s)" % (
                    ty, svp, cname, ty, "".join(", a.%d.clone()" % i for i in range(len(tys))))
                if tys:
                    A('                    ("%d", "%s", "%s") => match from_json::<%s>(json.as_bytes()) { Ok(a) => %s.map(|r| j(&r)).map_err(|e| e.to_string()), Err(_) => Err("bad-args".into()) },' % (idx, via, m["name"], tup, call))
                else:
                    A('                    ("%d", "%s", "%s") => %s.map(|r| j(&r)).map_err(|e| e.to_string()),' % (idx, via, m["name"], call))
    A('                    _ => Err("bad-op".into()),')
    A("                };")
    A("                let seen = SEEN_QUERY.with(|s| s.borrow().clone());")
    A('                match res { Ok(r) => format!("{} => ok {}", seen, r), Err(e) => format!("{} => err {}", seen, e) }')
    A("            }")
    # ---- ib <code_id> <setters> <json args>
    inst = [m for m in ct["methods"] if m["msg"]["kind"] == "instantiate"][0]
    tys = [gen.ty_text(a["ty"], " ") for a in inst["args"]]
    tup = "(%s)" % "".join(t + ", " for t in tys)
    A('            "ib" => {')
    A("                let f: Vec<&str> = rest.splitn(3, ' ').collect();")
    A('                if f.len() < 3 { return "bad-op".into(); }')
    A("                let code: u64 = f[0].parse().unwrap_or(0);")
    call = "<InstantiateBuilder as sv::CtInstantiateBuilder>::ct(code%s)" % "".join(", a.%d.clone()" % i for i in range(len(tys)))
    if tys:
        A("                let b = match from_json::<%s>(f[2].as_bytes()) { Ok(a) => %s, Err(_) => return \"bad-args\".into() };" % (tup, call))
    else:
        A("                let b = %s;" % call)
    A('                match b { Err(e) => format!("err {}", e), Ok(b) => { let (b, salt) = apply_setters(b, f[1]); match salt { Some(s) => show_wasm(&b.build2(Binary::from(s))), None => show_wasm(&b.build()) } } }')
    A("            }")
    A('            "adm" => {')
    A("                let f: Vec<&str> = rest.splitn(2, ' ').collect();")
    A("                let addr = Addr::unchecked(String::from_utf8_lossy(&unhex(f[0])).to_string());")
    A("                let r = Remote::<Ct>::new(addr.clone());")
    A("                let r2 = Remote::<Ct>::borrowed(&addr);")
    A('                if f.len() < 2 || f[1] == "-" { format!("{} | {}", show_wasm(&r.clear_admin()), show_wasm(&r2.clear_admin())) }')
    A('                else { let n = String::from_utf8_lossy(&unhex(f[1])).to_string(); format!("{} | {}", show_wasm(&r.update_admin(&n)), show_wasm(&r2.update_admin(&n))) }')
    A("            }")
    return L


def entry_payload(e):
    """payload parameters of a table entry: those of its first method"""
    m = list(e["methods"].values())[0]
    first = [x for x in prog_methods_order(e) ][0]
    return first["args"][(0 if first["reply_role"] == "none" else 1):]


def prog_methods_order(e):
    return e["order"]


def reply_entries(prog):
    """table entries with their methods in merge order"""
    tbl = []
    for m in prog["contract"]["methods"]:
        if m["msg"]["kind"] != "reply":
            continue
        for h in (m["msg"].get("handlers") or [m["name"]]):
            e = next((x for x in tbl if x["handler"] == h), None)
            if e is None:
                e = {"handler": h, "methods": {}, "order": []}
                tbl.append(e)
            e["methods"][m["msg"]["reply_on"]] = m
            e["order"].append(m)
    return tbl


def render_reply_ops(prog):
    tbl = reply_entries(prog)
    if not tbl:
        return []
    L = []
    A = L.append
    pairs = ", ".join('("%s_REPLY_ID", sv::%s_REPLY_ID)' % (casing.cc_upper_snake(e["handler"]), casing.cc_upper_snake(e["handler"])) for e in tbl)
    A('            "rids" => { let v: Vec<(&str, u64)> = vec![%s]; v.iter().map(|(n, i)| format!("{}={}", n, i)).collect::<Vec<_>>().join(",") }' % pairs)
    # ---- reply <id> <gas> <ok|err> <nevents> <datahex|-> <nmsgr> <errhex> <payloadhex> <envspec> <fail> <height> <seed>
    A('            "reply" => {')
    A("                let f: Vec<&str> = rest.split(' ').collect();")
    A('                if f.len() < 12 { return "bad-op".into(); }')
    A('                let c = Ctx { fail: f[9].to_string(), sender: "s".into(), amount: 0, height: f[10].parse().unwrap_or(1), seed: f[11].to_string() };')
    A('                let data = if f[4] == "-" { None } else { Some(unhex(f[4])) };')
    A('                let reply = mk_reply(f[0].parse().unwrap_or(0), f[1].parse().unwrap_or(0), f[2] == "ok", f[3].parse().unwrap_or(0), data, f[5].parse().unwrap_or(0), &String::from_utf8_lossy(&unhex(f[6])), unhex(f[7]));')
    A("                let mut deps = c.deps();")
    A("                let r = sv::dispatch_reply(deps.as_mut(), c.env(), reply, Ct::new());")
    A("                show_reply_resp(r, &deps.storage)")
    A("            }")
    # ---- submsg / rt <entry> <recv> <mode...> <json args>
    for opname in ("submsg", "rt"):
        A('            "%s" => {' % opname)
        if opname == "submsg":
            A("                let mut it = rest.splitn(3, ' ');")
            A('                let (entry, recv, json) = (it.next().unwrap_or(""), it.next().unwrap_or(""), it.next().unwrap_or(""));')
        else:
            A("                let mut it = rest.splitn(7, ' ');")
            A('                let (entry, recv, okerr, gas, height, seed, json) = (it.next().unwrap_or(""), it.next().unwrap_or(""), it.next().unwrap_or(""), it.next().unwrap_or(""), it.next().unwrap_or(""), it.next().unwrap_or(""), it.next().unwrap_or(""));')
        A("                match entry {")
        for n, e in enumerate(tbl):
            pay = e["order"][0]["args"][(0 if e["order"][0]["reply_role"] == "none" else 1):]
            tys = ["String" if a.get("payload_raw") else gen.ty_text(a["ty"], " ") for a in pay]
            tup = "(%s)" % "".join(t + ", " for t in tys)
            call_args = ", ".join(("Binary::from(unhex(&a.%d))" % i) if a.get("payload_raw") else ("a.%d.clone()" % i) for i, a in enumerate(pay))
            h = e["handler"]
            A('                    "%d" => match from_json::<%s>(json.as_bytes()) {' % (n, tup))
            A('                        Err(_) => "bad-args".into(),')
            A("                        Ok(a) => {")
            A("                            let built = match recv {")
            A('                                "sub" => (<SubMsg<Empty> as sv::SubMsgMethods<Empty>>::%s(base_sub(), %s), base_cosmos()),' % (h, call_args))
            A('                                "wasm" => (<WasmMsg as sv::SubMsgMethods<Empty>>::%s(base_wasm(), %s), CosmosMsg::Wasm(base_wasm())),' % (h, call_args))
            A('                                _ => (<CosmosMsg<Empty> as sv::SubMsgMethods<Empty>>::%s(base_cosmos(), %s), base_cosmos()),' % (h, call_args))
            A("                            };")
            if opname == "submsg":
                A("                            show_submsg(built.0, &built.1)")
            else:
                A("                            match built.0 {")
                A('                                Err(e) => format!("err {}", e),')
                A("                                Ok(sm) => {")
                A('                                    let c = Ctx { fail: "-".into(), sender: "s".into(), amount: 0, height: height.parse().unwrap_or(1), seed: seed.to_string() };')
                A('                                    let reply = mk_reply(sm.id, gas.parse().unwrap_or(0), okerr == "ok", 2, None, 1, "boom", sm.payload.to_vec());')
                A("                                    let mut deps = c.deps();")
                A("                                    let r = sv::dispatch_reply(deps.as_mut(), c.env(), reply, Ct::new());")
                A("                                    show_reply_resp(r, &deps.storage)")
                A("                                }")
                A("                            }")
            A("                        }")
            A("                    },")
        A('                    _ => "bad-op".into(),')
        A("                }")
        A("            }")
    return L


# ---------------------------------------------------------------------------------------------
# model JSON
# ---------------------------------------------------------------------------------------------
def model_lines(prog):
    """driver lines that load the program into the model"""
    finalize(prog)
    ls = ["reset"]
    for i in prog["ifaces"]:
        j = gen.interface_json(i)
        j["module"] = i["module"]
        ls.append("iface " + gen.dumps(j))
    ct = dict(prog["contract"])
    ls.append("contract " + gen.dumps(gen.contract_json(ct)))
    return ls


# ---------------------------------------------------------------------------------------------
# building and running
# ---------------------------------------------------------------------------------------------
MAIN_RS = """// generated: corpus shard
mod prelude;
%(mods)s

fn main() {
    use std::io::{BufRead, Write};
    std::panic::set_hook(Box::new(|_| {}));
    let stdin = std::io::stdin();
    let out = std::io::stdout();
    let mut out = std::io::BufWriter::new(out.lock());
    for line in stdin.lock().lines() {
        let line = line.unwrap();
        let mut it = line.splitn(3, ' ');
        let (pid, op, rest) = (it.next().unwrap_or(""), it.next().unwrap_or(""), it.next().unwrap_or(""));
        let r = std::panic::catch_unwind(std::panic::AssertUnwindSafe(|| match pid {
%(arms)s
            _ => "bad-program".to_string(),
        }));
        let r = r.unwrap_or_else(|_| "PANIC".to_string());
        writeln!(out, "{}", r.replace('\\n', "\\\\n")).unwrap();
    }
}
"""

CARGO_TOML = """[package]
name = "%(name)s"
version = "0.0.0"
edition = "2021"
publish = false

[[bin]]
name = "%(name)s"
path = "src/main.rs"

[dependencies]
sylvia = { path = "%(repo)s/sylvia", features = ["mt", "stargate", "iterator", "cosmwasm_1_4", "cosmwasm_2_0"] }
"""


def rename_dep(text, dep):
    """rewrite harness text so that the framework is only reachable under the name `dep`"""
    return re.sub(r"\bsylvia::", dep + "::", text).replace("sylvia = {", dep + " = { package = \"sylvia\",")


def build_corpus(tag, progs, nshards=16, dep=None, check_only=False):
    """Render the programs into shard crates `<tag>-sN`, build them, return {pid: exe}.
    dep: import the framework crate under another name (renamed dependency)."""
    nshards = max(1, min(nshards, len(progs)))
    shards = [[] for _ in range(nshards)]
    for n, p in enumerate(progs):
        shards[n % nshards].append(p)
    prelude = open(os.path.join(c.ROOT, "harness", "corpus", "prelude.rs")).read()
    members = {}
    names = []
    for si, ps in enumerate(shards):
        name = "%s-s%d" % (tag, si)
        names.append(name)
        d = os.path.join(c.WS, name)
        fix = (lambda t: rename_dep(t, dep)) if dep else (lambda t: t)
        c.write_if_changed(os.path.join(d, "Cargo.toml"), fix(CARGO_TOML % {"name": name, "repo": c.REPO}))
        c.write_if_changed(os.path.join(d, "src", "prelude.rs"), fix(prelude))
        mods = "\n".join("mod %s_mod;\nuse %s_mod::%s;" % (p["id"], p["id"], p["id"]) for p in ps)
        arms = "\n".join('            "%s" => %s::run(op, rest),' % (p["id"], p["id"]) for p in ps)
        c.write_if_changed(os.path.join(d, "src", "main.rs"), MAIN_RS % {"mods": mods, "arms": arms})
        keep = {"main.rs", "prelude.rs"}
        for p in ps:
            c.write_if_changed(os.path.join(d, "src", "%s_mod.rs" % p["id"]), fix(render_module(p)))
            keep.add("%s_mod.rs" % p["id"])
        for f in os.listdir(os.path.join(d, "src")):
            if f not in keep:
                os.remove(os.path.join(d, "src", f))
        members[name] = None
    c.ensure_ws_members(members)
    args = ["check" if check_only else "build", "--offline"]
    for n in names:
        args += ["-p", n]
    p = c.cargo(args, cwd=c.WS, timeout=7200)
    if p.returncode != 0:
        raise c.BuildError("corpus build failed (%s)" % tag, p.stdout[-3000:] + p.stderr[-12000:])
    exes = {}
    for si, ps in enumerate(shards):
        for pr in ps:
            exes[pr["id"]] = os.path.join(c.TARGET, "debug", names[si])
    return exes


def run_ops(exes, ops):
    """ops: list of 'pid op rest' lines. Runs each shard once; returns outputs aligned with ops."""
    by_exe = {}
    for n, op in enumerate(ops):
        pid = op.split(" ", 1)[0]
        by_exe.setdefault(exes[pid], []).append(n)
    out = [None] * len(ops)
    for exe, idxs in by_exe.items():
        res = c.run_lines(exe, [ops[i] for i in idxs])
        if len(res) != len(idxs):
            raise RuntimeError("corpus binary %s answered %d of %d lines" % (exe, len(res), len(idxs)))
        for i, r in zip(idxs, res):
            out[i] = r
    return out
