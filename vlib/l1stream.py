"""The L1 facts stream: generated programs expanded by the real macros (hook) vs the model's `facts`."""
import json
import random

from . import common as c, gen, l1, l1facts


def build(ctx, n_contracts, n_ifaces, seed_salt=0):
    rng = random.Random(ctx.seed * 7 + 1000 + seed_salt)
    cts = [l1facts.gen_l1_contract(rng, i) for i in range(n_contracts)]
    ifs = [l1facts.gen_l1_interface(rng, i) for i in range(n_ifaces)]
    return cts, ifs


def view_of(pid):
    """the part of the facts a property speaks about (the full facts are compared by C14's twins only): a difference in another
    property's facts is not this property's broken correspondence"""
    def msgs(j, keep_msg, keep_var, keep_field):
        out = []
        for m in j.get("msgs", []):
            mm = {k: m[k] for k in keep_msg if k in m}
            if "variants" in m:
                mm["variants"] = [dict({k: v[k] for k in keep_var if k in v}, fields=[{k: f[k] for k in keep_field if k in f} for f in v.get("fields", [])])
                                  for v in m["variants"]]
            out.append(mm)
        return out
    if pid == "C01":      # JSON shape: types, variants, fields with their types and (serde) attributes
        return lambda j: {"msgs": msgs(j, ["name", "attrs"], ["name", "attrs"], ["name", "ty", "attrs"])}
    if pid == "C15":      # generic parameters, where-predicates, the aliases naming the types; variants / field types show what uses them
        return lambda j: {"msgs": msgs(j, ["name", "generics", "wheres", "dispatch_generics"], ["name"], ["name", "ty"]), "api": j.get("api")}
    if pid == "C17":      # attributes on types, variants, fields
        return lambda j: {"msgs": msgs(j, ["name", "attrs"], ["name", "attrs"], ["name", "attrs"])}
    return lambda j: j


def run(ctx, name, cts, ifs, tag):
    view = view_of(tag)
    progs = [("c%d" % i, "contract", "", gen.render_contract(ct)) for i, ct in enumerate(cts)] + \
            [("i%d" % i, "interface", "", gen.render_interface(it)) for i, it in enumerate(ifs)]
    res = l1.expand(progs, tag)
    ops, impl, meta = [], [], []
    for i, ct in enumerate(cts):
        f = res["c%d" % i]
        ops += ["reset", "contract " + gen.dumps(gen.contract_json(ct)), "facts contract"]
        obs = l1facts.observed(f) if f["status"] == "clean" else None
        impl += ["ok", "ok", l1facts.canon(view(obs)) if obs is not None else "status:" + f["status"]]
        meta += [None, None, ("c%d" % i, ct, progs[i][3], f["status"])]
    for i, it in enumerate(ifs):
        f = res["i%d" % i]
        j = gen.interface_json(it)
        ops += ["reset", "iface " + gen.dumps(j), "facts iface " + it["module"]]
        obs = l1facts.observed(f, trait_name=it["name"]) if f["status"] == "clean" else None
        impl += ["ok", "ok", l1facts.canon(view(obs)) if obs is not None else "status:" + f["status"]]
        meta += [None, None, ("i%d" % i, it, progs[len(cts) + i][3], f["status"])]
    model_raw = c.run_driver(ops)
    model = []
    for m, o in zip(model_raw, ops):
        if o.startswith("facts"):
            try:
                j = json.loads(m)
                j.pop("reply_diags", None)
                if o.startswith("facts iface"):
                    j.pop("reply_ids", None)
                model.append(l1facts.canon(view(j)))
            except Exception:
                model.append(m)
        else:
            model.append(m)
    return ops, impl, model, meta
