"""The L1 facts stream: generated programs expanded by the real macros (hook) vs the model's `facts`."""
import json
import random

from . import common as c, gen, l1, l1facts


def build(ctx, n_contracts, n_ifaces, seed_salt=0):
    rng = random.Random(ctx.seed * 7 + 1000 + seed_salt)
    cts = [l1facts.gen_l1_contract(rng, i) for i in range(n_contracts)]
    ifs = [l1facts.gen_l1_interface(rng, i) for i in range(n_ifaces)]
    return cts, ifs


def run(ctx, name, cts, ifs, tag):
    progs = [("c%d" % i, "contract", "", gen.render_contract(ct)) for i, ct in enumerate(cts)] + \
            [("i%d" % i, "interface", "", gen.render_interface(it)) for i, it in enumerate(ifs)]
    res = l1.expand(progs, tag)
    ops, impl, meta = [], [], []
    for i, ct in enumerate(cts):
        f = res["c%d" % i]
        ops += ["reset", "contract " + gen.dumps(gen.contract_json(ct)), "facts contract"]
        obs = l1facts.observed(f) if f["status"] == "clean" else None
        impl += ["ok", "ok", l1facts.canon(obs) if obs is not None else "status:" + f["status"]]
        meta += [None, None, ("c%d" % i, ct, progs[i][3], f["status"])]
    for i, it in enumerate(ifs):
        f = res["i%d" % i]
        j = gen.interface_json(it)
        ops += ["reset", "iface " + gen.dumps(j), "facts iface " + it["module"]]
        obs = l1facts.observed(f, trait_name=it["name"]) if f["status"] == "clean" else None
        impl += ["ok", "ok", l1facts.canon(obs) if obs is not None else "status:" + f["status"]]
        meta += [None, None, ("i%d" % i, it, progs[len(cts) + i][3], f["status"])]
    model_raw = c.run_driver(ops)
    model = []
    for m, o in zip(model_raw, ops):
        if o.startswith("facts"):
            try:
                j = json.loads(m)
                j.pop("reply_diags", None)
                if o.startswith("facts iface"):
                    j.pop("reply_ids", None)
                model.append(l1facts.canon(j))
            except Exception:
                model.append(m)
        else:
            model.append(m)
    return ops, impl, model, meta
