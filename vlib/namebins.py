"""a compiled contract whose handler names contain letters outside ASCII: published routing lists vs the names serde puts on the wire"""
import os
import re

from . import common as c


def build_and_run():
    d = os.path.join(c.WS, "cnames")
    toml = ("[package]\nname = \"cnames\"\nversion = \"0.0.0\"\nedition = \"2021\"\npublish = false\n\n[[bin]]\nname = \"cnames\"\npath = \"src/bin/names.rs\"\n\n[dependencies]\n"
            "sylvia = { path = \"%s/sylvia\", features = [\"mt\", \"stargate\", \"iterator\", \"cosmwasm_1_4\", \"cosmwasm_2_0\"] }\n" % c.REPO)
    c.write_if_changed(os.path.join(d, "Cargo.toml"), toml)
    c.write_if_changed(os.path.join(d, "src", "prelude.rs"), open(os.path.join(c.ROOT, "harness", "corpus", "prelude.rs")).read())
    c.write_if_changed(os.path.join(d, "src", "bin", "names.rs"), open(os.path.join(c.ROOT, "harness", "names", "names_bin.rs")).read())
    c.ensure_ws_members({"cnames": None})
    p = c.cargo(["build", "--offline", "-p", "cnames"], cwd=c.WS, timeout=3600)
    if p.returncode != 0:
        return None, p.stderr[-3000:]
    r = c.sh([os.path.join(c.TARGET, "debug", "cnames")])
    return r.stdout.strip().split("\n"), r.stderr[-500:]


def stream(ctx):
    lines, err = build_and_run()
    src = open(os.path.join(c.ROOT, "harness", "names", "names_bin.rs")).read()
    bad = 0
    if lines is None:
        bad += 1
        ctx.violation("valid-program-rejected", "a contract with handler names outside ASCII does not compile: %s" % err[-400:].replace("\n", " | "), {"program": src})
    else:
        for l in lines:
            m = re.match(r"(\w+) lists=(\[.*\]) keys=(\[.*\])$", l)
            if m:
                if m.group(2) != m.group(3):
                    bad += 1
                    ctx.violation("published-list-not-wire-names", "%s_messages() = %s but the messages serialise under %s (names outside ASCII)" % (m.group(1), m.group(2), m.group(3)),
                                  {"program": src, "observed": l})
            elif l.startswith("wrapper ") and not l.endswith("-> ok"):
                bad += 1
                ctx.violation("routing-name", "the contract-level message rejects what its part serialises: %s" % l, {"program": src, "observed": l})
    ctx.add_stream("L2-non-ascii-names", len(lines or []), len(lines or []), samples=(lines or [])[:2], oracle_failures=bad,
                   note="oracle only (identifiers outside ASCII are outside the Lean model's alphabet): lists vs serialised keys, wrapper accepts the parts' encodings")
    ctx.cov["traces_validated_against_impl"] += len(lines or [])
