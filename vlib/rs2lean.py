"""Function translator: a subset of Rust (the `const fn`s of sylvia/src/utils.rs) -> Lean 4.

The hook harness (mode `ast`) dumps the syntax tree of one source file; this module writes
lean/Sylvia/Extracted/UtilsFns.lean from it, on every run.  The translation is a shallow embedding
into the `Res` type of Sylvia/Model/RustSem.lean (value / panic / out of fuel):

  * indexing `a[i]`           -> `(idx a i).bind fun v => ..`            (out of bounds = panic)
  * `a[i] = e`                -> `(setIdx a i e).bind fun a => ..`
  * `x = e`, `x += e`         -> `let x := ..` (shadowing)
  * `if` / `if let` / `match` -> `if` / `match`, the rest of the block copied into every branch (CPS)
  * `konst::for_range!{i in lo..hi => body}` -> a structurally recursive function over the number
    of remaining iterations, carrying the variables the body assigns
  * `while c { body }`        -> a function recursive on a fuel argument (fuel 0 = `.oof`)
  * `return e` inside a loop  -> `.ok (.ret e)`; `continue` -> the recursive call
  * `panic!`, `unreachable!`  -> `.panic`
  * `konst::cmp_str`          -> the section variable `cmp_str : α → α → Ordering`; `konst::eq_str` -> `==`
  * `&`, `*`                  -> erased; `usize` -> `Nat`; arrays and slices -> `List`; `str` -> `α`

Anything outside the subset is reported in `problems` (and the generated file then does not build).
Evaluation order is Rust's (operands left to right; right-hand side of an assignment before the place).
"""
import json
import os
import re

from . import common as c


class Unsupported(Exception):
    pass


PROFILES = {
    # the overlap scan of C05: strings are opaque (α), compared through konst::cmp_str / eq_str
    "utils": {"src": ("sylvia", "src", "utils.rs"), "out": "UtilsFns.lean", "ns": "Extracted.Utils", "imports": ["Sylvia.Model.RustSem"],
              "opens": "open RustSem", "vars": "variable {α : Type} [DecidableEq α] (cmp_str : α → α → Ordering)", "str": "α",
              # the five functions of the overlap scan only: another function added to the file is not this profile's business
              "only": ["get_next_alphabetical_index", "init_states", "should_end", "verify_no_collissions", "assert_no_intersection"],
              "only_enums": ["State"]},
    # the rule behind the published name lists (C03 / C05 / C10): strings are lists over the identifier alphabet `Casing.Ch`
    "casing": {"src": ("sylvia-derive", "src", "types", "msg_variant.rs"), "out": "CasingFns.lean", "ns": "Extracted.CasingFns",
               "imports": ["Sylvia.Model.RustSem", "Sylvia.Model.Casing"], "opens": "open RustSem Casing", "vars": "", "str": "List Ch",
               "only": ["serde_snake_case"]},
    # `ReplyOn::excludes` (C07 / C14 / C18): which outcomes may not share a handler name
    "replyon": {"src": ("sylvia-derive", "src", "parser", "attributes", "msg.rs"), "out": "ReplyOnFns.lean", "ns": "Extracted.ReplyOnFns",
                "imports": ["Sylvia.Model.RustSem"], "opens": "open RustSem", "vars": "", "str": "String",
                "only": ["ReplyOn.excludes"], "only_enums": ["ReplyOn"]},
    # the instantiate builder of the runtime library (C10 / C12): a plain struct with setters and two build functions;
    # cosmwasm_std's Binary / Coin are opaque type parameters, WasmMsg is declared in Sylvia/Model/RustExtern.lean
    "builder": {"src": ("sylvia", "src", "builder", "instantiate.rs"), "out": "BuilderFns.lean", "ns": "Extracted.Builder",
                "imports": ["Sylvia.Model.RustSem", "Sylvia.Model.RustExtern"], "opens": "open RustSem RustExtern",
                "vars": "variable {Binary Coin : Type}", "str": "String", "only": None, "tparams": ["Binary", "Coin"],
                "extern_types": {"WasmMsg": "WasmMsg Binary Coin"}, "extern_enums": {"WasmMsg": ["Instantiate", "Instantiate2"]}},
    # `ReplyData::emit_cw_reply_on` (C08): which reply trigger the generated sub-message builder requests for a handler name, from the
    # (method, outcome) pairs merged under it; `quote!{..}` results are kept as their token text
    "replydata": {"src": ("sylvia-derive", "src", "contract", "communication", "reply.rs"), "out": "ReplyDataFns.lean", "ns": "Extracted.ReplyDataFns",
                  "imports": ["Sylvia.Model.RustSem", "Sylvia.Extracted.ReplyOnFns"], "opens": "open RustSem Extracted.ReplyOnFns",
                  "vars": "variable {Ident MsgField : Type}", "str": "String", "only": ["ReplyData.emit_cw_reply_on"], "only_enums": [],
                  "only_structs": ["ReplyData"], "tparams": ["Ident", "MsgField"],
                  "extern_types": {"ReplyOn": "ReplyOn", "TokenStream": "String"},
                  "extern_enum_fields": {"ReplyOn": {"Success": [], "Error": [], "Always": []}},
                  "extern_calls": {"crate_module": "()"}},
    # remote handles of the runtime library (C10 / C20): `Remote` (constructors, executor(), admin helpers, its hand-written
    # JsonSchema::schema_name), `ExecutorBuilder` (both states); PhantomData fields are dropped, an `Addr` is its string
    "handles": {"src": ("sylvia", "src", "types.rs"), "out": "HandleFns.lean", "ns": "Extracted.Handles",
                "imports": ["Sylvia.Model.RustSem", "Sylvia.Model.RustExtern", "Sylvia.Util.Bytes"], "opens": "open RustSem RustExtern",
                "vars": "variable {Binary Coin : Type} [Inhabited Binary]", "str": "String",
                "only": ["ExecutorBuilder.new_1", "ExecutorBuilder.new_3", "ExecutorBuilder.with_funds", "ExecutorBuilder.funds", "ExecutorBuilder.contract",
                         "ExecutorBuilder.build", "Remote.new", "Remote.borrowed", "Remote.executor", "Remote.update_admin", "Remote.clear_admin"],
                "only_structs": ["ExecutorBuilder", "Remote"], "only_enums": [], "trait_only": ["Remote.schema_name", "Remote.as_ref"],
                "tparams": ["Binary", "Coin"], "skip_field_types": ["PhantomData"],
                "extern_types": {"Addr": "String", "WasmMsg": "WasmMsg Binary Coin"}, "extern_generic": {"Cow": "Cow"},
                "extern_enums": {"WasmMsg": ["Execute", "UpdateAdmin", "ClearAdmin"]},
                "extern_enum_fields": {"Cow": {"Owned": ["_"], "Borrowed": ["_"]}},
                "extern_calls": {"Binary::default": "(default : Binary)"},
                "shape_of": ["Remote"], "trait_impls_of": ["Remote"]},
    # `StripInput` (C13): what the contract / interface macros do to the annotated item before re-emitting it. syn's tree is the view
    # declared in RustExtern.Syn; `SylviaAttribute::new` (which attributes are the framework's own: the regenerated table
    # `svAttributes`) and `SylviaAttribute::Msg` are parameters
    "strip": {"src": ("sylvia-derive", "src", "fold.rs"), "out": "StripFns.lean", "ns": "Extracted.StripFns",
              "imports": ["Sylvia.Model.RustSem", "Sylvia.Model.RustExtern"], "opens": "open RustSem RustExtern RustExtern.Syn",
              "vars": "variable {Attr R SylviaAttribute : Type} [DecidableEq SylviaAttribute]", "str": "String",
              "only": ["remove_input_attr"], "only_enums": [], "only_structs": ["StripInput"],
              "trait_only": ["StripInput.fold_trait_item_fn", "StripInput.fold_impl_item_fn", "StripInput.fold_item_trait", "StripInput.fold_item_impl"],
              "leading_binders": "(svMsg : SylviaAttribute) (svNew : Attr → Option SylviaAttribute)", "leading_args": "svMsg svNew",
              "extern_types": {"FnArg": "FnArg Attr R", "ImplItemFn": "ImplItemFn Attr R", "TraitItemFn": "TraitItemFn Attr R",
                               "ItemImpl": "ItemImpl Attr R", "ItemTrait": "ItemTrait Attr R"},
              "extern_generic": {"Punctuated": "List"},
              "extern_enum_fields": {"FnArg": {"Receiver": ["_"], "Typed": ["_"]}},
              "extern_structs": {"Receiver": "Receiver Attr R", "PatType": "PatType Attr R", "Signature": "Signature Attr R",
                                 "ImplItemFn": "ImplItemFn Attr R", "TraitItemFn": "TraitItemFn Attr R", "ItemImpl": "ItemImpl Attr R", "ItemTrait": "ItemTrait Attr R"},
              "extern_calls": {"SylviaAttribute::new": "svNew", "SylviaAttribute::Msg": "svMsg",
                               "fold::fold_impl_item_fn": "Syn.fold_impl_item_fn", "fold::fold_trait_item_fn": "Syn.fold_trait_item_fn",
                               "fold::fold_item_impl": "Syn.fold_item_impl (StripInput.fold_impl_item_fn svMsg svNew self)",
                               "fold::fold_item_trait": "Syn.fold_item_trait (StripInput.fold_trait_item_fn svMsg svNew self)"},
              "extern_call_drops_self": ["fold::fold_item_impl", "fold::fold_item_trait"],
              "extern_calls_res": ["fold::fold_impl_item_fn", "fold::fold_trait_item_fn", "fold::fold_item_impl", "fold::fold_item_trait"]},
    # the context types handlers receive (C02, C07): six structs, their `From<tuple>` conversions (what `Into::into(ctx)` in a
    # generated dispatch arm does) and `branch`; cosmwasm_std's Deps / DepsMut / Env / MessageInfo / Event / MsgResponse are opaque
    "ctx": {"src": ("sylvia", "src", "ctx.rs"), "out": "CtxFns.lean", "ns": "Extracted.CtxFns",
            "imports": ["Sylvia.Model.RustSem"], "opens": "open RustSem",
            "vars": "variable {Deps DepsMut Env MessageInfo Event MsgResponse : Type}", "str": "String",
            "only": ["ExecCtx.branch", "InstantiateCtx.branch", "SudoCtx.branch"], "only_enums": [],
            "only_structs": ["ReplyCtx", "MigrateCtx", "ExecCtx", "InstantiateCtx", "QueryCtx", "SudoCtx"],
            "trait_only": ["MigrateCtx.from", "ReplyCtx.from", "ExecCtx.from", "InstantiateCtx.from", "QueryCtx.from", "SudoCtx.from"],
            "tparams": ["Deps", "DepsMut", "Env", "MessageInfo", "Event", "MsgResponse"],
            "opaque_generic": ["Deps", "DepsMut"],
            "leading_binders": "(branchDeps : DepsMut → DepsMut)", "leading_args": "branchDeps",
            "extern_methods": {"branch": "branchDeps"}},
    # the exec / migrate proxies of the multitest helpers and `downcast_error` (C12): what is handed to the chain, and what is made of
    # the chain's answer; the chain's two operations are the parameter `chain` (RustExtern.Mt.Chain)
    "mtproxy": {"src": ("sylvia", "src", "multitest.rs"), "out": "MtProxyFns.lean", "ns": "Extracted.MtProxyFns",
                "imports": ["Sylvia.Model.RustSem", "Sylvia.Model.RustExtern"], "opens": "open RustSem RustExtern RustExtern.Mt",
                "vars": "variable {App Msg Coin Resp Error : Type}", "str": "String",
                "only": ["downcast_error", "ExecProxy.new", "ExecProxy.with_funds", "ExecProxy.call", "MigrateProxy.new", "MigrateProxy.call"],
                "only_enums": [], "only_structs": ["ExecProxy", "MigrateProxy"], "tparams": ["App", "Msg", "Coin"], "type_vars": ["Error", "Msg", "Coin"],
                "skip_field_types": ["PhantomData"], "opaque_generic": ["App"],
                "extern_types": {"Addr": "String", "AppResponse": "Resp"},
                "extern_paths": {"anyhow::Error": "AnyErr Error"},
                "leading_binders": "(chain : Chain App Msg Coin Resp Error) (fromStd : StdError → Error)", "leading_args": "chain fromStd",
                "extern_calls": {"StdError::generic_err": "StdError.generic_err", "Addr::unchecked": "id"},
                "turbofish_methods": {("is", "Error"): "AnyErr.isOwn", ("is", "StdError"): "AnyErr.isStd",
                                      ("downcast", "Error"): "AnyErr.downcastOwn", ("downcast", "StdError"): "AnyErr.downcastStd"},
                "into": "fromStd", "to_string": "AnyErr.text",
                "chain_methods": {"execute_contract": "chain.execute_contract", "migrate_contract": "chain.migrate_contract"}},
    # `CheckGenerics` (C15): which of the user's generic parameters a message type uses. `visit_path` is the one visit the macro overrides;
    # the loop that hands the segments back to syn's walker (`for el in &p.segments { self.visit_path_segment(el) }`) is the default
    # recursion and is left to the walker, which here is a parameter delivering the paths of a node in visiting order
    "checkgen": {"src": ("sylvia-derive", "src", "parser", "check_generics.rs"), "out": "CheckGenFns.lean", "ns": "Extracted.CheckGenFns",
                 "imports": ["Sylvia.Model.RustSem"], "opens": "open RustSem",
                 "vars": "variable {Generic Path : Type} [DecidableEq Generic] [DecidableEq Path]", "str": "String",
                 "only": ["CheckGenerics.new", "CheckGenerics.used", "CheckGenerics.used_unused"], "only_enums": [], "only_structs": ["CheckGenerics"],
                 "trait_only": ["CheckGenerics.visit_path"], "tparams": ["Generic"], "type_vars": ["Generic"],
                 "extern_paths": {"syn::Path": "Path"},
                 "leading_binders": "(getPath : Generic → Option Path)", "leading_args": "getPath",
                 "extern_methods": {"get_path": "getPath"}, "skip_visit_recursion": True},
    # `filter_wheres` (C15): which of the user's where-predicates a message type keeps; the generics checker is a parameter here
    # (instantiated with the regenerated `CheckGenerics` in Thm/GenericsFn.lean)
    "wheres": {"src": ("sylvia-derive", "src", "utils.rs"), "out": "WheresFns.lean", "ns": "Extracted.WheresFns",
               "imports": ["Sylvia.Model.RustSem"], "opens": "open RustSem",
               "vars": "variable {Generic WherePredicate CG : Type} [DecidableEq Generic]", "str": "String",
               "only": ["filter_wheres"], "only_enums": [], "only_structs": [], "type_vars": ["Generic"],
               "extern_types": {"WherePredicate": "WherePredicate", "WhereClause": "List WherePredicate"},
               "leading_binders": "(cgNew : List Generic → CG) (cgVisit : CG → WherePredicate → CG) (cgUsed : CG → List Generic)", "leading_args": "cgNew cgVisit cgUsed",
               "extern_calls": {"CheckGenerics::new": "cgNew"}, "extern_methods": {"used": "cgUsed"},
               "mut_visitor_methods": {"visit_where_predicate": "cgVisit"}, "newtype_fields": ["predicates"]},
    # `extract_return_type` (C16): the type a query's signature returns on success, read off `Result<T, _>` / `StdResult<T>` written
    # with or without a path; `emit_error!` is a diagnostic appended to the list the function returns next to its value
    "rettype": {"src": ("sylvia-derive", "src", "utils.rs"), "out": "RetTypeFns.lean", "ns": "Extracted.RetTypeFns",
                "imports": ["Sylvia.Model.RustSem", "Sylvia.Model.RustExtern"], "opens": "open RustSem RustExtern.SynTy",
                "vars": "", "str": "String", "only": ["extract_return_type"], "only_enums": [], "only_structs": [], "diags": True,
                "extern_types": {"ReturnType": "ReturnType", "Path": "Path"},
                "extern_enum_fields": {"ReturnType": {"Default": [], "Type": ["_", "_"]}, "Type": {"Path": ["_"], "Other": []},
                                       "PathArguments": {"None": [], "AngleBracketed": ["_"], "Parenthesized": []},
                                       "GenericArgument": {"Type": ["_"], "Other": []}}},
    # where a reply handler's `#[sv::data]` and `#[sv::payload(raw)]` parameters may stand (C18, C09): `as_data_field` and
    # `assert_no_redundant_params` of reply.rs; the accessors of MsgVariant / MsgField / MsgAttr and the attribute parser are parameters
    "replyparams": {"src": ("sylvia-derive", "src", "contract", "communication", "reply.rs"), "out": "ReplyParamFns.lean", "ns": "Extracted.ReplyParamFns",
                    "imports": ["Sylvia.Model.RustSem", "Sylvia.Model.RustExtern", "Sylvia.Extracted.ReplyOnFns"], "opens": "open RustSem Extracted.ReplyOnFns\nopen RustExtern (ParsedAttrs)",
                    "vars": "variable {MsgVariant MsgField MsgAttr Attr P D Ident : Type}", "str": "String",
                    "only": ["assert_no_redundant_params"], "only_enums": [], "only_structs": [], "trait_only": ["MsgVariant.as_variant_handlers_pair", "MsgVariant.as_data_field"], "diags": True,
                    "type_vars": ["MsgVariant", "MsgField", "Ident"],
                    "extern_enum_fields": {"ReplyOn": {"Success": [], "Error": [], "Always": []}},
                    "leading_binders": "(variantFields : MsgVariant → List MsgField) (variantMsgAttr : MsgVariant → MsgAttr) (attrReplyOn : MsgAttr → ReplyOn) "
                                       "(fieldAttrs : MsgField → List Attr) (parsedAttrs : List Attr → ParsedAttrs P D) "
                                       "(attrHandlers : MsgAttr → List Ident) (variantFnName : MsgVariant → Ident)",
                    "leading_args": "variantFields variantMsgAttr attrReplyOn fieldAttrs parsedAttrs attrHandlers variantFnName",
                    "extern_methods": {"fields": "variantFields", "msg_attr": "variantMsgAttr", "reply_on": "attrReplyOn", "attrs": "fieldAttrs",
                                       "handlers": "attrHandlers", "function_name": "variantFnName"},
                    # the two constants of reply.rs (both 1; `const NUMBER_OF_ALLOWED_*: usize = 1`)
                    "extern_calls": {"ParsedSylviaAttributes::new": "parsedAttrs", "NUMBER_OF_ALLOWED_RAW_PAYLOAD_FIELDS": "1", "NUMBER_OF_ALLOWED_DATA_FIELDS": "1"}},
    # `ReplyData::new` (C07 / C08 / C18): the table entry a reply method opens - which parameters are payload, which is the data
    # parameter, the diagnostics of a missing payload; it calls `as_data_field` and `assert_no_redundant_params` (same file)
    "replynew": {"src": ("sylvia-derive", "src", "contract", "communication", "reply.rs"), "out": "ReplyNewFns.lean", "ns": "Extracted.ReplyNewFns",
                 "imports": ["Sylvia.Model.RustSem", "Sylvia.Model.RustExtern", "Sylvia.Extracted.ReplyOnFns"], "opens": "open RustSem Extracted.ReplyOnFns\nopen RustExtern (ParsedAttrs)",
                 "vars": "variable {MsgVariant MsgField MsgAttr Attr P D Ident FieldTy : Type} [DecidableEq FieldTy]", "str": "String",
                 "only": ["assert_no_redundant_params", "ReplyData.new", "ReplyData.merge"], "only_enums": [], "only_structs": ["ReplyData"],
                 "trait_only": ["MsgVariant.as_data_field"], "diags": True, "tparams": ["Ident", "MsgField"],
                 "type_vars": ["MsgVariant", "MsgField", "Ident"],
                 "extern_types": {"ReplyOn": "ReplyOn"},
                 "extern_enum_fields": {"ReplyOn": {"Success": [], "Error": [], "Always": []}},
                 "leading_binders": "(variantFields : MsgVariant → List MsgField) (variantMsgAttr : MsgVariant → MsgAttr) (attrReplyOn : MsgAttr → ReplyOn) "
                                    "(fieldAttrs : MsgField → List Attr) (parsedAttrs : List Attr → ParsedAttrs P D) (variantFnName : MsgVariant → Ident) "
                                    "(fieldTy : MsgField → FieldTy)",
                 "leading_args": "variantFields variantMsgAttr attrReplyOn fieldAttrs parsedAttrs variantFnName fieldTy",
                 "extern_methods": {"fields": "variantFields", "msg_attr": "variantMsgAttr", "reply_on": "attrReplyOn", "attrs": "fieldAttrs", "function_name": "variantFnName",
                                    "ty": "fieldTy"},
                 "extern_unit_methods": ["validate_fields_attributes"],
                 "extern_calls": {"ParsedSylviaAttributes::new": "parsedAttrs", "NUMBER_OF_ALLOWED_RAW_PAYLOAD_FIELDS": "1", "NUMBER_OF_ALLOWED_DATA_FIELDS": "1"}},
    # the bridge to chain-custom types (C11): `IntoMsg::into_msg` and `IntoResponse::into_response`, trait methods on cosmwasm_std's
    # SubMsg / Response (declared in Sylvia/Model/RustExtern.lean); arms compiled under `#[cfg(feature = "..")]` become
    # `if feat ".." then <arm> else <the wildcard arm>`, so the regenerated function is the code under every feature set at once
    "bridge": {"src": ("sylvia", "src", "into_response.rs"), "out": "BridgeFns.lean", "ns": "Extracted.Bridge",
               "imports": ["Sylvia.Model.RustSem", "Sylvia.Model.RustExtern"], "opens": "open RustSem RustExtern",
               "vars": "variable {X : Ext} {C T : Type}", "str": "String", "only": [], "only_enums": [],
               "trait_only": ["SubMsg.into_msg", "Response.into_response"], "type_vars": ["C", "T"],
               "leading_binders": "(feat : String → Bool)", "leading_args": "feat",
               "extern_types": {"Empty": "CwEmpty", "StdError": "StdError"},
               "extern_generic": {"SubMsg": "SubMsg X", "Response": "Response X", "CosmosMsg": "CosmosMsg X", "StdResult": "Except StdError"},
               "extern_enum_fields": {"CosmosMsg": {"Bank": ["_"], "Custom": ["_"], "Staking": ["_"], "Distribution": ["_"], "Stargate": ["_", "_"],
                                                    "Ibc": ["_"], "Wasm": ["_"], "Gov": ["_"], "Any": ["_"]}},
               "extern_variant_fields": {"CosmosMsg": {"Stargate": ["type_url", "value"]}},
               "extern_enums": {"CosmosMsg": ["Stargate"]},
               "extern_structs": {"SubMsg": "SubMsg X _", "Response": "Response X _"},
               "extern_calls": {"Response::new": "Response.new", "StdError::generic_err": "StdError.generic_err"},
               "extern_methods": {"add_submessages": "Response.add_submessages", "add_events": "Response.add_events",
                                  "add_attributes": "Response.add_attributes"}},
}


def lean_str(s):
    if any(ord(ch) > 126 or (ord(ch) < 32 and ch not in "\n\t") for ch in s):
        raise Unsupported("string literal outside printable ASCII")
    return json.dumps(s)


def cfg_feature(attr):
    """`cfg(feature = "x")` (normalised token text) -> "x"; `allow(..)` -> None; anything else is outside the subset"""
    a = attr.replace(" ", "")
    if a.startswith("allow("):
        return None
    if a.startswith('cfg(feature="') and a.endswith('")') and a.count('"') == 2:
        return a[len('cfg(feature="'):-2]
    raise Unsupported("attribute on a match arm: %s" % attr)


LEAN_WORDS = {"rec", "end", "at", "from", "fun", "open", "show", "have", "then", "do", "where", "with", "in", "by", "calc", "instance", "class",
              "structure", "theorem", "def", "example", "deriving", "namespace", "section", "variable", "universe", "mutual", "macro", "syntax", "notation"}


def lid(x):
    """a Rust identifier as a Lean identifier"""
    return x + "_" if x in LEAN_WORDS else x


def ch_literal(c):
    if c == "_":
        return "Ch.us"
    if "a" <= c <= "z":
        return "(Ch.lower %d)" % (ord(c) - 97)
    if "A" <= c <= "Z":
        return "(Ch.upper %d)" % (ord(c) - 65)
    if "0" <= c <= "9":
        return "(Ch.digit %d)" % (ord(c) - 48)
    raise Unsupported("character literal %r outside the identifier alphabet" % c)


def ind(lines, n=1):
    return [("  " * n) + l for l in lines]


class FnTr:
    def __init__(self, mod, fn):
        self.mod = mod
        self.fn = fn
        self.name = fn["name"]
        self.tmp = 0
        self.loops = []          # emitted loop definitions (lists of lines)
        self.nloops = 0
        self.types = {}          # variable -> lean type
        self.order = []          # declaration order of fn-level variables
        self.depth = 0           # > 0 while translating the body of a loop
        if isinstance(fn["generics"], str):
            if fn["generics"].strip():
                raise Unsupported("generic method")
            fn = dict(fn, generics=[])
            self.fn = fn
        self.generics = [g[1] for g in fn["generics"]]
        if self.mod.profile.get("type_vars"):
            fn = dict(fn, generics=[g for g in fn["generics"] if not (g[0] == "unsupported" and (g[1].startswith("'") or g[1].split(":")[0].strip() in self.mod.profile["type_vars"]))])
            self.fn = fn
            self.generics = [g[1] for g in fn["generics"]]
        for g in fn["generics"]:
            if g[0] != "const":
                raise Unsupported("generic parameter %s" % g)
            self.declare(g[1], "Nat")
        self.params = []
        self.param_lets = []
        for n_, (pat, ty) in enumerate(fn["params"]):
            if pat[0] == "ptuple" and all(x[0] in ("pid", "wild") for x in pat[1]):
                # `fn f((a, b): (A, B))`: the parameter is named and taken apart first
                nm = "arg%d" % n_
                self.declare(nm, self.mod.ty(ty))
                self.params.append(nm)
                self.param_lets.append("let (%s) := %s" % (", ".join(lid(x[1]) if x[0] == "pid" else "_" for x in pat[1]), nm))
                continue
            if pat[0] != "pid":
                raise Unsupported("parameter pattern %s" % pat)
            self.declare(pat[1], self.mod.ty(ty))
            self.params.append(pat[1])
        self.ret = self.mod.ty(fn["ret"])
        self.mut_self = bool(fn.get("mut_self")) and fn["ret"] == ["tunit"]
        if self.mut_self:
            self.ret = self.types["self"]

    # ------------------------------------------------------------------ helpers
    def declare(self, v, t):
        self.types[v] = t
        if v not in self.order:
            self.order.append(v)

    def fresh(self):
        v = "v%d" % self.tmp
        self.tmp += 1
        return v

    def infer(self, e):
        k = e[0]
        if k == "int":
            return "Nat"
        if k == "bool":
            return "Bool"
        if k == "repeat":
            return "List %s" % self.paren_ty(self.infer(e[1]))
        if k == "call" and e[1][0] == "path" and e[1][1] == ["String", "new"]:
            return self.mod.ty(["tpath", ["String"]])
        if k == "call":
            f = e[1]
            if f[0] == "path":
                p = f[1]
                if len(p) == 1 and p[0] in self.mod.fns:
                    return self.mod.ty(self.mod.fns[p[0]]["ret"])
                if len(p) == 2 and p[0] in self.mod.enums:
                    return p[0]
        if k == "path" and len(e[1]) == 1 and e[1][0] in self.types:
            return self.types[e[1][0]]
        if k == "path" and len(e[1]) == 2 and e[1][0] in self.mod.enums:
            return e[1][0]
        if k == "bin" and e[1] in ("+", "-", "*"):
            return "Nat"
        if k == "bin" and e[1] in ("==", "!=", "<", "<=", ">", ">=", "&&", "||"):
            return "Bool"
        if k == "un" and e[1] == "!":
            return "Bool"
        if k == "matches":
            return "Bool"
        if k in ("ref",):
            return self.infer(e[1])
        raise Unsupported("cannot infer the type of %s" % json.dumps(e)[:80])

    @staticmethod
    def paren_ty(t):
        return "(%s)" % t if " " in t else t

    # ------------------------------------------------------------------ patterns
    def pat(self, p, bind_types=None):
        k = p[0]
        if k == "wild":
            return "_"
        if k == "pid":
            return lid(p[1])
        if k == "ppath":
            path = p[1]
            if path[-2:] == ["Ordering", "Greater"]:
                return ".gt"
            if path[-2:] == ["Ordering", "Less"]:
                return ".lt"
            if path[-2:] == ["Ordering", "Equal"]:
                return ".eq"
            if len(path) == 2 and path[0] in self.mod.enums:
                return "." + path[1]
            raise Unsupported("path pattern %s" % path)
        if k == "pts" and p[1] == ["Some"] and len(p[2]) == 1:
            return "(some %s)" % self.pat(p[2][0])
        if k == "pts":
            path, subs = p[1], p[2]
            if len(path) > 2 and path[-2] in self.mod.enums and path[0] in ("std", "cosmwasm_std", "syn"):
                path = path[-2:]
            if len(path) == 2 and path[0] in self.mod.enums:
                fields = self.mod.enums[path[0]][path[1]]
                if len(subs) == 1 and subs[0][0] == "rest":
                    return "." + path[1] + "".join(" _" for _ in fields)
                if len(subs) != len(fields):
                    raise Unsupported("pattern arity %s" % p)
                out = []
                for s_, ft in zip(subs, fields):
                    if s_[0] == "pid":
                        self.types[s_[1]] = ft
                    sp = self.pat(s_)
                    out.append("(%s)" % sp if " " in sp and not sp.startswith("(") else sp)
                return "." + path[1] + "".join(" " + o for o in out)
            raise Unsupported("tuple-struct pattern %s" % path)
        if k == "pstruct":
            path, fields, has_rest = p[1], p[2], p[3]
            names = self.mod.profile.get("extern_variant_fields", {}).get(path[0], {}).get(path[-1]) if len(path) == 2 else None
            if names is None:
                raise Unsupported("struct pattern %s" % "::".join(path))
            given = {f[0]: f[1] for f in fields}
            if set(given) - set(names) or (not has_rest and set(given) != set(names)):
                raise Unsupported("fields of struct pattern %s" % "::".join(path))
            return "." + path[1] + "".join(" " + (self.pat(given[n]) if n in given else "_") for n in names)
        if k == "por":
            return " | ".join(self.pat(x) for x in p[1])
        if k == "ptuple":
            return "(%s)" % ", ".join(self.pat(x) for x in p[1])
        if k == "plit":
            return self.pure(p[1])
        raise Unsupported("pattern %s" % json.dumps(p)[:80])

    # ------------------------------------------------------------------ expressions (CPS)
    def ex(self, e, k, hint=None):
        """lines computing e, continuing with k(<pure lean term for the value>)"""
        t = e[0]
        if t == "int":
            return k(e[1])
        if t == "bool":
            return k("true" if e[1] else "false")
        if t == "unit":
            return k("()")
        if t == "char":
            return k(ch_literal(e[1]))
        if t == "str":
            return k(lean_str(e[1]))
        if t == "format":
            return k("(fmt %s)" % lean_str(e[1]))
        if t == "quote":
            return k(lean_str(e[1]))
        if t == "emit_error":
            if not self.mod.profile.get("diags"):
                raise Unsupported("emit_error! outside a profile that returns diagnostics")
            return ["let diags := diags ++ [%s]" % lean_str(e[1])] + k("()")
        if t == "try":
            if self.depth:
                raise Unsupported("`?` inside a loop")
            inner = e[1]
            if inner[0] == "call" and inner[1] == ["path", ["Err"]] and len(inner[2]) == 1:
                return self.ex(inner[2][0], lambda v: [".ok (.error %s)" % v])
            def kt(v):
                x = hint or self.fresh()
                return ["match %s with" % v, "| .error e => .ok (.error e)", "| .ok %s =>" % x] + ind(k(x))
            return self.ex(inner, kt)
        if t == "return":
            if self.depth:
                raise Unsupported("`return` in expression position inside a loop")
            if e[1] is None and self.mut_self:
                return self.ret_lines("self", None)
            val = e[1] if e[1] is not None else ["unit"]
            return self.ex(val, lambda v: self.ret_lines(v, None))
        if t == "field":
            if e[2] in self.mod.profile.get("newtype_fields", []):
                return self.ex(e[1], k)
            return self.ex(e[1], lambda b: k("%s.%s" % (b, e[2])))
        if t == "tuple":
            return self.args(e[1], lambda vs: k("(%s)" % ", ".join(vs)))
        if t == "matches":
            return self.ex(e[1], lambda v: k("(match %s with | %s => true | _ => false)" % (v, self.pat(e[2]))))
        if t in ("vec", "array"):
            return self.args(e[1], lambda vs: k("[%s]" % ", ".join(vs)))
        if t == "struct":
            path, fields, rest_ = e[1], e[2], e[3]
            owner_ = self.fn.get("owner")
            sname_ = owner_ if path == ["Self"] else (path[0] if len(path) == 1 else None)
            dropped = self.mod.skipped_fields.get(sname_, set()) if sname_ else set()
            fields = [f for f in fields if f[0] not in dropped]
            names = [f[0] for f in fields]
            if rest_ is not None and sname_ in self.mod.profile.get("extern_structs", {}) and sname_ not in self.mod.structs:
                return self.ex(rest_, lambda rv: self.args([f[1] for f in fields], lambda vs: k(
                    "({ %s with %s } : %s)" % (rv, ", ".join("%s := %s" % (n, v) for n, v in zip(names, vs)), self.mod.profile["extern_structs"][sname_]))))
            if rest_ is not None:
                if not (sname_ in self.mod.structs):
                    raise Unsupported("struct update syntax on a foreign type")
                return self.ex(rest_, lambda rv: self.args([f[1] for f in fields], lambda vs: k(
                    "({ %s with %s } : %s)" % (rv, ", ".join("%s := %s" % (n, v) for n, v in zip(names, vs)), self.mod.struct_ty(sname_)))))

            def kf(vs):
                owner = self.fn.get("owner")
                if path == ["Self"] and owner or (len(path) == 1 and path[0] in self.mod.structs):
                    sname = owner if path == ["Self"] else path[0]
                    return k("({ %s } : %s)" % (", ".join("%s := %s" % (n, v) for n, v in zip(names, vs)), self.mod.struct_ty(sname)))
                if len(path) == 2 and path[1] in self.mod.profile.get("extern_enums", {}).get(path[0], []):
                    return k("(%s.%s %s)" % (path[0], path[1], " ".join("(%s := %s)" % (n, v) for n, v in zip(names, vs))))
                if len(path) == 1 and path[0] in self.mod.profile.get("extern_structs", {}):
                    return k("({ %s } : %s)" % (", ".join("%s := %s" % (n, v) for n, v in zip(names, vs)), self.mod.profile["extern_structs"][path[0]]))
                raise Unsupported("struct literal %s" % "::".join(path))
            return self.args([f[1] for f in fields], kf)
        if t == "path":
            p = e[1]
            if p == ["None"]:
                return k("none")
            if "::".join(p) in self.mod.profile.get("extern_calls", {}):
                return k(self.mod.profile["extern_calls"]["::".join(p)])
            if len(p) == 1:
                return k(lid(p[0]))
            if len(p) == 2 and p[0] in self.mod.enums:
                return k("%s.%s" % (p[0], p[1]))
            raise Unsupported("path %s" % p)
        if t == "ref":
            return self.ex(e[1], k, hint)
        if t == "un":
            if e[1] == "*":
                return self.ex(e[2], k, hint)
            if e[1] == "!":
                return self.ex(e[2], lambda v: k("(!%s)" % v))
            raise Unsupported("unary %s" % e[1])
        if t == "index":
            def k1(a):
                def k2(i):
                    v = hint or self.fresh()
                    return ["(idx %s %s).bind fun %s =>" % (a, i, v)] + k(v)
                return self.ex(e[2], k2)
            return self.ex(e[1], k1)
        if t == "bin":
            op = e[1]
            if op in ("==", "+", "<", "<=", ">", ">=", "-", "*", "!="):
                return self.ex(e[2], lambda l: self.ex(e[3], lambda r: k("(%s %s %s)" % (l, op, r))))
            if op in ("&&", "||"):
                # short-circuit evaluation is invisible when both operands are pure
                return k("(%s %s %s)" % (self.pure(e[2]), op, self.pure(e[3])))
            raise Unsupported("binary operator %s in expression position" % op)
        if t == "mcall":
            name = e[2]
            if name == "len" and not e[3]:
                return self.ex(e[1], lambda r: k("%s.length" % r))
            if name == "is_empty" and not e[3]:
                return self.ex(e[1], lambda r: k("%s.isEmpty" % r))
            if name == "into" and not e[3] and not self.mod.profile.get("into"):
                return self.ex(e[1], k)      # only for arguments typed `impl Into<String>` (see ModTr.ty)
            if name == "unwrap_or_default" and not e[3]:
                return self.ex(e[1], lambda r: k("(%s.getD default)" % r))
            if name == "is_uppercase" and not e[3]:
                return self.ex(e[1], lambda r: k("(isUpper %s)" % r))
            if name == "to_ascii_lowercase" and not e[3]:
                return self.ex(e[1], lambda r: k("(toLower %s)" % r))
            if name == "char_indices" and not e[3]:
                return self.ex(e[1], lambda r: k("(charIndices %s)" % r))
            turbo = ((e[4] if len(e) > 4 else None) or "").replace(" ", "")
            tm = self.mod.profile.get("turbofish_methods", {})
            if (name, turbo) in tm and not e[3]:
                return self.ex(e[1], lambda r: k("(%s %s)" % (tm[(name, turbo)], r)))
            if name == "unwrap" and not e[3] and self.mod.profile.get("turbofish_methods"):
                def ku(r):
                    v = hint or self.fresh()
                    return ["(unwrap %s).bind fun %s =>" % (r, v)] + k(v)
                return self.ex(e[1], ku)
            if name == "app_mut" and not e[3] and self.mod.profile.get("chain_methods"):
                return self.ex(e[1], k)      # `RefCell::borrow_mut` of the chain: the chain itself
            if name in self.mod.profile.get("chain_methods", {}):
                return self.ex(e[1], lambda r: self.args(e[3], lambda vs: k("(%s %s)" % (self.mod.profile["chain_methods"][name], " ".join([r] + vs)))))
            if name == "map_err" and len(e[3]) == 1:
                f = e[3][0]
                if self.depth:
                    raise Unsupported("closure inside a loop")
                if f[0] == "closure" and len(f[1]) == 1:
                    cpat = self.pat(f[1][0])
                    body = self.ex(f[2], lambda v: [".ok %s" % v])

                    def km_(r):
                        v = hint or self.fresh()
                        return ["(mapErrRes (fun %s =>" % cpat] + ind(body, 2) + ["  ) %s).bind fun %s =>" % (r, v)] + k(v)
                    return self.ex(e[1], km_)
                if f[0] == "path" and len(f[1]) == 1 and f[1][0] in self.mod.fns:
                    callee = f[1][0]
                    self.mod.calls.setdefault(self.name, set()).add(callee)

                    def km2(r):
                        v = hint or self.fresh()
                        return ["(mapErrRes (%s) %s).bind fun %s =>" % (self.mod.call_text(callee, self, []), r, v)] + k(v)
                    return self.ex(e[1], km2)
                raise Unsupported("map_err with %s" % json.dumps(f)[:60])
            if name == "into" and not e[3] and self.mod.profile.get("into"):
                return self.ex(e[1], lambda r: k("(%s %s)" % (self.mod.profile["into"], r)))
            if name == "to_string" and not e[3] and self.mod.profile.get("to_string"):
                return self.ex(e[1], lambda r: k("(%s %s)" % (self.mod.profile["to_string"], r)))
            if name == "to_string" and not e[3]:
                return self.ex(e[1], lambda r: k("(toStr %s)" % r))
            if name in ("to_owned", "clone") and not e[3]:
                return self.ex(e[1], k)
            if name == "first" and not e[3]:
                return self.ex(e[1], lambda r: k("(List.head? %s)" % r))
            if name == "for_each" and len(e[3]) == 1 and e[3][0][0] == "closure" and self.mod.profile.get("diags") \
                    and e[1][0] == "mcall" and e[1][2] == "zip" and len(e[1][3]) == 1:
                # `a.iter().zip(b.iter()).for_each(|(x, y)| { if c { emit_error!(..) } })`: one diagnostic per pair satisfying `c`, in order
                cl = e[3][0]
                body = cl[2][1] if cl[2][0] == "block" else None
                if not (body and len(body) == 1 and body[0][0] == "sexpr" and body[0][1][0] == "if" and body[0][1][3] is None
                        and len(body[0][1][2]) == 1 and body[0][1][2][0][0] == "sexpr" and body[0][1][2][0][1][0] == "emit_error"):
                    raise Unsupported("for_each with a body other than `if c { emit_error!(..) }`")
                cond, msg = body[0][1][1], body[0][1][2][0][1][1]
                cpat = self.pat(cl[1][0])
                return self.ex(e[1][1], lambda a_: self.ex(e[1][3][0], lambda b_: [
                    "let diags := diags ++ (List.filterMap (fun %s => if %s then some %s else none) (List.zip %s %s))" % (cpat, self.pure(cond), lean_str(msg), a_, b_)] + k("()")))
            if name == "skip" and len(e[3]) == 1:
                return self.ex(e[1], lambda r: self.ex(e[3][0], lambda n: k("(List.drop %s %s)" % (n, r))))
            if name == "collect" and not e[3] and ((e[4] if len(e) > 4 else None) or "").replace(" ", "") == "Vec<_>" and e[1][0] in ("path", "mcall") \
                    and not (e[1][0] == "mcall" and e[1][2] in ("map", "filter", "copied", "cloned")):
                return self.ex(e[1], k)      # an iterator over a list collected back into a Vec: the list
            if name in self.mod.profile.get("extern_unit_methods", []) and not e[3]:
                return k("()")
            if name == "last" and not e[3]:
                return self.ex(e[1], lambda r: k("(List.getLast? %s)" % r))
            if name == "unwrap" and not e[3] and self.mod.profile.get("diags"):
                def kuo(r):
                    v = hint or self.fresh()
                    return ["(unwrapOpt %s).bind fun %s =>" % (r, v)] + k(v)
                return self.ex(e[1], kuo)
            if name in ("as_ref", "copied", "cloned") and not e[3]:
                return self.ex(e[1], k)
            if name == "find" and len(e[3]) == 1 and e[3][0][0] == "closure" and len(e[3][0][1]) == 1 and e[1][0] == "mcall" and e[1][2] == "enumerate":
                cl = e[3][0]
                cp = cl[1][0]
                if not (cp[0] == "ptuple" and len(cp[1]) == 2 and cp[1][0][0] == "wild" and cp[1][1][0] == "pid"):
                    raise Unsupported("enumerate().find with a closure that looks at the index")
                return self.ex(e[1][1], lambda r: k("(enumFind (fun %s => %s) %s)" % (lid(cp[1][1][1]), self.pure(cl[2]), r)))
            if name == "find" and len(e[3]) == 1 and e[3][0][0] == "closure" and len(e[3][0][1]) == 1:
                cl = e[3][0]
                return self.ex(e[1], lambda r: k("(List.find? (fun %s => %s) %s)" % (self.pat(cl[1][0]), self.pure(cl[2]), r)))
            if name == "contains" and len(e[3]) == 1:
                return self.ex(e[1], lambda r: self.ex(e[3][0], lambda v: k("(List.contains %s %s)" % (r, v))))
            if name == "map" and len(e[3]) == 1 and e[3][0][0] == "closure" and len(e[3][0][1]) == 1 and self.mod.profile.get("mut_visitor_methods") is not None:
                cl = e[3][0]
                return self.ex(e[1], lambda r: k("(Option.map (fun %s => %s) %s)" % (self.pat(cl[1][0]), self.pure(cl[2]), r)))
            if name == "is_none" and not e[3]:
                return self.ex(e[1], lambda r: k("(%s).isNone" % r))
            if name == "is_some" and not e[3]:
                return self.ex(e[1], lambda r: k("(%s).isSome" % r))
            if name == "collect" and not e[3] and not ((e[4] if len(e) > 4 else None) or ""):
                src = e[1]
                while src[0] == "mcall" and src[2] in ("copied", "cloned") and not src[3]:
                    src = src[1]
                if src[0] == "mcall" and src[2] == "filter" and len(src[3]) == 1 and src[3][0][0] == "closure" and len(src[3][0][1]) == 1:
                    cl = src[3][0]
                    return self.ex(src[1], lambda xs: k("(List.filter (fun %s => %s) %s)" % (self.pat(cl[1][0]), self.pure(cl[2]), xs)))
                if src[0] == "mcall" and src[2] == "map" and len(src[3]) == 1 and src[3][0][0] == "closure" and len(src[3][0][1]) == 1:
                    cl = src[3][0]
                    if self.depth:
                        raise Unsupported("closure inside a loop")
                    cpat = self.pat(cl[1][0])
                    body = self.ex(cl[2], lambda v: [".ok %s" % v])

                    def kc(xs):
                        v = hint or self.fresh()
                        return ["(mapRes (fun %s =>" % cpat] + ind(body, 2) + ["  ) %s).bind fun %s =>" % (xs, v)] + k(v)
                    return self.ex(src[1], kc)
                raise Unsupported("collect over something else than iter.map(|x| ..) / iter.filter(|x| ..)")
            if name in ("into_iter", "iter") and not e[3]:
                return self.ex(e[1], k)      # a Vec / slice iterated in order: the list itself
            if name in ("any", "all") and len(e[3]) == 1 and e[3][0][0] == "closure" and len(e[3][0][1]) == 1:
                cl = e[3][0]
                cpat = self.pat(cl[1][0])
                body = self.pure(cl[2])
                return self.ex(e[1], lambda r: k("(List.%s %s (fun %s => %s))" % (name, r, cpat, body)))
            if name == "collect" and not e[3]:
                src = e[1]
                turbo = (e[4] if len(e) > 4 else None) or ""
                if "Result" not in turbo:
                    raise Unsupported("collect into %s" % (turbo or "an inferred type"))
                if not (src[0] == "mcall" and src[2] == "map" and len(src[3]) == 1 and src[3][0][0] == "closure" and len(src[3][0][1]) == 1):
                    raise Unsupported("collect over something else than iter.map(|x| ..)")
                cl = src[3][0]
                cpat = self.pat(cl[1][0])
                if self.depth:
                    raise Unsupported("closure inside a loop")
                body = self.ex(cl[2], lambda v: [".ok %s" % v])

                def kc(xs):
                    v = hint or self.fresh()
                    return ["(collectResult (fun %s =>" % cpat] + ind(body, 2) + ["  ) %s).bind fun %s =>" % (xs, v)] + k(v)
                return self.ex(src[1], kc)
            if name in self.mod.profile.get("extern_methods", {}):
                return self.ex(e[1], lambda r: self.args(e[3], lambda vs: k("(%s %s)" % (self.mod.profile["extern_methods"][name], " ".join([r] + vs)))))
            cands = [n for n in self.mod.fns if n.split(".")[-1] == name and "." in n]
            if len(cands) == 1:
                callee = cands[0]
                self.mod.calls.setdefault(self.name, set()).add(callee)

                def kr(r):
                    def kcall(vs):
                        v = hint or self.fresh()
                        return self.bind_call(self.mod.call_text(callee, self, [r] + vs), v, k)
                    return self.args(e[3], kcall)
                return self.ex(e[1], kr)
            raise Unsupported("method %s" % name)
        if t == "repeat":
            return self.ex(e[1], lambda v: self.ex(e[2], lambda n: k("(List.replicate %s %s)" % (n, v))))
        if t == "call":
            return self.call(e, k, hint)
        if t == "match":
            def km(s):
                return self.match_arms(s, e[2], lambda body: self.ex(body, k))
            return self.ex(e[1], km)
        if t == "block":
            return self.block(e[1], None, kval=k, kend=lambda: k("()"))
        if t == "if":
            if e[3] is None:
                raise Unsupported("if without else in value position")
            return self.cond(e[1], lambda: self.ex(["block", e[2]], k), lambda: self.ex(e[3], k))
        if t == "panic":
            return [".panic"]
        raise Unsupported("expression %s" % json.dumps(e)[:100])

    def match_arms(self, s, arms, karm):
        """arms of a `match`; an arm under `#[cfg(feature = "f")]` is `if feat "f" then <arm> else <wildcard arm>`; the wildcard arm
        itself is emitted only when the explicit arms do not cover every variant of a foreign enum (Lean rejects a redundant one)"""
        out = ["match %s with" % s]
        arms = [list(a_) + [[]] * (4 - len(a_)) for a_ in arms]
        feats = [[f for f in (cfg_feature(x) for x in a_[3]) if f is not None] for a_ in arms]
        wild = [i for i, a_ in enumerate(arms) if a_[0][0] == "wild"]
        any_cfg = any(feats)
        if any_cfg and not self.mod.profile.get("leading_args"):
            raise Unsupported("conditionally compiled match arm")
        if any_cfg and (len(wild) != 1 or wild[0] != len(arms) - 1 or feats[wild[0]]):
            raise Unsupported("conditionally compiled arms without one unconditional wildcard arm at the end")
        covered, enum = set(), None
        for a_ in arms:
            if a_[0][0] in ("pts", "pstruct", "ppath") and len(a_[0][1]) >= 2:
                enum = a_[0][1][-2]
                covered.add(a_[0][1][-1])
        ext = self.mod.profile.get("extern_enum_fields", {}).get(enum)
        if any(a_[1] is not None for a_ in arms):
            if any_cfg:
                raise Unsupported("match guards together with conditionally compiled arms")
            if not (wild and wild[-1] == len(arms) - 1 and arms[-1][1] is None):
                raise Unsupported("match guards without a final unguarded wildcard arm")
            # arm i with guard g: `| pat_i => if g then body_i else <arms i+1 .. matched against s again>`; the final wildcard is left
            # out where the arms before it cover the foreign enum (Lean rejects a redundant alternative)
            def arms_from(start):
                if start == len(arms) - 1:
                    return karm(arms[-1][2])
                cov = {a_[0][1][-1] for a_ in arms[start:-1] if a_[0][0] in ("pts", "pstruct", "ppath")}
                lines = ["match %s with" % s]
                shapes = set()
                for i in range(start, len(arms) - 1):
                    pat, guard, body, _attrs = arms[i]
                    shape = re.sub(r"\b[a-z_][A-Za-z0-9_]*\b", "_", self.pat(pat))
                    if shape in shapes:
                        continue        # an earlier arm of the same shape falls through to this one by itself (see the `else` below)
                    shapes.add(shape)
                    lines.append("| %s =>" % self.pat(pat))
                    if guard is None:
                        lines += ind(karm(body))
                    else:
                        lines += ind(["if %s then" % self.pure(guard)] + ind(karm(body)) + ["else"] + ind(arms_from(i + 1)))
                if not (ext is not None and cov >= set(ext)):
                    lines += ["| _ =>"] + ind(karm(arms[-1][2]))
                return lines
            return arms_from(0)
        for i, (pat, guard, body, _attrs) in enumerate(arms):
            if guard is not None:
                raise Unsupported("match guard")
            if i in wild and ext is not None and covered >= set(ext) and i == len(arms) - 1:
                continue
            out.append("| %s =>" % self.pat(pat))
            if feats[i]:
                cond = " && ".join("feat %s" % lean_str(f) for f in feats[i])
                out += ind(["if %s then" % cond] + ind(karm(body)) + ["else"] + ind(karm(arms[wild[0]][2])))
            else:
                out += ind(karm(body))
        return out

    def bind_call(self, text, v, k):
        """bind the result of a translated function; in a profile that returns diagnostics the callee's are appended to ours"""
        if self.mod.profile.get("diags"):
            return ["(%s).bind fun (%s, d_) =>" % (text, v), "let diags := diags ++ d_"] + k(v)
        return ["(%s).bind fun %s =>" % (text, v)] + k(v)

    def pure_block(self, stmts):
        """a block of `let`s, calls of a `&mut self` method of a foreign visitor on a local, and a final expression, as one term"""
        parts = []
        for i, st in enumerate(stmts):
            last = i == len(stmts) - 1
            if st[0] == "slet" and st[1][0] == "pid" and st[2] is not None:
                parts.append("let %s := %s;" % (lid(st[1][1]), self.pure(st[2])))
            elif st[0] == "sexpr" and st[2] and st[1][0] == "mcall" and st[1][1][0] == "path" and len(st[1][1][1]) == 1 \
                    and st[1][2] in self.mod.profile.get("mut_visitor_methods", {}):
                x = lid(st[1][1][1][0])
                parts.append("let %s := (%s %s);" % (x, " ".join([self.mod.profile["mut_visitor_methods"][st[1][2]], x]), " ".join(self.pure(a_) for a_ in st[1][3])))
            elif st[0] == "sexpr" and last and not st[2]:
                parts.append(self.pure(st[1]))
            else:
                raise Unsupported("statement in a closure body: %s" % json.dumps(st)[:80])
        return "(%s)" % " ".join(parts)

    def pure(self, e):
        """lean term of an expression that has no effects (no indexing, no calls of translated functions)"""
        if e[0] == "block":
            return self.pure_block(e[1])
        out = []
        lines = self.ex(e, lambda v: (out.append(v), ["@"])[1])
        if lines != ["@"] or len(out) != 1:
            raise Unsupported("operand of a short-circuit operator with effects: %s" % json.dumps(e)[:80])
        return out[0]

    def args(self, es, k):
        vals = []

        def go(i):
            if i == len(es):
                return k(vals)
            return self.ex(es[i], lambda v: (vals.append(v), go(i + 1))[1])
        return go(0)

    def call(self, e, k, hint=None):
        f, argl = e[1], e[2]
        if f[0] != "path":
            raise Unsupported("call of a non-path")
        p = f[1]
        if p == ["String", "new"] and not argl:
            return k("[]")
        if p == ["Some"] and len(argl) == 1:
            return self.ex(argl[0], lambda v: k("(some %s)" % v))
        if p == ["Ok"] and len(argl) == 1:
            return self.ex(argl[0], lambda v: k("(Except.ok %s)" % v))
        if p == ["Err"] and len(argl) == 1:
            return self.ex(argl[0], lambda v: k("(Except.error %s)" % v))
        if "::".join(p) in self.mod.profile.get("extern_call_drops_self", []) and argl and argl[0] == ["path", ["self"]]:
            argl = argl[1:]
        if "::".join(p) in self.mod.profile.get("extern_calls_res", []):
            # a foreign function declared with a `Res` result (it runs translated code, or may panic)
            def kx(vs):
                v = hint or self.fresh()
                return ["(%s).bind fun %s =>" % (" ".join([self.mod.profile["extern_calls"]["::".join(p)]] + vs), v)] + k(v)
            return self.args(argl, kx)
        if "::".join(p) in self.mod.profile.get("extern_calls", {}):
            return self.args(argl, lambda vs: k("(%s)" % " ".join([self.mod.profile["extern_calls"]["::".join(p)]] + vs) if vs else self.mod.profile["extern_calls"]["::".join(p)]))
        if p == ["konst", "cmp_str"]:
            self.mod.uses_cmp.add(self.name)
            return self.args(argl, lambda vs: k("(cmp_str %s %s)" % tuple(vs)))
        if p == ["konst", "eq_str"]:
            return self.args(argl, lambda vs: k("(%s == %s)" % tuple(vs)))
        if len(p) > 2 and p[-2] in self.mod.enums and p[0] in ("std", "cosmwasm_std", "syn"):
            p = p[-2:]
        if len(p) == 2 and p[0] in self.mod.enums:
            return self.args(argl, lambda vs: k("(%s.%s %s)" % (p[0], p[1], " ".join(vs))))
        if len(p) == 2 and p[0] in self.mod.structs:
            callee = "%s.%s" % (p[0], p[1])
            if callee in self.mod.overloaded:
                callee = "%s_%d" % (callee, len(argl))
            if callee in self.mod.fns:
                self.mod.calls.setdefault(self.name, set()).add(callee)

                def kc2(vs):
                    v = hint or self.fresh()
                    return self.bind_call(self.mod.call_text(callee, self, vs), v, k)
                return self.args(argl, kc2)
        if len(p) == 1 and p[0] in self.mod.fns:
            callee = p[0]
            self.mod.calls.setdefault(self.name, set()).add(callee)

            def kc(vs):
                v = hint or self.fresh()
                return self.bind_call(self.mod.call_text(callee, self, vs), v, k)
            return self.args(argl, kc)
        raise Unsupported("call of %s" % "::".join(p))

    def cond(self, cnd, kthen, kelse):
        """if / if let"""
        if cnd[0] == "let":
            pat, scrut = cnd[1], cnd[2]

            def km(s):
                p = self.pat(pat)
                return ["match %s with" % s, "| %s =>" % p] + ind(kthen()) + ["| _ =>"] + ind(kelse())
            return self.ex(scrut, km)
        return self.ex(cnd, lambda v: ["if %s then" % v] + ind(kthen()) + ["else"] + ind(kelse()))

    # ------------------------------------------------------------------ statements (CPS)
    def block(self, stmts, ctx, kval, kend):
        """ctx: None at function level, or a dict describing the innermost loop.
        kval(v): continuation for the value of a trailing expression (None = statement block).
        kend(): continuation when the block falls through."""
        def go(i):
            self.depth = 0 if ctx is None else 1
            if i == len(stmts):
                return kend()
            st = stmts[i]
            last = i == len(stmts) - 1
            rest = lambda: go(i + 1)
            if st[0] == "slet":
                pat, init = st[1], st[2]
                if pat[0] == "ptuple" and init is not None and all(x[0] in ("pid", "wild") for x in pat[1]):
                    ptxt = "(%s)" % ", ".join(lid(x[1]) if x[0] == "pid" else "_" for x in pat[1])
                    return self.ex(init, lambda v: ["let %s := %s" % (ptxt, v)] + rest())
                if pat[0] != "pid" or init is None:
                    raise Unsupported("let pattern %s" % pat)
                x = lid(pat[1])
                self.declare_local(x, init, ctx)
                pure = []

                def kl(v):
                    if v == x:
                        return rest()
                    return ["let %s := %s" % (x, v)] + rest()
                return self.ex(init, kl, hint=x)
            if st[0] == "sletelse":
                pat, init, els = st[1], st[2], st[3]
                # `let PAT = init else { diverge };`
                return self.ex(init, lambda v: ["match %s with" % v, "| %s =>" % self.pat(pat)] + ind(rest()) + ["| _ =>"] + ind(self.stmt_block(els, ctx, lambda: [".panic"])))
            if st[0] == "sexpr":
                e, semi = st[1], st[2]
                if last and not semi and kval is not None and e[0] not in ("while", "for_range", "for", "return", "continue", "panic"):
                    return self.ex(e, kval)
                return self.stmt(e, ctx, rest)
            raise Unsupported("statement %s" % json.dumps(st)[:80])
        return go(0)

    def declare_local(self, x, init, ctx):
        try:
            t = self.infer(init)
        except Unsupported:
            t = "?"          # only loops need the types of the variables they carry
        if ctx is None:
            self.declare(x, t)
        else:
            self.types[x] = t
            ctx["locals"].add(x)

    def stmt(self, e, ctx, rest):
        t = e[0]
        if t == "assign":
            lhs, rhs = e[1], e[2]
            if lhs[0] == "path" and len(lhs[1]) == 1:
                x = lhs[1][0]
                return self.ex(rhs, lambda v: ["let %s := %s" % (x, v)] + rest())
            if lhs[0] == "field" and lhs[1][0] == "path" and len(lhs[1][1]) == 1:
                x = lhs[1][1][0]
                return self.ex(rhs, lambda v: ["let %s := { %s with %s := %s }" % (x, x, lhs[2], v)] + rest())
            if lhs[0] == "index" and lhs[1][0] == "path" and len(lhs[1][1]) == 1:
                arr = lhs[1][1][0]
                return self.ex(rhs, lambda v: self.ex(lhs[2], lambda i: ["(setIdx %s %s %s).bind fun %s =>" % (arr, i, v, arr)] + rest()))
            raise Unsupported("assignment target %s" % json.dumps(lhs)[:60])
        if t == "bin" and e[1] in ("+=", "-="):
            lhs = e[2]
            if lhs[0] == "path" and len(lhs[1]) == 1:
                x = lhs[1][0]
                return self.ex(e[3], lambda v: ["let %s := %s %s %s" % (x, x, e[1][0], v)] + rest())
            raise Unsupported("compound assignment target")
        if t == "if":
            kelse = (lambda: self.stmt_block(e[3], ctx, rest)) if e[3] is not None else rest
            return self.cond(e[1], lambda: self.block(e[2], ctx, None, rest), kelse)
        if t == "match":
            def km(s):
                return self.match_arms(s, e[2], lambda body: self.stmt_block(body, ctx, rest))
            return self.ex(e[1], km)
        if t == "block":
            return self.block(e[1], ctx, None, rest)
        if t == "unit":
            return rest()
        if t == "return":
            if e[1] is None and self.mut_self:
                return self.ret_lines("self", ctx)
            val = e[1] if e[1] is not None else ["unit"]
            return self.ex(val, lambda v: self.ret_lines(v, ctx))
        if t == "continue":
            if ctx is None:
                raise Unsupported("continue outside a loop")
            return ctx["continue"]()
        if t == "panic":
            return [".panic"]
        if t == "assert":
            return self.ex(e[1], lambda v: ["if %s then" % v] + ind(rest()) + ["else", "  .panic"])
        if t == "emit_error":
            if not self.mod.profile.get("diags"):
                raise Unsupported("emit_error! outside a profile that returns diagnostics")
            return ["let diags := diags ++ [%s]" % lean_str(e[1])] + rest()
        if t == "call":
            return self.ex(e, lambda v: rest(), hint="_")
        if t == "mcall" and e[2] == "push" and len(e[3]) == 1 and e[1][0] == "field" and e[1][1] == ["path", ["self"]]:
            fld = e[1][2]
            return self.ex(e[3][0], lambda v: ["let self := { self with %s := self.%s ++ [%s] }" % (fld, fld, v)] + rest())
        if t == "for" and self.mod.profile.get("skip_visit_recursion") and len(e[3]) == 1 and e[3][0][0] == "sexpr" and e[3][0][1][0] == "mcall" \
                and e[3][0][1][1] == ["path", ["self"]] and e[3][0][1][2].startswith("visit_"):
            return rest()       # syn's default recursion: the walker's business (see the profile)
        if t == "mcall" and e[2] == "push" and len(e[3]) == 1 and e[1][0] == "path" and len(e[1][1]) == 1:
            x = e[1][1][0]
            return self.ex(e[3][0], lambda v: ["let %s := %s ++ [%s]" % (x, x, v)] + rest())
        if t in ("while", "for_range", "for"):
            return self.loop(e, ctx, rest)
        if t == "mcall":
            return self.ex(e, lambda v: rest(), hint="_")
        raise Unsupported("statement expression %s" % json.dumps(e)[:100])

    def stmt_block(self, e, ctx, rest):
        if e[0] == "block":
            return self.block(e[1], ctx, None, rest)
        return self.stmt(e, ctx, rest)

    def ret_lines(self, v, ctx):
        if self.mod.profile.get("diags"):
            if ctx is not None:
                raise Unsupported("return inside a loop of a function that returns diagnostics")
            return [".ok (%s, diags)" % v]
        return [".ok (.ret %s)" % v] if ctx is not None else [".ok %s" % v]

    # ------------------------------------------------------------------ loops
    def assigned(self, stmts, acc, local):
        """variables assigned in a statement list (excluding those let-bound inside it)"""
        def ex_(e):
            if not isinstance(e, list) or not e:
                return
            t = e[0]
            if t == "assign":
                tgt = e[1]
                if tgt[0] == "path" and len(tgt[1]) == 1:
                    acc.append(tgt[1][0])
                elif tgt[0] == "index" and tgt[1][0] == "path":
                    acc.append(tgt[1][1][0])
                ex_(e[2])
                return
            if t == "bin" and e[1] in ("+=", "-="):
                if e[2][0] == "path":
                    acc.append(e[2][1][0])
                return
            if t == "mcall" and e[2] == "push" and e[1][0] == "path" and len(e[1][1]) == 1:
                acc.append(e[1][1][0])
            if t == "slet":
                if e[1][0] == "pid":
                    local.add(e[1][1])
                ex_(e[2])
                return
            for x in e[1:]:
                if isinstance(x, list):
                    if x and isinstance(x[0], str):
                        ex_(x)
                    else:
                        for y in x:
                            if isinstance(y, list):
                                if y and isinstance(y[0], str):
                                    ex_(y)
                                else:
                                    for z in y:
                                        if isinstance(z, list):
                                            ex_(z)
        for s_ in stmts:
            ex_(s_)

    def mentioned(self, node, acc):
        if isinstance(node, list):
            if len(node) == 2 and node[0] == "path" and isinstance(node[1], list) and len(node[1]) == 1:
                acc.add(node[1][0])
            for x in node:
                self.mentioned(x, acc)

    def loop(self, e, ctx, rest):
        if ctx is not None:
            raise Unsupported("nested loops")
        return self.loop_(e, ctx, rest)

    def loop_(self, e, ctx, rest):
        is_for = e[0] == "for_range"
        is_each = e[0] == "for"
        body = e[4] if is_for else (e[3] if is_each else e[2])
        j = self.nloops
        self.nloops += 1
        lname = "%s.loop%d" % (self.name, j)
        acc, local = [], set()
        self.assigned(body, acc, local)
        carried = [v for v in self.order if v in acc and v not in local]
        for v in acc:
            if v not in local and v not in self.types:
                raise Unsupported("assignment to unknown variable %s" % v)
        ment = set()
        self.mentioned(body, ment)
        if not is_for and not is_each:
            self.mentioned(e[1], ment)
        bound = set()
        if is_each:
            self.pat_vars(e[1], bound)
        # does the body call something that needs fuel?
        needs_fuel0 = self.mod.body_needs_fuel(body)
        fixed = [v for v in self.order if v not in carried and v not in bound and (v in ment or v in self.generics)]
        if is_for and e[1] in fixed:
            fixed.remove(e[1])
        if any(self.types[v] == "?" for v in carried + fixed):
            raise Unsupported("loop over a variable whose type is not inferred")
        sigma = "Unit" if not carried else " × ".join(self.paren_ty(self.types[v]) for v in carried)
        done_pat = "()" if not carried else (carried[0] if len(carried) == 1 else "(" + ", ".join(carried) + ")")
        lctx = {"locals": set(), "name": lname}
        fixed_txt = " ".join(fixed)
        pre = ("fuel0 " if needs_fuel0 else "")
        self_call = lname + " " + pre + fixed_txt
        if is_each:
            # `for pat in iter { body }`: structural recursion over the list the iterator stands for
            elem_ty, pat_txt = self.each_elem(e[1], e[2])
            lctx["continue"] = lambda: ["%s rest%s" % (self_call, "".join(" " + v for v in carried))]
            body_lines = self.block(body, lctx, None, lctx["continue"])
            head = ["| []%s => .ok (.done %s)" % ("".join(", " + v for v in carried), done_pat),
                    "| %s :: rest%s =>" % (pat_txt, "".join(", " + v for v in carried))]
            counters = "List %s → " % self.paren_ty(elem_ty)
        elif is_for:
            iv = e[1]
            self.types[iv] = "Nat"
            lctx["continue"] = lambda: ["%s k (%s+1)%s" % (self_call, iv, "".join(" " + v for v in carried))]
            body_lines = self.block(body, lctx, None, lctx["continue"])
            head = ["| 0, _%s => .ok (.done %s)" % ("".join(", " + v for v in carried), done_pat),
                    "| k+1, %s%s =>" % (iv, "".join(", " + v for v in carried))]
            counters = "Nat → Nat → "
        else:
            lctx["continue"] = lambda: ["%s fuel%s" % (self_call, "".join(" " + v for v in carried))]
            inner = self.ex(e[1], lambda cv: ["if %s then" % cv] + ind(self.block(body, lctx, None, lctx["continue"])) +
                            ["else .ok (.done %s)" % done_pat])
            body_lines = inner
            head = ["| 0%s => .oof" % "".join(", _" for _ in carried),
                    "| fuel+1%s =>" % "".join(", " + v for v in carried)]
            counters = "Nat → "
            self.mod.has_while.add(self.name)
        binders = ("(fuel0 : Nat) " if needs_fuel0 else "") + " ".join("(%s : %s)" % (v, self.types[v]) for v in fixed)
        sig = "def %s %s :" % (lname, binders)
        ty = "    %s%sRes (LoopOut %s %s)" % (counters, "".join(self.paren_ty(self.types[v]) + " → " for v in carried),
                                              self.paren_ty(sigma), self.paren_ty(self.ret))
        self.loops.append({"name": lname, "lines": [sig, ty] + ind([head[0], head[1]]) + ind(body_lines, 2)})
        self.mod.loop_owner[lname] = self.name
        # the call site
        if is_each:
            return self.ex(e[2], lambda it: self.after_loop("%s %s%s %s%s" % ("@CMP@" + lname, pre, fixed_txt, it, "".join(" " + v for v in carried)), done_pat, rest))
        if is_for:
            def site(lo):
                def site2(hi):
                    call = "%s %s%s (%s - %s) %s%s" % ("@CMP@" + lname, pre, fixed_txt, hi, lo, lo, "".join(" " + v for v in carried))
                    return self.after_loop(call, done_pat, rest)
                return self.ex(e[3], site2)
            return self.ex(e[2], site)
        call = "%s %s%s fuel0%s" % ("@CMP@" + lname, pre, fixed_txt, "".join(" " + v for v in carried))
        return self.after_loop(call, done_pat, rest)

    def pat_vars(self, p, acc):
        if p[0] == "pid":
            acc.add(p[1])
        elif p[0] in ("ptuple", "por"):
            for x in p[1]:
                self.pat_vars(x, acc)
        elif p[0] == "pts":
            for x in p[2]:
                self.pat_vars(x, acc)

    def each_elem(self, pat, it):
        """element type and lean pattern of `for pat in it`"""
        if it[0] == "mcall" and it[2] == "char_indices" and pat[0] == "ptuple" and len(pat[1]) == 2 and all(x[0] in ("pid", "wild") for x in pat[1]):
            names = [x[1] if x[0] == "pid" else "_" for x in pat[1]]
            for n, t in zip(names, ("Nat", "Ch")):
                if n != "_":
                    self.types[n] = t
            return "Nat × Ch", "(%s, %s)" % tuple(names)
        raise Unsupported("for loop over %s" % json.dumps(it)[:80])

    def after_loop(self, call, done_pat, rest):
        return ["(%s).bind fun out =>" % call, "match out with", "| .ret r => .ok r", "| .done %s =>" % done_pat] + ind(rest())

    # ------------------------------------------------------------------ whole function
    def translate(self):
        body = self.fn["body"]
        if self.mod.profile.get("diags") and self.mut_self:
            lines = ["let diags : List String := []"] + self.block(body, None, kval=None, kend=lambda: [".ok (self, diags)"])
        elif self.mod.profile.get("diags"):
            lines = ["let diags : List String := []"] + self.block(body, None, kval=lambda v: [".ok (%s, diags)" % v], kend=lambda: [".ok ((), diags)"])
        elif self.mut_self:
            lines = self.block(body, None, kval=None, kend=lambda: [".ok self"])
        else:
            lines = self.block(body, None, kval=lambda v: [".ok %s" % v], kend=lambda: [".ok ()"])
        return self.param_lets + lines


class ModTr:
    def __init__(self, ast, profile=None):
        self.profile = profile or PROFILES["utils"]
        tonly = self.profile.get("trait_only", [])
        counts = {}
        for m in ast.get("methods", []):
            counts[m["owner"] + "." + m["name"]] = counts.get(m["owner"] + "." + m["name"], 0) + 1
        for m in ast.get("methods", []):
            # a name defined in several impl blocks of one type (different type-state parameters) is told apart by its arity
            if counts[m["owner"] + "." + m["name"]] > 1:
                m["name"] = "%s_%d" % (m["name"], len(m["params"]))
        self.overloaded = {k for k, v in counts.items() if v > 1}
        self.raw_ast = ast
        if self.profile.get("only") is not None and (self.profile["only"] or tonly):
            only = self.profile["only"]
            ast = dict(ast, fns=[f for f in ast["fns"] if f["name"] in only],
                       enums=[e for e in ast["enums"] if e["name"] in self.profile.get("only_enums", [])],
                       structs=[s_ for s_ in ast.get("structs", []) if s_["name"] in self.profile.get("only_structs", [])],
                       methods=[m for m in ast.get("methods", []) if m["owner"] + "." + m["name"] in only])
            missing = [n for n in only if n not in [f["name"] for f in ast["fns"]] + [m["owner"] + "." + m["name"] for m in ast["methods"]]]
            have = [m["owner"] + "." + m["name"] for m in ast.get("trait_methods", [])]
            missing += [n for n in tonly if have.count(n) != 1]
        else:
            missing = []
        self.missing = missing
        skip = self.profile.get("skip_field_types", [])
        self.structs = {}
        self.skipped_fields = {}
        for st in ast.get("structs", []):
            keep = [f for f in st["fields"] if not (f[1][0] in ("tapp", "tpath") and f[1][1][-1] in skip)]
            self.skipped_fields[st["name"]] = {f[0] for f in st["fields"]} - {f[0] for f in keep}
            self.structs[st["name"]] = dict(st, fields=keep)
        self.enums = {}
        for en in ast["enums"]:
            self.enums[en["name"]] = {}
        self.fns = {f["name"]: f for f in ast["fns"]}
        self.method_notes = {}
        for m in ast.get("methods", []):
            if m["owner"] not in self.structs and m["owner"] not in self.enums:
                continue
            if m["generics"]:
                self.fns[m["owner"] + "." + m["name"]] = {"name": m["owner"] + "." + m["name"], "untranslatable": "generic method"}
                continue
            params = []
            for pat, ty in m["params"]:
                if pat[0] == "self":
                    params.append([["pid", "self"], ["tpath", [m["owner"]]]])
                else:
                    params.append([pat, ty])
            ret = ["tpath", [m["owner"]]] if m["ret"] == ["tpath", ["Self"]] else m["ret"]
            params = [[pp, (["tpath", [m["owner"]]] if tt in (["tpath", ["Self"]], ["ref", ["tpath", ["Self"]]]) else tt)] for pp, tt in params]
            name = m["owner"] + "." + m["name"]
            if m["owner"] in self.structs and m["name"] in [f[0] for f in self.structs[m["owner"]]["fields"]]:
                name += "_m"        # a getter named like the field it reads (Lean keeps `S.f` for the projection)
            mut_self = any(pp[0] == "self" and len(pp) > 2 and pp[1] and pp[2] for pp, tt in m["params"])
            self.fns[name] = {"name": name, "generics": [], "params": params, "ret": ret, "body": m["body"], "owner": m["owner"], "mut_self": mut_self}
            if m["attrs"]:
                self.method_notes[name] = m["attrs"]
        for tm in ast.get("trait_methods", []):
            name = tm["owner"] + "." + tm["name"]
            if name not in tonly or name in missing:
                continue
            params = [[["pid", "self"], tm["self_ty"]] if pp[0] == "self" else [pp, tt] for pp, tt in tm["params"]]
            mut_self = any(pp[0] == "self" and pp[1] and pp[2] for pp, tt in tm["params"])
            tret = ["tpath", [tm["owner"]]] if tm["ret"] == ["tpath", ["Self"]] and tm["owner"] in self.structs else tm["ret"]
            self.fns[name] = {"name": name, "generics": tm["generics"], "params": params, "ret": tret, "body": tm["body"], "owner": tm["owner"], "mut_self": mut_self}
            notes = [x for x in tm["attrs"] if x]
            if notes:
                self.method_notes[name] = notes
        for en in ast["enums"]:
            self.enums[en["name"]] = {v[0]: [self.ty(t) for t in v[1]] for v in en["variants"]}
        self.enum_order = [en["name"] for en in ast["enums"]]
        self.extern_enum_names = set(self.profile.get("extern_enum_fields", {}))
        for en, vs in self.profile.get("extern_enum_fields", {}).items():
            self.enums[en] = dict(vs)
        self.uses_cmp = set()
        self.has_while = set()
        self.calls = {}
        self.loop_owner = {}
        self.problems = ["function not found: " + n for n in missing]

    def struct_ty(self, name):
        return " ".join([name] + self.profile.get("tparams", []))

    def ty(self, t):
        k = t[0]
        if k == "ref":
            return self.ty(t[1])
        if k in ("array", "slice"):
            return "List %s" % FnTr.paren_ty(self.ty(t[1]))
        if k == "tunit":
            return "Unit"
        if k == "timpl":
            if t[1] == "Into<String>":
                return "String"      # `.into()` on such an argument is modelled as the identity
            raise Unsupported("impl-trait type %s" % t[1])
        if k == "ttuple":
            return " × ".join(FnTr.paren_ty(self.ty(x)) for x in t[1])
        if k == "tapp" and not t[2]:
            return self.ty(["tpath", t[1]])
        if k == "tapp":
            name = t[1][-1]
            if name == "Option" and len(t[2]) == 1:
                return "Option %s" % FnTr.paren_ty(self.ty(t[2][0]))
            if name == "Vec" and len(t[2]) == 1:
                return "List %s" % FnTr.paren_ty(self.ty(t[2][0]))
            if name in self.profile.get("opaque_generic", []):
                return name
            if name in getattr(self, "structs", {}):
                return self.struct_ty(name)
            if name == "Result" and len(t[2]) == 2:
                return "Except %s %s" % (FnTr.paren_ty(self.ty(t[2][1])), FnTr.paren_ty(self.ty(t[2][0])))
            if name in self.profile.get("extern_generic", {}) and (len(t[2]) == 1 or name == "Punctuated"):
                return "%s %s" % (self.profile["extern_generic"][name], FnTr.paren_ty(self.ty(t[2][0])))
            raise Unsupported("type constructor %s" % name)
        if k == "tpath":
            p = t[1]
            if "::".join(p) in self.profile.get("extern_paths", {}):
                return self.profile["extern_paths"]["::".join(p)]
            if p == ["usize"]:
                return "Nat"
            if p == ["bool"]:
                return "Bool"
            if p == ["str"] or p == ["String"] or p == ["std", "string", "String"]:
                return self.profile["str"]
            if p == ["char"]:
                return "Ch"
            if p == ["u64"] or p == ["u32"] or p == ["u128"]:
                return "Nat"
            if len(p) == 1 and p[0] in self.profile.get("tparams", []) + self.profile.get("type_vars", []):
                return p[0]
            if p[-1] in self.profile.get("extern_types", {}) and (len(p) == 1 or p[0] in ("cosmwasm_std", "std", "cw_multi_test")):
                return self.profile["extern_types"][p[-1]]
            if len(p) == 1 and p[0] in getattr(self, "structs", {}):
                return self.struct_ty(p[0])
            if len(p) == 1 and p[0] in self.enums:
                return p[0]
        raise Unsupported("type %s" % json.dumps(t)[:80])

    # which functions contain a while loop, transitively (pre-pass over the raw syntax)
    def fuel_fns(self):
        direct = set()
        calls = {}

        def walk(n, f):
            if isinstance(n, list):
                if n and n[0] == "while":
                    direct.add(f)
                if len(n) == 3 and n[0] == "call" and n[1][0] == "path" and len(n[1][1]) == 1 and n[1][1][0] in self.fns:
                    calls.setdefault(f, set()).add(n[1][1][0])
                if len(n) == 3 and n[0] == "call" and n[1][0] == "path" and len(n[1][1]) == 2:
                    for cand in ("%s.%s" % tuple(n[1][1]), "%s.%s_%d" % (n[1][1][0], n[1][1][1], len(n[2]))):
                        if cand in self.fns and cand != f:
                            calls.setdefault(f, set()).add(cand)
                if len(n) >= 4 and n[0] == "mcall" and n[2] == "map_err" and len(n[3]) == 1 and n[3][0][0] == "path" and len(n[3][0][1]) == 1 and n[3][0][1][0] in self.fns:
                    calls.setdefault(f, set()).add(n[3][0][1][0])
                if len(n) >= 4 and n[0] == "mcall" and isinstance(n[2], str):
                    cands = [m for m in self.fns if "." in m and m.split(".")[-1] == n[2]]
                    if len(cands) == 1 and cands[0] != f:
                        calls.setdefault(f, set()).add(cands[0])
                for x in n:
                    walk(x, f)
        for name, f in self.fns.items():
            walk(f.get("body", []), name)
        self.raw_calls = calls
        out = set(direct)
        changed = True
        while changed:
            changed = False
            for f, cs in calls.items():
                if f not in out and cs & out:
                    out.add(f)
                    changed = True
        return out

    def cmp_fns(self):
        direct = set()

        def walk(n, f):
            if isinstance(n, list):
                if n == ["path", ["konst", "cmp_str"]]:
                    direct.add(f)
                for x in n:
                    walk(x, f)
        for name, f in self.fns.items():
            walk(f.get("body", []), name)
        out = set(direct)
        changed = True
        while changed:
            changed = False
            for f, cs in self.raw_calls.items():
                if f not in out and cs & out:
                    out.add(f)
                    changed = True
        return out

    def body_needs_fuel(self, body):
        found = []

        def walk(n):
            if isinstance(n, list):
                if len(n) == 3 and n[0] == "call" and n[1][0] == "path" and len(n[1][1]) == 1 and n[1][1][0] in self.fuel:
                    found.append(1)
                for x in n:
                    walk(x)
        walk(body)
        return bool(found)

    def call_text(self, callee, caller, vals):
        f = self.fns[callee]
        # a method of a type that is a type variable here (`MsgVariant.as_data_field`): the full name, the variable shadows the prefix
        head = (self.profile["ns"] + "." + callee) if callee.split(".")[0] in self.profile.get("type_vars", []) and "." in callee else callee
        parts = [head] + ([self.profile["leading_args"]] if self.profile.get("leading_args") else [])
        if callee in self.cmp:
            parts.append("cmp_str")
        if callee in self.fuel:
            parts.append("fuel0")
        for g in f["generics"]:
            if g[0] == "unsupported" and g[1].split(":")[0].strip() in self.profile.get("type_vars", []):
                continue
            if g[1] not in caller.types:
                raise Unsupported("const generic %s of %s not in scope in %s" % (g[1], callee, caller.name))
            parts.append(g[1])
        return " ".join(parts + vals)

    def generate(self):
        self.fuel = self.fuel_fns()
        self.cmp = self.cmp_fns()
        # definition order: callees first
        order, seen = [], set()

        def visit(f):
            if f in seen:
                return
            seen.add(f)
            for g in sorted(self.raw_calls.get(f, ())):
                visit(g)
            order.append(f)
        for f in self.fns:
            visit(f)
        pr = self.profile
        out = ["import %s" % i for i in pr["imports"]] + [
               "/-! REGENERATED on every run by vlib/rs2lean.py from %s — do not edit. -/" % "/".join(pr["src"]),
               "set_option linter.unusedVariables false",
               "namespace %s" % pr["ns"], pr["opens"], ""]
        for en in self.enum_order:
            out.append("inductive %s where" % en)
            for v, fields in self.enums[en].items():
                out.append("  | %s%s" % (v, "".join(" (a%d : %s)" % (i, t) for i, t in enumerate(fields))))
            out += ["deriving DecidableEq, Repr", ""]
        for name, st in self.structs.items():
            try:
                tp = "".join(" (%s : Type)" % x for x in pr.get("tparams", []))
                lines = ["structure %s%s where" % (name, tp)] + ["  %s : %s" % (f[0], self.ty(f[1])) for f in st["fields"]] + [""]
                out += lines
            except Unsupported as e:
                self.problems.append("struct %s: unsupported: %s" % (name, e))
        for sname in pr.get("shape_of", []):
            st = next((s_ for s_ in self.raw_ast.get("structs", []) if s_["name"] == sname), None)
            if st is None:
                self.problems.append("struct %s not found" % sname)
                continue
            derives = []
            other = []
            for a_ in st.get("attrs", []):
                a2 = a_.replace(" ", "")
                if a2.startswith("derive(") and a2.endswith(")"):
                    derives += [x for x in a2[7:-1].split(",") if x]
                else:
                    other.append(a2)
            lit = lambda s_: "bytes! %s" % lean_str(s_)
            out += ["/-- the derive list, the other attributes and the (field, attributes) pairs of `struct %s` as written in the source -/" % sname,
                    "def %s.derives : List (List Nat) := [%s]" % (sname, ", ".join(lit(x) for x in derives)),
                    "def %s.structAttrs : List (List Nat) := [%s]" % (sname, ", ".join(lit(x) for x in other)),
                    "def %s.fieldAttrs : List (List Nat × List (List Nat)) := [%s]" % (
                        sname, ", ".join("(%s, [%s])" % (lit(f[0]), ", ".join(lit(x.replace(" ", "")) for x in (f[2] if len(f) > 2 else []))) for f in st["fields"])), ""]
        for sname in pr.get("trait_impls_of", []):
            impls = {}
            for tm in self.raw_ast.get("trait_methods", []):
                if tm["owner"] == sname:
                    impls[tm["trait"]] = tm.get("impl_fns", [])
            out += ["/-- the hand-written trait impls of `%s` and the functions each defines -/" % sname,
                    "def %s.traitImpls : List (List Nat × List (List Nat)) := [%s]" % (
                        sname, ", ".join("(bytes! %s, [%s])" % (lean_str(tr), ", ".join("bytes! %s" % lean_str(x) for x in fs)) for tr, fs in sorted(impls.items()))), ""]
        out += ["section", pr["vars"], ""]
        for name in order:
            try:
                if "untranslatable" in self.fns[name]:
                    raise Unsupported(self.fns[name]["untranslatable"])
                ft = FnTr(self, self.fns[name])
                lines = ft.translate()
            except Unsupported as e:
                self.problems.append("%s: unsupported: %s" % (name, e))
                continue
            except RecursionError:
                self.problems.append("%s: translation did not terminate" % name)
                continue
            text = []
            for lp in ft.loops:
                text += lp["lines"] + [""]
            binders = (pr["leading_binders"] + " " if pr.get("leading_binders") else "") + ("(fuel0 : Nat) " if name in self.fuel else "") + " ".join("(%s : %s)" % (v, ft.types[v]) for v in ft.generics + ft.params)
            if name in self.method_notes:
                text += ["/-- compiled under: %s -/" % ", ".join(self.method_notes[name])]
            rty = FnTr.paren_ty(ft.ret) if not pr.get("diags") else "(%s × List String)" % ft.ret
            text += ["def %s %s : Res %s :=" % (name, binders, rty)] + ind(lines) + [""]
            # loop functions that (transitively) use cmp_str take it as an explicit first argument outside their own body
            for l in text:
                for lp in ft.loops:
                    pass
            fixed = []
            for l in text:
                if "@CMP@" in l:
                    ln = l.split("@CMP@")[1].split(" ")[0]
                    owner_uses = name in self.cmp and any("cmp_str" in x for lp in ft.loops if lp["name"] == ln for x in lp["lines"][2:])
                    l = l.replace("@CMP@" + ln, ln + (" cmp_str" if owner_uses else ""))
                fixed.append(l)
            out += fixed
        out += ["end", "end %s" % pr["ns"], ""]
        return "\n".join(out)


def regenerate(which="utils"):
    """Dump the syntax tree of the profile's source file and rewrite its Extracted/*.lean. Returns the problem list."""
    pr = PROFILES[which]
    os.makedirs(c.CACHE, exist_ok=True)
    outp = os.path.join(c.CACHE, "ast_%s.json" % which)
    c.run_hook("ast", os.path.join(c.REPO, *pr["src"]), outp)
    ast = json.load(open(outp))
    head = "".join("import %s\n" % i for i in pr["imports"])
    if "parse_error" in ast:
        text = head + "/- %s does not parse: %s -/\n" % (pr["src"][-1], ast["parse_error"])
        probs = [pr["src"][-1] + ": " + ast["parse_error"]]
    else:
        try:
            m = ModTr(ast, pr)
            text = m.generate()
            probs = m.problems
        except Unsupported as e:
            text = head + "/- untranslatable: %s -/\n" % e
            probs = [pr["src"][-1] + ": " + str(e)]
    c.write_if_changed(os.path.join(c.LEAN, "Sylvia", "Extracted", pr["out"]), text)
    return probs


if __name__ == "__main__":
    for w in PROFILES:
        print(w, "problems:", regenerate(w))
