"""C10 — remote helpers build messages the target contract accepts and routes identically."""
import random

from .. import casing, common as c, corpus, l2, translate, rs2lean
from . import C02

THEOREMS = [("Sylvia.Thm.C10", "C10." + t) for t in
            ["executor_msg_fields", "executor_routes", "querier_routes", "builder_defaults", "build2_adds_salt", "last_writer_wins",
             "setters_commute", "setters_fold", "admin_helpers"]] + \
           [("Sylvia.Thm.C02", "C02.dispatch_exact"), ("Sylvia.Thm.C05Gen", "C05.parts_faithful_closed"), ("Sylvia.Thm.PublishedFn", "PublishedFn.serde_snake_case_eq")] + \
           [("Sylvia.Thm.C10Builder", "C10B." + t) for t in ["apply_eq", "new_build", "build_eq", "build2_eq", "last_writer_wins", "setters_commute", "applyAll_eq", "built_fields"]] + \
           [("Sylvia.Thm.HandlesFn", "HandlesFn." + t) for t in ["executor_msg", "withAll_eq", "admin_helpers"]]


def hx(s):
    return "x" + s.encode().hex()


def run(ctx):
    ctx.cov["trusted_base"] = ["Lean 4.33 kernel", "axioms: propext, Classical.choice, Quot.sound only (audited)",
                               "L2 corpus harness (Remote::executor / BoundQuerier with a recording mock querier / InstantiateBuilder / admin helpers) + svmodel driver",
                               "python statement of the expected message and of the echo"]
    ctx.assumptions += ["the handle is typed by the concrete contract and, for interface methods, also by `dyn Interface<Error = ..>`",
                        "the smart query is answered by the contract's own query entry point through a recording mock querier"]
    translate.regenerate()
    # function translator: serde_snake_case of sylvia-derive (the rule behind the published name lists) -> Extracted/CasingFns.lean
    casing_problems = rs2lean.regenerate("casing")
    ctx.cov["function_translator_casing"] = {"source": "sylvia-derive/src/types/msg_variant.rs::serde_snake_case", "problems": casing_problems}
    if casing_problems:
        ctx.obligation_failed("function-translator(casing)", "; ".join(casing_problems)[:1500])
    # ... and the instantiate builder of the runtime library -> Extracted/BuilderFns.lean (theorems of Thm/C10Builder.lean are about it)
    builder_problems = rs2lean.regenerate("builder")
    ctx.cov["function_translator_builder"] = {"source": "sylvia/src/builder/instantiate.rs", "problems": builder_problems}
    if builder_problems:
        ctx.obligation_failed("function-translator(builder)", "; ".join(builder_problems)[:1500])
    # ... and the remote handle / executor builder of sylvia/src/types.rs -> Extracted/HandleFns.lean (Thm/HandlesFn.lean)
    handle_problems = rs2lean.regenerate("handles")
    ctx.cov["function_translator_handles"] = {"source": "sylvia/src/types.rs (Remote, ExecutorBuilder)", "problems": handle_problems}
    if handle_problems:
        ctx.obligation_failed("function-translator(handles)", "; ".join(handle_problems)[:1500])
    c.prove(ctx, sorted({m for m, _ in THEOREMS}), THEOREMS)
    progs, exes = l2.get_corpus(ctx)
    rng = random.Random(ctx.seed * 41 + 10)
    ops, expect = {}, {}
    for p in progs:
        lst = ops.setdefault(p["id"], [])
        for idx, pid_, label, ms in l2.parts_of(p, "exec"):
            for m in ms:
                for via in (["ct", "dyn"] if pid_ != "ct" else ["ct"]):
                    hid = "%s.%s" % (pid_, m["name"])
                    for fail in ("-", hid):
                        vals = [corpus.rand_value(rng, a["ty"]) for a in m["args"]]
                        fields = [(a["name"], corpus.jtext(v)) for a, v in zip(m["args"], vals)]
                        addr = rng.choice(["target", "cosmwasm1abc", "a b"]).replace(" ", "_")
                        amount = rng.choice([0, 5, 10 ** 15, "5utok+0refund", "0zero", "1a+2b+0c"])
                        sender = rng.choice(["alice", "bob"])
                        height = rng.choice([3, 77])
                        op = "xh %d %s %s %s %s %s %s %d sd %s" % (idx, via, m["name"], hx(addr), amount, fail, sender, height, corpus.jtext(vals))
                        doc = l2.msg_doc("exec", m, fields)
                        shown = amount if isinstance(amount, str) else ("" if amount == 0 else "%dutok" % amount)
                        want = "execute addr=%s funds=%s body=%s => %s" % (addr, shown, doc,
                                                                           C02.expected(p, "exec", pid_, m, fields, fail, sender, 0 if isinstance(amount, str) else amount, height, "sd"))
                        lst.append(op)
                        expect[(p["id"], op)] = want
        for idx, pid_, label, ms in l2.parts_of(p, "query"):
            for m in ms:
                for via in (["ct", "dyn"] if pid_ != "ct" else ["ct"]):
                    vals = [corpus.rand_value(rng, a["ty"]) for a in m["args"]]
                    fields = [(a["name"], corpus.jtext(v)) for a, v in zip(m["args"], vals)]
                    addr = rng.choice(["target", "q1"])
                    height = rng.choice([3, 77])
                    op = "qh %d %s %s %s %d sd %s" % (idx, via, m["name"], hx(addr), height, corpus.jtext(vals))
                    doc = l2.msg_doc("query", m, fields)
                    want = "addr=%s body=%s => %s" % (addr, doc, C02.expected(p, "query", pid_, m, fields, "-", "s", 0, height, "sd"))
                    lst.append(op)
                    expect[(p["id"], op)] = want
        inst = [m for m in p["contract"]["methods"] if m["msg"]["kind"] == "instantiate"][0]
        for _ in range(ctx.size(4, 40)):
            vals = [corpus.rand_value(rng, a["ty"]) for a in inst["args"]]
            body = l2.obj_text([(a["name"], corpus.jtext(v)) for a, v in zip(inst["args"], vals)])
            setters = []
            state = {"l": "", "a": "-", "f": ""}
            for _ in range(rng.choice([0, 1, 2, 3, 5])):
                k = rng.choice("laf")
                if k == "f":
                    v = rng.choice([0, 5, 123, "0atom+5osmo", "0zero", "7a+0b"])
                    setters.append("f:%s" % v)
                    state["f"] = v if isinstance(v, str) else ("" if v == 0 else "%dutok" % v)
                else:
                    # labels and admins are carried as given: surrounding white space, control characters, non-ASCII, upper case
                    v = rng.choice(["x", "my label", "admin1", "", " lead", "trail ", "  ", "\u00c9t\u00e9", "MiXeD"] + (["\tx\n"] if k == "l" else []))
                    setters.append("%s:%s" % (k, v.encode().hex()))
                    state[k] = v
            salt = rng.choice([None, None, b"salt", b"\x00\x01"])
            if salt is not None:
                setters.insert(rng.randrange(len(setters) + 1), "s:" + salt.hex())
            code = rng.choice([1, 7, 2 ** 63])
            op = "ib %d %s %s" % (code, ";".join(setters) or "-", corpus.jtext(vals))
            want = "%s code=%d admin=%s label=%s funds=%s%s body=%s" % ("instantiate2" if salt is not None else "instantiate", code, state["a"],
                                                                        state["l"].encode().hex(), state["f"], (" salt=" + salt.hex()) if salt is not None else "", body)
            lst.append(op)
            expect[(p["id"], op)] = want
        for new in ("newadmin", None):
            addr = rng.choice(["c1", "cosmwasm1zz"])
            op = "adm %s %s" % (hx(addr), hx(new) if new else "-")
            one = ("update_admin addr=%s admin=%s" % (addr, new)) if new else ("clear_admin addr=%s" % addr)
            lst.append(op)
            expect[(p["id"], op)] = one + " | " + one
    rows, ndiff = l2.execute(ctx, "L2-remote-helpers", progs, exes, ops)
    l2.report_diffs(ctx, "L2-remote-helpers", rows)
    by_id = {p["id"]: p for p in progs}
    bad = 0
    hist = {}
    for pid, op, a, b in rows:
        hist[op.split(" ")[0]] = hist.get(op.split(" ")[0], 0) + 1
        want = expect[(pid, op)]
        if a != want:
            bad += 1
            ctx.violation("remote-helper-" + op.split(" ")[0], "%s: observed %s, required %s" % (op[:100], a[:300], want[:300]),
                          {"program": corpus.render_module(by_id[pid]), "op": "%s %s" % (pid, op), "observed": a, "required": want})
    ctx.add_stream("L2-remote-helpers", len(rows), len({r[1] for r in rows}), samples=[r[1] for r in rows[:2]], programs=len(progs),
                   model_disagreements=ndiff, oracle_failures=bad, histogram=hist)
    ctx.cov["traces_validated_against_impl"] += len(rows)
    ctx.cov["rule"] = ("every exec method of every part through Remote::executor (handle typed by the contract and by dyn Interface), the built WasmMsg fed to the real execute "
                       "entry point (Ok and failing handler); every query method through BoundQuerier with a recording querier; instantiate builder setter sequences (label, "
                       "admin, funds, salt in any order, repeated); admin helpers on owned and borrowed handles")
