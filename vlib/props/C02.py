"""C02 — dispatch runs exactly the annotated handler with the sent arguments."""
import json
import base64
import random

from .. import casing, common as c, corpus, l2, translate, rs2lean

THEOREMS = [("Sylvia.Thm.C02", "C02." + t) for t in
            ["bindArgs_pairUp", "dispatch_exact", "dispatch_exact_struct", "error_conversion", "parts_faithful"]] + \
           [("Sylvia.Thm.C03", "C03.wrapper_accepts_encoded"), ("Sylvia.Thm.C05Gen", "C05.parts_faithful_closed"),
            ("Sylvia.Thm.Obl.Published", "Obl.published_rule_is_wire_rule"),
            ("Sylvia.Thm.Obl.T.ctx_tables_agree", "Obl.ctx_tables_agree"), ("Sylvia.Thm.Obl.T.result_and_leg", "Obl.result_and_leg")] + \
           [("Sylvia.Thm.CtxFn", "CtxFn." + t) for t in ["exec_from", "instantiate_from", "query_from", "sudo_from", "migrate_from"]]
ADDR = "cosmwasm1jpev2csrppg792t22rn8z8uew8h3sjcpglcd0qv9g8gj8ky922tscp8avs"


def expected(prog, kind, part_id, m, fields, fail, sender, amount, height, seed):
    """the property, spelled out on observable output (no model involved)"""
    hid = "%s.%s" % (part_id, m["name"])
    ce = bool(prog["contract"].get("error"))
    if fail == hid:
        ety = m["ret_err"]
        if not ce:
            return "err Generic error: fail:" + hid
        if ety == "std":
            return "err CE::Std(Generic error: fail:%s)" % hid
        return "err CE::Custom(fail:%s)" % hid
    args = l2.obj_text(fields)
    attrs = [("ran", hid), ("args", args)]
    if kind in ("exec", "instantiate"):
        attrs += [("sender", sender), ("funds", "" if amount == 0 else "%dutok" % amount)]
    attrs += [("height", str(height)), ("addr", ADDR), ("seed", seed)]
    if kind == "query":
        # the JSON encoding of the returned value: one of the prelude's response structs, a String, or a Binary (base64 string)
        if m.get("ret_kind") == "str":
            return "ok " + corpus.jtext("|".join("%s=%s" % kv for kv in attrs))
        if m.get("ret_kind") == "bin":
            return "ok " + corpus.jtext(base64.b64encode("|".join("%s=%s" % kv for kv in attrs).encode()).decode())
        return "ok " + corpus.jtext({"attrs": [[k, v] for k, v in attrs]})
    data = ("m:" + hid).encode().hex() if kind == "migrate" else "-"
    return "ok " + "|".join("%s=%s" % kv for kv in attrs) + " msgs=0 events=0 data=" + data + " stored=" + hid


def run(ctx):
    ctx.cov["trusted_base"] = ["Lean 4.33 kernel", "axioms: propext, Classical.choice, Quot.sound only (audited)",
                               "L2 corpus harness (echo handlers) + svmodel driver", "python statement of the expected echo"]
    ctx.assumptions += ["handlers are the corpus' echo handlers (report who ran, with what, in which context; fail on demand)",
                        "no-duplicate-call is structural in the model (one Call per outcome) and observed through the single `ran`/`stored` marker in the implementation"]
    translate.regenerate()
    # function translator: the context types of sylvia/src/ctx.rs and their From<tuple> conversions -> Extracted/CtxFns.lean
    ctx_problems = rs2lean.regenerate("ctx")
    ctx.cov["function_translator_ctx"] = {"source": "sylvia/src/ctx.rs", "problems": ctx_problems}
    if ctx_problems:
        ctx.obligation_failed("function-translator(ctx)", "; ".join(ctx_problems)[:1500])
    c.prove(ctx, sorted({m for m, _ in THEOREMS}), THEOREMS)
    progs, exes = l2.get_corpus(ctx)
    rng = random.Random(ctx.seed * 977 + 2)
    ops, expect = {}, {}
    for p in progs:
        lst = ops.setdefault(p["id"], [])
        for kind in ("exec", "query", "sudo", "instantiate", "migrate"):
            parts = l2.parts_of(p, kind)
            all_ids = ["%s.%s" % (pid_, m["name"]) for _, pid_, _, ms in parts for m in ms]
            for idx, pid_, label, ms in parts:
                if kind in ("instantiate", "migrate") and pid_ != "ct":
                    continue
                for m in ms:
                    hid = "%s.%s" % (pid_, m["name"])
                    for fail in ["-", hid] + ([rng.choice(all_ids)] if len(all_ids) > 1 else []):
                        for via in ("disp", "entry"):
                            fields = l2.valid_fields(rng, m)
                            if len(fields) > 1 and rng.random() < 0.3:
                                doc_fields = list(reversed(fields))       # member order on the wire must not matter
                            else:
                                doc_fields = fields
                            sender = rng.choice(["alice", "bob", "cosmwasm1xyz", "s"])
                            amount = rng.choice([0, 0, 1, 5, 10 ** 20])
                            height = rng.choice([1, 12345, 2 ** 40])
                            seed = rng.choice(["sd", "x", "42", "seed_value"])
                            doc = l2.msg_doc(kind, m, doc_fields)
                            op = "%s %s %s %s %d %d %s %s" % (via, kind, fail, sender, amount, height, seed, doc)
                            lst.append(op)
                            expect[(p["id"], op)] = (expected(p, kind, pid_, m, fields, fail, sender, amount, height, seed), kind, hid)
    rows, ndiff = l2.execute(ctx, "L2-dispatch", progs, exes, ops)
    l2.report_diffs(ctx, "L2-dispatch", rows)
    progs_by_id = {p["id"]: p for p in progs}
    bad = 0
    hist = {}
    for pid, op, a, b in rows:
        want, kind, hid = expect[(pid, op)]
        hist[(kind, a.split(" ")[0])] = hist.get((kind, a.split(" ")[0]), 0) + 1
        if a != want:
            bad += 1
            ctx.violation("dispatch-wrong", "%s: observed %s, required %s" % (op[:120], a[:300], want[:300]),
                          {"program": corpus.render_module(progs_by_id[pid]), "op": "%s %s" % (pid, op), "observed": a, "required": want})
    ctx.add_stream("L2-dispatch", len(rows), len({r[1] for r in rows}), samples=[r[1] for r in rows[:3]], programs=len(progs),
                   model_disagreements=ndiff, oracle_failures=bad, histogram={"%s/%s" % k: v for k, v in sorted(hist.items())})
    ctx.cov["traces_validated_against_impl"] += len(rows)
    ctx.cov["rule"] = ("every handler of every kind of every generated program, through <Msg>::dispatch and through entry_points::<kind>, with random "
                       "argument values / sender / funds / height / storage seed, for the outcomes Ok, Err(own handler), and another handler marked to fail")
