"""Shared runner for the reply properties C07 / C08 / C09."""
import random

from .. import common as c, corpus, l2, replies, translate


def run_reply_stream(ctx, name, select, builders=False):
    """select(tags) -> bool chooses which operations belong to the property"""
    progs, exes = l2.get_corpus(ctx)
    rng = random.Random(ctx.seed * 271 + 9)
    ops, expect = {}, {}
    for p in progs:
        items = replies.reply_ops(rng, p) + (replies.builder_ops(rng, p) if builders else [])
        for op, exp, tags in items:
            if select(tags):
                ops.setdefault(p["id"], []).append(op)
                expect[(p["id"], op)] = (exp, tags)
    rows, ndiff = l2.execute(ctx, name, progs, exes, ops)
    l2.report_diffs(ctx, name, rows)
    by_id = {p["id"]: p for p in progs}
    bad, unjudged = 0, 0
    hist = {}
    for pid, op, a, b in rows:
        exp, tags = expect[(pid, op)]
        hist["/".join(tags)] = hist.get("/".join(tags), 0) + 1
        if exp is None:
            unjudged += 1
            continue
        if a != exp:
            bad += 1
            ctx.violation("reply-" + tags[0], "%s: observed %s, required %s" % (op[:100], a[:260], exp[:260]),
                          {"program": corpus.render_module(by_id[pid]), "op": "%s %s" % (pid, op), "observed": a, "required": exp, "tags": tags})
    with_replies = sum(1 for p in progs if corpus.reply_entries(p))
    ctx.add_stream(name, len(rows), len({r[1] for r in rows}), samples=[r[1] for r in rows[:3]], programs=len(progs),
                   programs_with_reply_handlers=with_replies, model_disagreements=ndiff, oracle_failures=bad,
                   recorded_not_judged=unjudged, histogram=dict(sorted(hist.items())))
    ctx.cov["traces_validated_against_impl"] += len(rows)
