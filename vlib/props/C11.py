"""C11 — bridging to chain-custom types preserves the response and the call."""
import json

from .. import common as c, corpus, translate, custbins, rs2lean

THEOREMS = [("Sylvia.Thm.C11", "C11." + t) for t in ["into_response_ok", "into_response_err_iff", "intoMsgs_ok", "intoMsgs_err"]] + \
           [("Sylvia.Thm.C11Features", "C11.into_response_ok_under"), ("Sylvia.Thm.C11Features", "C11.completeAllB_sound"),
            ("Sylvia.Thm.Obl.ConvertibleCfg", "Obl.convertible_complete_under_all_features"),
            ("Sylvia.Thm.Obl.Convertible", "Obl.convertible_complete"), ("Sylvia.Thm.Obl.Complete.C11", "Obl.extraction_complete_C11")] + \
           [("Sylvia.Thm.C11Bridge", "C11B." + t) for t in ["code_ok", "code_err_iff", "code_total", "into_msg_ok", "into_msg_custom", "into_msg_total"]]
KINDS = ["bank", "burn", "wasm", "wasm_inst", "custom", "staking", "distribution", "ibc", "ibc_transfer", "gov", "any", "stargate"]


def gen_resp(rng, p_custom):
    n = rng.choice([0, 1, 1, 2, 3, 5, 8])
    msgs = []
    for _ in range(n):
        kind = "custom" if rng.random() < p_custom else rng.choice([k for k in KINDS if k != "custom"])
        msgs.append({"kind": kind, "id": rng.choice([0, 1, 7, 2 ** 64 - 1]), "gas": rng.choice([None, 0, 5, 2 ** 63]),
                     "reply_on": rng.choice(["always", "success", "error", "never"]),
                     "payload": "x" + bytes(rng.randrange(256) for _ in range(rng.choice([0, 0, 1, 4]))).hex(), "n": rng.randrange(1000)})
    attrs = [[rng.choice(["a", "k", "x_", "key2"]), rng.choice(["v", "", "w w"])] for _ in range(rng.choice([0, 1, 3]))]
    events = [[rng.choice(["e", "ev2"]), [[rng.choice(["k", "j"]), rng.choice(["v", ""])] for _ in range(rng.choice([0, 1, 2]))]]
              for _ in range(rng.choice([0, 1, 2]))]
    data = rng.choice([None, "x", "x00", "x" + "ab" * 10])
    return {"msgs": msgs, "attrs": attrs, "events": events, "data": data}


def run(ctx):
    ctx.cov["trusted_base"] = ["Lean 4.33 kernel", "axioms: propext, Classical.choice, Quot.sound only (audited)",
                               "translator: the arms of IntoMsg::into_msg and the field-by-field forms of into_msg / into_response are re-read from sylvia/src/into_response.rs",
                               "L3 rt harness (real IntoResponse on generated Response<Empty>) + svmodel driver"]
    ctx.assumptions += ["cargo features of the harness: staking, stargate, cosmwasm_2_0 (all CosmosMsg variants of cosmwasm-std 2.2 present); a second build uses sylvia's default features only",
                        "the dispatch arms that call into_response / into_empty for `: custom(msg, query)` interfaces are covered by the L1 facts of C17/C03 streams (templates) — see DESIGN"]
    translate.regenerate()
    # function translator: sylvia/src/into_response.rs -> Extracted/BridgeFns.lean (cfg'd arms as `if feat ".."`); the theorems of
    # Thm/C11Bridge.lean are re-checked against what it produced from the current source
    br_problems = rs2lean.regenerate("bridge")
    ctx.cov["function_translator_bridge"] = {"source": "sylvia/src/into_response.rs (IntoMsg::into_msg, IntoResponse::into_response)",
                                             "output": "lean/Sylvia/Extracted/BridgeFns.lean", "problems": br_problems}
    if br_problems:
        ctx.obligation_failed("function-translator(bridge)", "; ".join(br_problems)[:1500])
    c.prove(ctx, ["Sylvia.Thm.C11", "Sylvia.Thm.Obl.Convertible"], THEOREMS)
    exe = c.build_rt(own="intoresp")
    rng = ctx.rng
    specs = [{"msgs": [], "attrs": [], "events": [], "data": None}]
    for k in KINDS:
        specs.append({"msgs": [{"kind": k, "id": 3, "gas": 9, "reply_on": "error", "payload": "x0102", "n": 4}], "attrs": [["a", "b"]], "events": [["e", [["k", "v"]]]], "data": "x01"})
    for _ in range(ctx.size(4000, 200000)):
        specs.append(gen_resp(rng, rng.choice([0, 0, 0.1, 0.5])))
    ops = ["intoresp " + json.dumps(s, separators=(",", ":")) for s in specs]
    impl = c.run_lines(exe, ops)
    model = c.run_driver(ops)
    canon = [("err unknown-variant" if x.startswith("err Generic error: Unknown message variant") else x) for x in impl]
    nd = c.diff_streams(ctx, "L3-into-response", ops, canon, model)
    # the regenerated functions themselves, run by the driver on the same responses (validates the function translator and the
    # hand-written declarations of the cosmwasm_std types)
    opsx = ["intorespx staking,stargate,cosmwasm_2_0 " + o[len("intoresp "):] for o in ops]
    modelx = c.run_driver_x(ctx, "svx_bridge", opsx)
    nx = c.diff_streams(ctx, "L3-into-response-regenerated", opsx, canon, modelx)
    ctx.cov["streams"]["L3-into-response-regenerated"] = {"evaluations": len(opsx), "distinct_nontrivial": len(set(opsx)), "disagreements": nx,
        "what": "Extracted.Bridge.Response.into_response (regenerated from source, all features on) vs the real IntoResponse"}
    bad = 0
    hist = {}
    for s, o, r in zip(specs, ops, impl):
        has_custom = any(m["kind"] == "custom" for m in s["msgs"])
        want = "err Generic error: Custom Empty message should not be sent" if has_custom else "ok same=true msgs=%d" % len(s["msgs"])
        hist[r.split(" ")[0] + ("/custom" if has_custom else "")] = hist.get(r.split(" ")[0] + ("/custom" if has_custom else ""), 0) + 1
        if r != want:
            bad += 1
            kinds = sorted({m["kind"] for m in s["msgs"]})
            cls = "non-custom-message-refused" if "Unknown message variant" in r else "response-altered"
            ctx.violation(cls, "response with message kinds %s: observed %s, required %s" % (kinds, r[:160], want), {"op": o, "observed": r, "required": want})
    ctx.add_stream("L3-into-response", len(ops), len(set(ops)), samples=ops[1:3], model_disagreements=nd, oracle_failures=bad, histogram=hist)
    ctx.cov["traces_validated_against_impl"] += len(ops)
    # the same library built as a default user builds it (feature `staking` only): the cfg-guarded arms of into_msg must cover
    # every variant that exists under that feature set
    exe_min = c.build_rt_min()
    kinds_min = ["bank", "burn", "wasm", "wasm_inst", "custom", "staking", "distribution"]
    specs2 = [sp for sp in specs if all(m["kind"] in kinds_min for m in sp["msgs"])][:ctx.size(1500, 40000)]
    ops2 = ["intoresp " + json.dumps(sp, separators=(",", ":")) for sp in specs2]
    impl2 = c.run_lines(exe_min, ops2)
    opsx2 = ["intorespx staking " + o[len("intoresp "):] for o in ops2]
    nx2 = c.diff_streams(ctx, "L3-into-response-regenerated-default-features", opsx2,
                         [("err unknown-variant" if x.startswith("err Generic error: Unknown message variant") else x) for x in impl2], c.run_driver_x(ctx, "svx_bridge", opsx2))
    ctx.cov["streams"]["L3-into-response-regenerated-default-features"] = {"evaluations": len(opsx2), "distinct_nontrivial": len(set(opsx2)), "disagreements": nx2,
        "what": "the regenerated function with feat = {staking} vs the real library built with sylvia's default features"}
    bad2 = 0
    for sp, o, r in zip(specs2, ops2, impl2):
        has_custom = any(m["kind"] == "custom" for m in sp["msgs"])
        want = "err Generic error: Custom Empty message should not be sent" if has_custom else "ok same=true msgs=%d" % len(sp["msgs"])
        if r != want:
            bad2 += 1
            kinds = sorted({m["kind"] for m in sp["msgs"]})
            cls = "non-custom-message-refused" if "Unknown message variant" in r else "response-altered"
            ctx.violation(cls, "sylvia built with its default features (staking only): response with message kinds %s: observed %s, required %s" % (kinds, r[:160], want),
                          {"op": o, "observed": r, "required": want, "features": "default (staking)"})
    ctx.add_stream("L3-into-response-default-features", len(ops2), len(set(ops2)), samples=ops2[1:3], oracle_failures=bad2)
    ctx.cov["traces_validated_against_impl"] += len(ops2)
    custbins.stream(ctx)
    ctx.cov["rule"] = "generated Response<Empty>: 0..8 sub-messages over 12 message shapes (9 CosmosMsg variants), ids/gas limits/triggers/payloads, attributes, events, data; with and without custom messages"
    if ctx.violations:
        for o in ctx.obligation_failures:
            o["explained_by_known"] = True
