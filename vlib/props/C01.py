"""C01 — generated messages have the JSON shape named by the method signature."""
import itertools
import json
import random

from .. import casing, common as c, corpus, l2, translate

THEOREMS = [("Sylvia.Thm.C01", "C01." + t) for t in
            ["wire_name_is_method_name", "encode_shape", "variants_are_methods_of_kind", "decode_encode",
             "struct_decode_encode", "accepts_only_declared_names"]] + \
           [("Sylvia.Lemmas.Casing", "Casing.wire_name_shape"), ("Sylvia.Lemmas.Serde", "Sylvia.Serde.decodeVal_idem")]


def casing_stream(ctx):
    """L3: the Lean casing model and the Python oracle vs the real convert_case / serde_derive_internals"""
    alpha = "abAB01_"
    maxlen = ctx.size(5, 7)
    names = ["".join(t) for n in range(1, maxlen + 1) for t in itertools.product(alpha, repeat=n)]
    rng = ctx.rng
    from .. import gen
    names += [gen.shape_name(rng) for _ in range(2000)] + [gen.wild_name(rng) for _ in range(2000)]
    ops = ["case " + n for n in names]
    exe = c.build_rt(own="")
    impl = c.run_lines(exe, ops)
    model = c.run_driver(ops)
    nd = c.diff_streams(ctx, "L3-casing", ops, impl, model)
    bad = 0
    for n, r in zip(names, impl):
        want = "%s %s %s %s" % (casing.upper_camel(n), casing.cc_snake(casing.upper_camel(n)), casing.cc_upper_snake(n),
                                casing.serde_snake(casing.upper_camel(n)))
        if r != want:
            bad += 1
            if bad <= 3:
                ctx.obligation_failed("oracle:python-casing", "name=%r real=%r python=%r" % (n, r, want))
        if casing.in_shape(n) and r.split(" ")[3] != n:
            ctx.violation("wire-name-not-method-name", "method %s would be serialised as %s" % (n, r.split(" ")[3]), {"name": n, "real": r})
    ctx.add_stream("L3-casing", len(ops), len(set(names)), samples=ops[100:103], exhaustive_up_to_len=maxlen,
                   model_disagreements=nd, python_oracle_disagreements=bad)


def facts_stream(ctx):
    """L1: variants / fields of the expanded message types of generic and non-generic programs; the placeholder variant of generic
    message types must be invisible on the wire (serde(skip)), every other variant must come from a method of the kind"""
    from .. import l1stream, l1facts
    cts, ifs = l1stream.build(ctx, ctx.size(250, 5000), ctx.size(80, 2000), seed_salt=1)
    ops, impl, model, meta = l1stream.run(ctx, "L1-facts", cts, ifs, "C01")
    nd = c.diff_streams(ctx, "L1-facts", ops, impl, model)
    bad = 0
    generic = 0
    for a, m in zip(impl, meta):
        if m is None or m[3] != "clean":
            continue
        pid, item, src, status = m
        obs = json.loads(a)
        errs = []
        for t in obs["msgs"]:
            kind = [k for k, v in {"exec": "ExecMsg", "query": "QueryMsg", "sudo": "SudoMsg", "instantiate": "InstantiateMsg", "migrate": "MigrateMsg"}.items() if t["name"].endswith(v)][0]
            ms = [x for x in item["methods"] if x.get("msg") and x["msg"]["kind"] == kind]
            real = [v for v in t["variants"] if v["name"] != "_Phantom"]
            for v in t["variants"]:
                if v["name"] == "_Phantom":
                    generic += 1
                    if "serde(skip)" not in v["attrs"]:
                        errs.append("%s has a placeholder variant without serde(skip): clients could send and receive `__phantom`" % t["name"])
            if kind in ("exec", "query", "sudo"):
                if [v["name"] for v in real] != [casing.upper_camel(x["name"]) for x in ms]:
                    errs.append("%s variants %s, methods %s" % (t["name"], [v["name"] for v in real], [x["name"] for x in ms]))
                for v, x in zip(real, ms):
                    if [f["name"] for f in v["fields"]] != [y["name"] for y in x["args"]]:
                        errs.append("%s::%s fields %s, arguments %s" % (t["name"], v["name"], [f["name"] for f in v["fields"]], [y["name"] for y in x["args"]]))
            if 'serde(rename_all="snake_case")' not in t["attrs"]:
                errs.append("%s lacks rename_all = snake_case" % t["name"])
        if errs:
            bad += 1
            ctx.violation("message-type-shape", "; ".join(errs)[:400], {"source": src})
    ctx.add_stream("L1-facts", len([m for m in meta if m]), len({m[2] for m in meta if m}), samples=[meta[2][2]],
                   generic_message_types=generic, model_disagreements=nd, oracle_failures=bad)


def run(ctx):
    ctx.cov["trusted_base"] = ["Lean 4.33 kernel", "axioms: propext, Classical.choice, Quot.sound only (audited)",
                               "L2 corpus harness + svmodel driver", "L3 rt harness (convert_case 0.8, serde_derive_internals 0.29.1)",
                               "python oracle for the expected JSON text"]
    ctx.assumptions += ["argument types restricted to the universe of Serde.VTy; numbers in canonical decimal form",
                        "serde_derive's rename rule is taken from serde_derive_internals 0.29.1 for the exhaustive casing stream and from the real derive in the compiled corpus"]
    translate.regenerate()
    c.prove(ctx, sorted({m for m, _ in THEOREMS}), THEOREMS)
    casing_stream(ctx)
    facts_stream(ctx)
    progs, exes = l2.get_corpus(ctx)
    rng = random.Random(ctx.seed * 131 + 1)
    ops = {}
    expect = {}
    for p in progs:
        lst = ops.setdefault(p["id"], [])
        for kind in ("exec", "query", "sudo", "instantiate", "migrate"):
            for idx, pid_, label, ms in l2.parts_of(p, kind):
                if kind in ("instantiate", "migrate") and pid_ != "ct":
                    continue
                for m in ms:
                    for _ in range(ctx.size(3, 12)):
                        vals = [corpus.rand_value(rng, a["ty"]) for a in m["args"]]
                        fields = [(a["name"], corpus.jtext(v)) for a, v in zip(m["args"], vals)]
                        doc = l2.msg_doc(kind, m, fields)
                        op1 = "ser %d %s %s %s" % (idx, kind, m["name"], corpus.jtext(vals))
                        lst.append(op1)
                        expect[(p["id"], op1)] = ("ser", doc, m, kind)
                        op2 = "de %d %s %s" % (idx, kind, doc)
                        lst.append(op2)
                        expect[(p["id"], op2)] = ("de", doc, m, kind)
                    if kind not in ("instantiate", "migrate"):
                        body = l2.obj_text(l2.valid_fields(rng, m))
                        wire = casing.wire_name(m["name"])
                        for alt in sorted({m["name"], casing.upper_camel(m["name"]), casing.cc_snake(casing.upper_camel(m["name"])),
                                           wire.upper(), wire + "_", "_" + wire, wire.replace("_", "")}):
                            if alt != wire and alt not in [casing.wire_name(o["name"]) for o in ms]:
                                op3 = "de %d %s %s" % (idx, kind, l2.obj_text([(alt, body)]))
                                lst.append(op3)
                                expect[(p["id"], op3)] = ("alt", alt, m, kind)
    rows, ndiff = l2.execute(ctx, "L2-ser-de", progs, exes, ops)
    l2.report_diffs(ctx, "L2-ser-de", rows)
    bad = 0
    distinct = set()
    shapes = 0
    progs_by_id = {p["id"]: p for p in progs}
    for pid, op, a, b in rows:
        kindtag, doc, m, kind = expect[(pid, op)]
        distinct.add(op)
        why = None
        if kindtag == "ser":
            shapes += casing.in_shape(m["name"])
            if casing.in_shape(m["name"]) and kind not in ("instantiate", "migrate") and not doc.startswith('{"%s":' % m["name"]):
                why = "oracle inconsistency"
            if a != "ok %s true" % doc:
                why = "constructor/literal of %s serialises as %s, required %s" % (m["name"], a, doc)
        elif kindtag == "de":
            if a != "ok " + doc:
                why = "parsing %s gives %s" % (doc, a)
        else:
            if a != "err":
                why = "message type accepts the name %r which is not a wire name: %s" % (doc, a)
        if why:
            bad += 1
            ctx.violation("message-json-shape", "%s %s: %s" % (kind, m["name"], why),
                          {"program": corpus.render_module(progs_by_id[pid]), "op": "%s %s" % (pid, op), "observed": a})
    ctx.add_stream("L2-ser-de", len(rows), len(distinct), samples=[r[1] for r in rows[:3]], programs=len(progs),
                   model_disagreements=ndiff, oracle_failures=bad, shape_named_messages=shapes)
    ctx.cov["traces_validated_against_impl"] += len(rows)
    ctx.cov["rule"] = ("every handler of every generated program x random argument values: constructor+literal serialisation, parse of the predicted text, "
                       "rejection of near-miss names; casing: all strings over {a,b,A,B,0,1,_} up to the tier's length, then random names")
