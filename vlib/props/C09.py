"""C09 — reply data is extracted according to the declared data mode."""
from .. import common as c, translate
from ._replies_common import run_reply_stream

THEOREMS = [("Sylvia.Thm.C09", "C09." + t) for t in
            ["guards_documented", "raw_opt_mode", "raw_mode", "typed_mode", "opt_mode", "instantiate_mode", "instantiate_opt_mode", "extract_err_no_call"]] + \
           [("Sylvia.Thm.Obl.Complete.C09", "Obl.extraction_complete_C09")]


def run(ctx):
    ctx.cov["trusted_base"] = ["Lean 4.33 kernel", "axioms: propext, Classical.choice, Quot.sound only (audited)",
                               "translator: the guard chain of the data extraction is regenerated from reply.rs (Extracted.dataGuards)",
                               "L2 corpus harness + svmodel driver; cw_utils' envelope parsers are a parameter of the model whose outcome the generator knows by construction"]
    ctx.assumptions += ["an execute envelope that is present but carries no inner data is recorded and compared with the model, not judged (the property's table has no such cell)"]
    translate.regenerate()
    if THEOREMS:
        c.prove(ctx, sorted({m for m, _ in THEOREMS}), THEOREMS)
    run_reply_stream(ctx, "L2-data-modes", lambda tags: tags[0] == "success" and len(tags) >= 3)
    ctx.cov["rule"] = ("success handlers of the generated programs over the seven data modes (none, raw, raw+opt, typed, opt, instantiate, instantiate+opt) x "
                       "data absent / well-formed / bad envelope / bad JSON / bad JSON syntax, with random data values of the declared type")
