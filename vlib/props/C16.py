"""C16 — query response metadata names each query's real response type."""
import random
import re

from .. import casing, common as c, corpus, genbins, l2, translate, rs2lean

THEOREMS = [("Sylvia.Thm.C16", "C16." + t) for t in
            ["responses_keys", "responses_value", "explicit_resp_wins", "contract_table_is_union", "contract_keys_are_query_names", "any_of_order"]]
MSG_TY = {"exec": "ExecMsg", "query": "QueryMsg", "sudo": "SudoMsg"}
THEOREMS = THEOREMS + [("Sylvia.Thm.RetTypeFn", "RetTypeFn." + x) for x in ["extract_spec", "extract_result", "extract_default"]]


def run(ctx):
    ctx.cov["trusted_base"] = ["Lean 4.33 kernel", "axioms: propext, Classical.choice, Quot.sound only (audited)",
                               "L2 corpus harness (real QueryResponses derive, schemars) + svmodel driver"]
    ctx.assumptions += ["schemas are compared by the harness with cosmwasm_schema::schema_for!(declared type); response types of the corpus are three named structs (plain return, "
                        "explicit resp= with an aliased result type); generic / associated-type responses are covered at L1 by the `returns(..)` attributes of the C15/C17 facts streams",
                        "the `__phantom` entry of generic message types is not sendable (serde skips the variant) and is left out of the comparison"]
    translate.regenerate()
    # function translator: extract_return_type of sylvia-derive/src/utils.rs -> Extracted/RetTypeFns.lean (the success type of the signature)
    rt_problems = rs2lean.regenerate("rettype")
    ctx.cov["function_translator_rettype"] = {"source": "sylvia-derive/src/utils.rs::extract_return_type", "problems": rt_problems}
    if rt_problems:
        ctx.obligation_failed("function-translator(rettype)", "; ".join(rt_problems)[:1500])
    c.prove(ctx, ["Sylvia.Thm.C16"], THEOREMS)
    progs, exes = l2.get_corpus(ctx)
    ops, expect, sent_of = {}, {}, {}
    for p in progs:
        lst = ops.setdefault(p["id"], [])
        parts = l2.parts_of(p, "query")
        allq = {}
        for idx, pid_, label, ms in parts:
            want = {casing.wire_name(m["name"]): corpus.RESP_TYPES[m["ret_kind"]] for m in ms}
            allq.update(want)
            op = "qresp %d" % idx
            lst.append(op)
            expect[(p["id"], op)] = ",".join("%s=%s/true" % (k, want[k]) for k in sorted(want, key=lambda s: s.encode()))
        lst.append("qresp w")
        expect[(p["id"], "qresp w")] = ",".join("%s=%s/true" % (k, allq[k]) for k in sorted(allq, key=lambda s: s.encode()))
        # the name a client really sends for each query: the key its message serialises under (observed, not predicted)
        rng_ = random.Random(ctx.seed * 163 + len(lst))
        for idx, pid_, label, ms in parts:
            for m in ms:
                vals = [corpus.rand_value(rng_, a["ty"]) for a in m["args"]]
                op = "ser %d query %s %s" % (idx, m["name"], corpus.jtext(vals))
                lst.append(op)
                sent_of[(p["id"], op)] = (idx, m)
        for k in ("exec", "query", "sudo"):
            op = "anyof " + k
            lst.append(op)
            expect[(p["id"], op)] = ",".join([i["name"] + MSG_TY[k] for i in p["ifaces"]] + [MSG_TY[k]])
    rows, ndiff = l2.execute(ctx, "L2-query-responses", progs, exes, ops)
    l2.report_diffs(ctx, "L2-query-responses", rows)
    by_id = {p["id"]: p for p in progs}
    bad = 0
    nq = 0
    # sendable names per part, as observed
    sent = {}
    for pid, op, a, b in rows:
        if (pid, op) in sent_of:
            idx, m = sent_of[(pid, op)]
            mm = re.match(r'ok \{"([^"]*)"', a)
            sent.setdefault((pid, idx), {})[mm.group(1) if mm else "?unreadable:" + a[:40]] = corpus.RESP_TYPES[m["ret_kind"]]
    for pid, op, a, b in rows:
        if (pid, op) in sent_of:
            continue
        want = expect[(pid, op)]
        if op.startswith("qresp"):
            # every query a client can send appears once with its own response type, and no other sendable name appears
            which = op.split(" ")[1]
            names = {}
            for (pp, idx), d in sent.items():
                if pp == pid and (which == "w" or str(idx) == which):
                    names.update(d)
            want_sent = ",".join("%s=%s/true" % (k, names[k]) for k in sorted(names, key=lambda s: s.encode()))
            if want_sent != want and a == want:
                bad += 1
                ctx.violation("query-response-table", "%s lists %s but the queries are sent under %s" % (op, a[:300], want_sent[:300]),
                              {"program": corpus.render_module(by_id[pid]), "op": "%s %s" % (pid, op), "observed": a, "required": want_sent})
                continue
        nq += want.count("=")
        if a != want:
            bad += 1
            ctx.violation("query-response-table", "%s: observed %s, required %s" % (op, a[:300], want[:300]),
                          {"program": corpus.render_module(by_id[pid]), "op": "%s %s" % (pid, op), "observed": a, "required": want})
    ctx.add_stream("L2-query-responses", len(rows), len({(r[0], r[1]) for r in rows}), samples=[r[1] + " -> " + r[2] for r in rows[:3]],
                   programs=len(progs), query_entries_checked=nq, model_disagreements=ndiff, oracle_failures=bad)
    ctx.cov["traces_validated_against_impl"] += len(rows)
    genbins.stream(ctx, "tables")
    ctx.cov["rule"] = ("response_schemas() of every part and of the contract-level query message of every generated program (0..2 interfaces; return types named directly or via resp= "
                       "with an aliased result), each entry's schema compared with the declared type's; any_of order of the three contract-level message schemas")
