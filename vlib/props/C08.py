"""C08 — sub-message builders and reply dispatch agree on id, trigger and payload."""
from .. import common as c, translate, rs2lean
from ._replies_common import run_reply_stream

THEOREMS = [("Sylvia.Thm.C08", "C08." + t) for t in
            ["ids_distinct", "numeric_ids_injective", "trigger_spec", "submsg_preserves", "msg_converted", "payload_roundtrip_one", "payload_roundtrip_many", "id_string_injective_on_shape"]] + \
           [("Sylvia.Thm.Obl.Complete.C08", "Obl.extraction_complete_C08")] + \
           [("Sylvia.Thm.ReplyDataFn", "ReplyDataFn.emit_cw_reply_on_eq"), ("Sylvia.Thm.ReplyDataFn", "ReplyDataFn.tokens_injective")]


def run(ctx):
    ctx.cov["trusted_base"] = ["Lean 4.33 kernel", "axioms: propext, Classical.choice, Quot.sound only (audited)",
                               "translator (reply.rs forms)", "L2 corpus harness (sv::SubMsgMethods on SubMsg / WasmMsg / CosmosMsg, then sv::dispatch_reply) + svmodel driver"]
    translate.regenerate()
    # function translator: ReplyData::emit_cw_reply_on -> Extracted/ReplyDataFns.lean (proved equal to the model's `Reply.cwReplyOn`,
    # the function `C08.trigger_spec` is about, for every handler list); it uses the regenerated `ReplyOn` of msg.rs
    for prof, what in (("replyon", "sylvia-derive/src/parser/attributes/msg.rs::ReplyOn"), ("replydata", "sylvia-derive/src/contract/communication/reply.rs::ReplyData::emit_cw_reply_on")):
        probs = rs2lean.regenerate(prof)
        ctx.cov["function_translator_" + prof] = {"source": what, "problems": probs}
        if probs:
            ctx.obligation_failed("function-translator(%s)" % prof, "; ".join(probs)[:1500])
    if THEOREMS:
        c.prove(ctx, sorted({m for m, _ in THEOREMS}), THEOREMS)
    run_reply_stream(ctx, "L2-builders", lambda tags: tags[0] in ("ids", "builder", "roundtrip"), builders=True)
    ctx.cov["rule"] = ("for every reply handler of every generated program and the three receiver types: the built SubMsg (id, trigger, gas limit, payload bytes, wrapped message) "
                       "and the round trip builder -> reply -> handler with random payload values (raw, one value, several values)")
