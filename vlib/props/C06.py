"""C06 — entry points exist exactly for defined, non-overridden kinds and forward calls."""
import itertools
import re
import json

from .. import common as c
from .. import gen, l1, translate

KINDS = gen.KINDS
THEOREMS_CORE = [("Sylvia.Thm.C06", "C06." + t) for t in ["ep_iff", "override_local", "override_removes", "ep_nodup"]]
THEOREMS_CLOSED = [("Sylvia.Thm.C06Closed", "C06.ep_iff_closed"), ("Sylvia.Thm.C06Closed", "C06.ep_forwards"),
                   ("Sylvia.Thm.Obl.Override", "Obl.override_table_faithful"),
                   ("Sylvia.Thm.Obl.Complete.C06", "Obl.extraction_complete_C06"), ("Sylvia.Thm.Obl.T.epDefaults_documented", "Obl.epDefaults_documented"),
                   ("Sylvia.Thm.Obl.T.msgTypeNew_documented", "Obl.msgTypeNew_documented"), ("Sylvia.Thm.Obl.T.ctx_tables_agree", "Obl.ctx_tables_agree"),
                   ("Sylvia.Thm.Obl.T.epName_documented", "Obl.epName_documented"), ("Sylvia.Thm.Obl.T.accessor_documented", "Obl.accessor_documented")]
EP_NAME = {"exec": "execute", "query": "query", "instantiate": "instantiate", "migrate": "migrate", "reply": "reply", "sudo": "sudo"}
ACCESSOR = {"exec": "ContractExec", "query": "ContractQuery", "sudo": "ContractSudo", "instantiate": "Instantiate", "migrate": "Migrate"}


def configs(ctx):
    out = []
    n = 0
    for r in range(len(KINDS) + 1):
        for ov in itertools.combinations(KINDS, r):
            for mig, rep, replies, generic in itertools.product([False, True], repeat=4):
                ovl = list(ov)
                # vary the declaration order of the override attributes and repeat one now and then
                if n % 3 == 1:
                    ovl.reverse()
                if n % 7 == 3 and ovl:
                    ovl.append(ovl[0])
                n += 1
                methods = [gen.simple_method("instantiate", "instantiate", [{"name": "a", "ty": gen.P("u32")}]),
                           gen.simple_method("do_it", "exec"), gen.simple_method("get_it", "query", ret=gen.std_result(gen.P("u32"))),
                           gen.simple_method("su_do", "sudo")]
                if mig:
                    methods.insert(n % 4, gen.simple_method("mig_rate", "migrate"))
                if rep:
                    methods.append(gen.simple_method("on_reply", "reply", [
                        {"name": "res", "ty": gen.P("SubMsgResult")}, {"name": "p", "ty": gen.P("Binary"), "payload_raw": True}]))
                    if n % 2:
                        methods.append(gen.simple_method("on_other", "reply", [
                            {"name": "res", "ty": gen.P("SubMsgResult")}, {"name": "p", "ty": gen.P("Binary"), "payload_raw": True}]))
                ct = {"name": "Ct", "methods": methods, "overrides": ovl, "replies": replies}
                # several kinds overridden by one and the same function (sudo, migrate and reply overrides share a signature)
                if n % 5 == 2 and len(set(ovl)) >= 2:
                    ct["override_targets"] = {k: "crate::shared_entry(Empty)" for k in ovl}
                if generic:
                    ct["generics"] = [{"name": "T", "text": "T"}, {"name": "U", "text": "U: Clone"}]
                    ct["ep_generics"] = ["u32", "Vec<String>"]
                out.append(ct)
    return out


def legacy_reply_stream(ctx, cls):
    """Contracts without the `replies` feature: the reply entry point hands the whole `Reply` to the (first) method annotated
    `reply`. Handlers of other kinds that also take just a `Reply` are declared before and after it: the entry point must not
    call one of them (C04: a handler runs only for a message arriving at the entry point of its own kind)."""
    cfgs = []
    for other_kind in ("sudo", "migrate", "exec", "query"):
        for before in (True, False):
            for generic in (False, True):
                reply_m = gen.simple_method("on_reply", "reply", [{"name": "reply", "ty": gen.P("Reply")}])
                other = gen.simple_method("other_%s" % other_kind, other_kind, [{"name": "reply", "ty": gen.P("Reply")}],
                                          ret=gen.std_result(gen.P("u32")) if other_kind == "query" else None)
                methods = [gen.simple_method("instantiate", "instantiate", [{"name": "a", "ty": gen.P("u32")}]), gen.simple_method("do_it", "exec"),
                           gen.simple_method("get_it", "query", ret=gen.std_result(gen.P("u32"))), gen.simple_method("su_do", "sudo")]
                methods += [other, reply_m] if before else [reply_m, other]
                ct = {"name": "Ct", "methods": methods, "overrides": [], "replies": False}
                if generic:
                    ct["generics"] = [{"name": "T", "text": "T"}]
                    ct["ep_generics"] = ["u32"]
                cfgs.append((ct, other_kind, before))
    progs = []
    for i, (ct, _, _) in enumerate(cfgs):
        attr = "generics<%s>" % ", ".join(ct["ep_generics"]) if ct.get("ep_generics") else ""
        progs.append(("lr%d" % i, "entry_points", attr, gen.render_contract(ct)))
    res = l1.expand(progs, "C06lr")
    bad = 0
    for i, (ct, other_kind, before) in enumerate(cfgs):
        f = res["lr%d" % i]
        obs = observed(f) if f["status"] == "clean" else None
        rep = [x for x in (obs or []) if x["name"] == "reply"]
        why = None
        if f["status"] != "clean" or not rep:
            why = "expansion status %s, reply entry point %s" % (f["status"], "present" if rep else "absent")
        else:
            body = rep[0]["body"].replace(" ", "")
            m = re.search(r"::new\(\)\.(\w+)\(", body)
            called = m.group(1) if m else None
            if called != "on_reply":
                why = "the reply entry point calls `%s`, a %s handler declared %s the reply handler `on_reply`" % (
                    called, other_kind if called == "other_%s" % other_kind else "?", "before" if before else "after")
        if why:
            bad += 1
            ctx.violation(cls, "contract without the replies feature: " + why,
                          {"source": progs[i][3], "macro": "entry_points", "attr": progs[i][2], "observed": obs})
    ctx.add_stream("L1-legacy-reply-entry-point", len(cfgs), len(cfgs), samples=[progs[0][3]], exhaustive=True, oracle_failures=bad)
    ctx.cov["traces_validated_against_impl"] += len(cfgs)


def observed(facts):
    """entry point facts of one expansion, in the shape the model driver prints"""
    mod = l1.find_mod(facts.get("items"), "entry_points")
    if mod is None:
        return None
    fns = []
    for it in mod["items"]:
        if it["k"] == "fn":
            ins = it["inputs"]
            fns.append({"name": it["name"], "params": [p["name"] for p in ins[:-1]], "msg": ins[-1]["ty"], "body": it["body"]})
        elif it["k"] != "use":
            fns.append({"name": "?unexpected-item", "params": [], "msg": it.get("k"), "body": ""})
    return fns


def oracle(ct):
    """the property itself, on observable facts only: which entry points must exist"""
    ov = set(ct["overrides"])
    want = [k for k in ["instantiate", "exec", "query", "sudo"] if k not in ov]
    kinds = [m["msg"]["kind"] for m in ct["methods"] if m.get("msg")]
    if "migrate" in kinds and "migrate" not in ov:
        want.append("migrate")
    if "reply" in kinds and "reply" not in ov:
        want.append("reply")
    return sorted(EP_NAME[k] for k in want)


def run(ctx):
    ctx.cov["trusted_base"] = ["Lean 4.33 kernel", "axioms: propext, Classical.choice, Quot.sound only (audited)",
                               "translator (hook extract + vlib/translate.py) for the regenerated tables",
                               "L1 fact extractor (harness/hook) + svmodel driver"]
    ctx.assumptions += ["Gen.entryPoints / epFn / epBodyText model EntryPoints::emit (checked by the exhaustive L1 stream and by the template recognition in the translator)",
                        "what `msg.dispatch` itself does is C02/C03's subject; here only that the entry point calls it on the message of its own kind with the context values"]
    problems, _ = translate.regenerate()
    core_ok = c.prove(ctx, ["Sylvia.Thm.C06"], THEOREMS_CORE)
    closed_ok = c.prove(ctx, ["Sylvia.Thm.Obl.Override", "Sylvia.Thm.C06Closed"], THEOREMS_CLOSED)

    cfgs = configs(ctx)
    progs = []
    for i, ct in enumerate(cfgs):
        attr = "generics<%s>" % ", ".join(ct["ep_generics"]) if ct.get("ep_generics") else ""
        progs.append(("c%d" % i, "entry_points", attr, gen.render_contract(ct)))
    res = l1.expand(progs, "C06")
    ops, impl = [], []
    for i, ct in enumerate(cfgs):
        f = res["c%d" % i]
        ops.append("contract " + gen.dumps(gen.contract_json(ct)))
        impl.append("ok")
        ops.append("ep")
        obs = observed(f)
        impl.append(json.dumps(obs, separators=(",", ":")) if f["status"] == "clean" and obs is not None else "status:" + f["status"])
    model = c.run_driver(ops)
    # model prints via its own JSON printer: re-serialise for a canonical comparison
    model = [json.dumps(json.loads(m), separators=(",", ":")) if m.startswith("[") else m for m in model]
    ndiff = c.diff_streams(ctx, "L1-entry-points", ops, impl, model)
    # direct oracle on the implementation (no model involved)
    bad = 0
    distinct = set()
    for i, ct in enumerate(cfgs):
        f = res["c%d" % i]
        obs = observed(f)
        names = sorted(x["name"] for x in obs) if obs is not None else None
        want = oracle(ct)
        distinct.add((tuple(sorted(set(ct["overrides"]))), tuple(want)))
        why = None
        if f["status"] != "clean":
            why = "expansion status %s" % f["status"]
        elif names != want:
            why = "entry points %s, required %s" % (names, want)
        else:
            for x in obs:
                k = [k for k, v in EP_NAME.items() if v == x["name"]][0]
                wantp = ["deps", "env", "info"] if k in ("exec", "instantiate") else ["deps", "env"]
                if x["params"] != wantp:
                    why = "entry point %s takes %s" % (x["name"], x["params"])
                if k != "reply" and not x["msg"].endswith("::" + ACCESSOR[k]):
                    why = "entry point %s decodes %s" % (x["name"], x["msg"])
                # "builds the contract with its parameterless constructor": of the contract type the attribute names
                cty = "Ct" + ("::<%s>" % ",".join(g.replace(" ", "") for g in ct["ep_generics"]) if ct.get("ep_generics") else "")
                if (cty + "::new()") not in x["body"].replace(" ", ""):
                    why = "entry point %s does not build the contract as %s::new(): %s" % (x["name"], cty, x["body"][:160])
        if f.get("passthrough") not in ("eq", None):
            why = (why or "") + " input not re-emitted unchanged: " + str(f.get("passthrough"))
        if why:
            bad += 1
            ovs = sorted(set(ct["overrides"]))
            cls = "override-kind-mapping" if (names is not None and names != want) else "entry-point-shape"
            ctx.violation(cls, "overrides=%s: %s" % (ovs, why),
                          {"source": progs[i][3], "macro": "entry_points", "attr": progs[i][2], "observed": obs, "required": want,
                           "how": "expand with ./check C06 --replay <this file> (hook harness, entry_points_impl)"})
    ctx.add_stream("L1-entry-points", len(cfgs), len(distinct), samples=[progs[5][3], progs[-1][3]],
                   exhaustive=True, model_disagreements=ndiff, oracle_failures=bad)
    ctx.cov["exhaustive"] = True
    ctx.cov["traces_validated_against_impl"] += len(cfgs)
    legacy_reply_stream(ctx, "entry-point-shape")
    ctx.cov["rule"] = ("all 2^6 subsets of overridden kinds x migrate handler x reply handler x replies feature x generic contract (1024 programs, "
                       "override order varied, some repeated, in a fifth of the programs with several overrides all of them name one shared function); distinct = (override set, required entry point set)")
    # a failed obligation that the concrete violations explain is not reported twice
    if ctx.violations:
        for o in ctx.obligation_failures:
            o["explained_by_known"] = True
