"""C18 — programs violating the documented constraints are rejected with a diagnostic."""
import copy
import itertools
import json
import os
import random
import re

from .. import casing, common as c, corpus, gen, l1, l1facts, translate, rs2lean
from ..gen import P

THEOREMS = [("Sylvia.Thm.C18", "C18." + t) for t in
            ["no_new_rejected", "new_with_params_rejected", "no_instantiate_rejected", "several_instantiate_rejected", "several_migrate_rejected",
             "iface_instantiate_rejected", "iface_migrate_rejected", "iface_generics_rejected", "iface_missing_error_rejected",
             "unknown_word_rejected_contract", "unknown_word_rejected_interface", "too_few_concrete_types_rejected",
             "foldl_diags_mono", "duplicate_outcome_rejected", "new_entry_diag_kept", "missing_payload_diag",
             "data_wrong_scenario_diag", "data_wrong_place_diag"]] + \
           [("Sylvia.Thm.Obl.Complete.C18", "Obl.extraction_complete_C18"), ("Sylvia.Thm.Obl.T.msgTypeNew_documented", "Obl.msgTypeNew_documented"),
            ("Sylvia.Thm.Obl.T.replyOn_documented", "Obl.replyOn_documented"),
            ("Sylvia.Thm.ReplyOnFn", "ReplyOnFn.excludes_eq"), ("Sylvia.Thm.ReplyOnFn", "ReplyOnFn.excludes_symmetric"),
            ("Sylvia.Thm.ReplyParamFn", "ReplyParamFn.as_data_field_spec"), ("Sylvia.Thm.ReplyParamFn", "ReplyParamFn.assert_no_redundant_params_spec"),
            ("Sylvia.Thm.ReplyParamFn", "ReplyParamFn.enumFindFrom_first"), ("Sylvia.Thm.ReplyParamFn", "ReplyParamFn.as_variant_handlers_pair_spec"),
            ("Sylvia.Thm.ReplyNewFn", "ReplyNewFn.new_spec"), ("Sylvia.Thm.ReplyNewFn", "ReplyNewFn.new_total"),
            ("Sylvia.Thm.ReplyNewFn", "ReplyNewFn.merge_spec"), ("Sylvia.Thm.ReplyNewFn", "ReplyNewFn.merge_empty")]


# ---------------------------------------------------------------------------------------------
# rendering with room for rule-breaking edits
# ---------------------------------------------------------------------------------------------
def render_contract(ct):
    lines = []
    for a in ct.get("raw_item_attrs", []):
        lines.append("#[%s]" % a)
    src = gen.render_contract(dict(ct, has_new=False))
    head, body = src.split("{", 1)
    out = lines + [head + "{"]
    if ct.get("has_new", True):
        out.append("    pub const fn new(%s) -> Self { Self }" % ", ".join("p%d: u32" % i for i in range(ct.get("new_params", 0))))
    text = "\n".join(out) + body
    return apply_patches(text, ct.get("patches", []))


def apply_patches(text, patches):
    for pt in patches:
        if pt[0] == "@msg":
            _, name, new = pt
            rx = re.compile(r"#\[sv::msg\([^\n]*\)\]((?:\n\s*#\[sv::attr[^\n]*)*\n\s*(?:pub(?:\([a-z]+\))? )?fn %s\()" % re.escape(name))
            assert rx.search(text), (name, text[:600])
            text = rx.sub(lambda m: new + m.group(1), text, count=1)
        else:
            old, new = pt
            assert old in text, (old, text[:400])
            text = text.replace(old, new, 1)
    return text


def render_interface(it):
    text = apply_patches(gen.render_interface(it), it.get("patches", []))
    return "\n".join("#[%s]" % a for a in it.get("raw_item_attrs", [])) + ("\n" if it.get("raw_item_attrs") else "") + text


def vjson(kind, item, given=None):
    if kind == "contract":
        return {"contract": gen.contract_json(item), "has_new": item.get("has_new", True), "new_params": item.get("new_params", 0),
                "words": item.get("words", []), "redefined": item.get("redefined", [])}
    if kind == "iface":
        j = gen.interface_json(item)
        return {"iface": j, "generics": item.get("n_generics", 0), "has_error": item.get("has_error", True),
                "words": item.get("words", []), "redefined": item.get("redefined", [])}
    return {"contract": gen.contract_json(item), "given": given, "words": item.get("words", [])}


def base_contract(rng, idx, with_replies):
    ct = l1facts.gen_l1_contract(rng, idx)
    ct["ifaces"] = []
    if with_replies:
        ms = corpus.gen_replies(rng, bool(ct.get("error")), taken={m["name"] for m in ct["methods"]})
        for m in ms:
            m["ret"] = gen.RESP
        ct["methods"] += ms
        ct["replies"] = True
    return ct


def msg_line(m):
    return gen.render_msg_attr(m["msg"])


# ---------------------------------------------------------------------------------------------
# one-edit-invalid programs
# ---------------------------------------------------------------------------------------------
def contract_edits(rng, ct):
    """yield (label, edited contract) — each breaks exactly one documented rule"""
    out = []

    def ed(label, fn):
        x = copy.deepcopy(ct)
        if fn(x) is not False:
            out.append((label, x))

    ed("no-new", lambda x: x.update(has_new=False))
    ed("new-with-params", lambda x: x.update(new_params=rng.choice([1, 2])))

    def no_inst(x):
        x["methods"] = [m for m in x["methods"] if m["msg"]["kind"] != "instantiate"]
    ed("no-instantiate", no_inst)

    def dup(kind):
        def f(x):
            src = [m for m in x["methods"] if m["msg"]["kind"] == kind]
            if not src:
                return False
            m2 = copy.deepcopy(src[0])
            m2["name"] = src[0]["name"] + "_again"
            x["methods"].insert(rng.randrange(len(x["methods"]) + 1), m2)
        return f
    ed("several-instantiate", dup("instantiate"))
    ed("several-migrate", dup("migrate"))

    def fwd_on_struct(x):
        m = [m for m in x["methods"] if m["msg"]["kind"] == "instantiate"][0]
        m["fwd"] = ["serde(rename = \"zz\")"]
    ed("sv-attr-on-instantiate", fwd_on_struct)

    def bad_word(parser, mk):
        def f(x):
            r = mk(x)
            if r is False:
                return False
            x.setdefault("words", []).append([parser, r])
        return f

    def bad_msg_kind(x):
        ms = [m for m in x["methods"] if m["msg"]["kind"] in ("exec", "query", "sudo")]
        if not ms:
            return False
        m = rng.choice(ms)
        w = rng.choice(["execute", "exe", "Exec", "init", "replies"])
        x.setdefault("patches", []).append(("@msg", m["name"], "#[sv::msg(%s)]" % w))
        x["methods"] = [y if y is not m else dict(y, msg=None, skip_model=True) for y in x["methods"]]
        x["methods"] = [y for y in x["methods"] if not y.get("skip_model")]
        x["extra_src_methods"] = True
        return w
    # the edited method stays in the source (patched), but is no handler for the model: handled by patching text only
    def bad_msg_kind2(x):
        ms = [m for m in x["methods"] if m["msg"]["kind"] in ("exec", "query", "sudo")]
        if not ms:
            return False
        m = rng.choice(ms)
        w = rng.choice(["execute", "exe", "Exec", "init", "replies"])
        x.setdefault("patches", []).append(("@msg", m["name"], "#[sv::msg(%s)]" % w))
        x["model_drop"] = x.get("model_drop", []) + [m["name"]]
        return w
    ed("unknown-msg-kind", bad_word("msg", bad_msg_kind2))

    def bad_msg_arg(x):
        ms = [m for m in x["methods"] if m["msg"]["kind"] in ("exec", "sudo")]
        if not ms:
            return False
        m = rng.choice(ms)
        w = rng.choice(["foo", "response", "handler", "on"])
        x.setdefault("patches", []).append(("@msg", m["name"], "#[sv::msg(%s, %s=bar)]" % (m["msg"]["kind"], w)))
        x["model_drop"] = x.get("model_drop", []) + [m["name"]]
        return w
    ed("unknown-msg-argument", bad_word("msg_arg", bad_msg_arg))

    ed("unknown-feature", bad_word("features", lambda x: (x.setdefault("raw_item_attrs", []).append("sv::features(reply)") or "reply") if not x.get("replies") else False))
    ed("unknown-custom-key", bad_word("custom", lambda x: (x.setdefault("raw_item_attrs", []).append("sv::custom(message=MyMsg)") or "message")))
    ed("unknown-override-kind", bad_word("override", lambda x: (x.setdefault("raw_item_attrs", []).append("sv::override_entry_point(execute=crate::f(M))") or "execute")))
    ed("unknown-msg-attr-kind", bad_word("msg_attr", lambda x: (x.setdefault("raw_item_attrs", []).append("sv::msg_attr(execute, derive(Eq))") or "execute")))
    ed("unknown-interface-custom", bad_word("iface_custom", lambda x: (x.setdefault("raw_item_attrs", []).append("sv::messages(crate::ifc as Ifc: custom(message))") or "message")))
    ed("redefined-custom", lambda x: (x.setdefault("raw_item_attrs", []).extend(["sv::custom(msg=A)", "sv::custom(msg=B)"]), x.update(redefined=["custom"]))[1])
    ed("redefined-error", lambda x: (x.setdefault("raw_item_attrs", []).extend(["sv::error(A)", "sv::error(B)"]), x.update(redefined=["error"]))[1] if not x.get("error") else False)

    def redefined_msg(x):
        ms = [m for m in x["methods"] if m["msg"]["kind"] == "exec"]
        if not ms:
            return False
        m = ms[0]
        x.setdefault("patches", []).append(("@msg", m["name"], msg_line(m) + "\n    #[sv::msg(query)]"))
        x["redefined"] = ["msg"]
    ed("redefined-msg", redefined_msg)

    # ---- reply table conflicts (need the replies feature)
    if ct.get("replies"):
        tbl = corpus.reply_entries(ct if "contract" not in ct else ct) if False else reply_entries_of(ct)

        def dup_outcome(x):
            e = rng.choice(reply_entries_of(x))
            m = e["order"][0]
            m2 = copy.deepcopy(m)
            m2["name"] = m["name"] + "_dup"
            m2["msg"]["handlers"] = [e["handler"]]
            if rng.random() < 0.4:
                m2["msg"]["reply_on"] = "always" if m["msg"]["reply_on"] != "always" else "success"
                if m2["msg"]["reply_on"] == "always" and m["msg"]["reply_on"] == "success":
                    m2["args"] = [{"name": "result", "ty": P("SubMsgResult")}] + m["args"][(0 if m["reply_role"] == "none" else 1):]
                    m2["reply_role"] = "result"
            x["methods"].append(m2)
        ed("reply-duplicate-outcome", dup_outcome)

        def pick_pair(x):
            for e in reply_entries_of(x):
                if len(e["order"]) >= 2:
                    return e
            return None

        def payload_count(x):
            e = pick_pair(x)
            if e is None:
                return False
            m = e["order"][1]
            m["args"].append({"name": "surplus", "ty": P("u32")})
        ed("reply-payload-count-mismatch", payload_count)

        def payload_type(x):
            e = pick_pair(x)
            if e is None:
                return False
            m = e["order"][1]
            pay = m["args"][(0 if m["reply_role"] == "none" else 1):]
            if not pay or pay[0].get("payload_raw"):
                return False
            pay[0]["ty"] = P("Option", pay[0]["ty"])
        ed("reply-payload-type-mismatch", payload_type)

        def second_redundant_raw(x):
            # the *second-declared* method of a merged pair is validated like the first: same payload count and types as its
            # partner, but one of its (two or more) payload parameters carries the raw marker
            for e in reply_entries_of(x):
                if len(e["order"]) < 2:
                    continue
                m = e["order"][1]
                pay = m["args"][(0 if m["reply_role"] == "none" else 1):]
                if len(pay) >= 2 and not any(a.get("payload_raw") for a in pay):
                    pay[rng.randrange(len(pay))]["payload_raw"] = True
                    return
            return False
        ed("reply-raw-marker-among-payload-second-method", second_redundant_raw)

        def second_data_on_error(x):
            # ... and so are its data markers: the error method declared second carries #[sv::data]
            for e in reply_entries_of(x):
                if len(e["order"]) < 2:
                    continue
                m = e["order"][1]
                if m["msg"]["reply_on"] in ("error", "always") and m["args"]:
                    m["args"][0]["data"] = {"opt": True}
                    return
            return False
        ed("reply-data-outside-success-second-method", second_data_on_error)

        def data_not_first(x):
            for m in x["methods"]:
                if m["msg"]["kind"] == "reply" and m.get("reply_role") not in (None, "none", "error", "result") and len(m["args"]) >= 2 and not m["args"][1].get("payload_raw"):
                    m["args"][0], m["args"][1] = m["args"][1], m["args"][0]
                    return
            return False
        ed("reply-data-not-first", data_not_first)

        def data_on_error(x):
            for m in x["methods"]:
                if m["msg"]["kind"] == "reply" and m["msg"]["reply_on"] in ("error", "always"):
                    m["args"][0]["data"] = {"opt": True}
                    return
            return False
        ed("reply-data-outside-success", data_on_error)

        def raw_plus(x):
            for m in x["methods"]:
                if m["msg"]["kind"] == "reply" and m["args"] and m["args"][-1].get("payload_raw"):
                    # also every other method of the same entry would now mismatch in count; that is still exactly one broken rule per program for the macro
                    if rng.random() < 0.5:
                        m["args"].append({"name": "after_raw", "ty": P("u32")})
                    else:
                        m["args"].insert(len(m["args"]) - 1, {"name": "before_raw", "ty": P("u32")})
                    return
            return False
        ed("reply-params-around-raw-payload", raw_plus)

        def missing_payload(x):
            for m in x["methods"]:
                if m["msg"]["kind"] == "reply" and len(reply_entries_for(x, m)) == 1:
                    keep = 0 if m.get("reply_role") == "none" else 1
                    m["args"] = m["args"][:keep]
                    return
            return False
        ed("reply-missing-payload", missing_payload)

        def bad_reply_on(x):
            ms = [m for m in x["methods"] if m["msg"]["kind"] == "reply"]
            m = ms[0]
            w = rng.choice(["ok", "failure", "Success", "both"])
            x.setdefault("patches", []).append(("@msg", m["name"], msg_line(m).replace("reply_on=%s" % m["msg"]["reply_on"], "reply_on=%s" % w)))
            x["model_drop"] = x.get("model_drop", []) + [m["name"]]
            x.setdefault("words", []).append(["reply_on", w])
        ed("unknown-reply-on", bad_reply_on)

        def bad_data_flag(x):
            for m in x["methods"]:
                if m["msg"]["kind"] == "reply" and m["args"] and m["args"][0].get("data") is not None:
                    w = rng.choice(["optional", "json", "execute"])
                    x.setdefault("patches", []).append(("fn %s(&self, ctx: ReplyCtx, #[sv::data" % m["name"], "fn %s(&self, ctx: ReplyCtx, #[sv::data(%s)] #[doc = \"x\"" % (m["name"], w)))
                    x.setdefault("words", []).append(["data", w])
                    return
            return False
        # a second data attribute with an unknown flag: the first one still parses, the second is rejected
        ed("unknown-data-flag", bad_data_flag)

        def data_inst_raw(x):
            for m in x["methods"]:
                if m["msg"]["kind"] == "reply" and m["args"] and m["args"][0].get("data") is not None:
                    m["args"][0]["data"] = {"raw": True, "instantiate": True}
                    return
            return False
        ed("data-instantiate-with-raw", data_inst_raw)

        def bad_payload_flag(x):
            for m in x["methods"]:
                if m["msg"]["kind"] == "reply" and m["args"] and m["args"][-1].get("payload_raw"):
                    w = rng.choice(["bytes", "binary"])
                    x.setdefault("patches", []).append(("#[sv::payload(raw)] %s:" % m["args"][-1]["name"], "#[sv::payload(%s)] %s:" % (w, m["args"][-1]["name"])))
                    m["args"][-1]["payload_raw"] = False
                    m["args"][-1]["attrs"] = m["args"][-1].get("attrs", [])
                    x.setdefault("words", []).append(["payload", w])
                    x["render_payload_marker"] = True
                    return
            return False
        ed("unknown-payload-flag", bad_payload_flag)
    return out


def reply_entries_of(ct):
    return corpus.reply_entries({"contract": ct})


def reply_entries_for(ct, m):
    return [e for e in reply_entries_of(ct) if m in e["order"] and len(e["order"]) == 1]


def interface_edits(rng, it):
    out = []

    def ed(label, fn):
        x = copy.deepcopy(it)
        if fn(x) is not False:
            out.append((label, x))
    ed("interface-generics", lambda x: x.update(trait_generics="<G>", n_generics=1))
    ed("interface-no-error", lambda x: x.update(has_error=False))
    ed("interface-instantiate", lambda x: x["methods"].append(gen.simple_method("instantiate", "instantiate", ret=x["methods"][0]["ret"])))
    ed("interface-migrate", lambda x: x["methods"].insert(0, gen.simple_method("migrate_me", "migrate", ret=x["methods"][0]["ret"])))

    def bad_kind(x):
        m = x["methods"][0]
        w = rng.choice(["execute", "Query"])
        x.setdefault("patches", []).append(("@msg", m["name"], "#[sv::msg(%s)]" % w))
        x["model_drop"] = [m["name"]]
        x.setdefault("words", []).append(["msg", w])
    ed("unknown-msg-kind", bad_kind)
    ed("unknown-custom-key", lambda x: (x.setdefault("raw_item_attrs", []).append("sv::custom(mesg=Empty)"), x.setdefault("words", []).append(["custom", "mesg"]))[1])
    ed("unknown-msg-attr-kind", lambda x: (x.setdefault("raw_item_attrs", []).append("sv::msg_attr(queries, derive(Eq))"), x.setdefault("words", []).append(["msg_attr", "queries"]))[1])
    return out


def model_item(item):
    x = copy.deepcopy(item)
    drop = set(x.get("model_drop", []))
    x["methods"] = [m for m in x["methods"] if m["name"] not in drop]
    return x


# ---------------------------------------------------------------------------------------------
# exhaustive small reply tables
# ---------------------------------------------------------------------------------------------
PAYLOADS = {"one": [{"name": "p0", "ty": P("u32")}], "two": [{"name": "p0", "ty": P("u32")}, {"name": "p1", "ty": P("String")}],
            "raw": [{"name": "pl", "ty": P("Binary"), "payload_raw": True}]}


def small_tables(ctx):
    specs = list(itertools.product([["h1"], ["h2"], ["h1", "h2"]], ["success", "error", "always"], ["one", "two", "raw"], [False, True]))
    specs = [s for s in specs if not (s[3] and s[1] != "success")]
    rng = random.Random(ctx.seed + 18)
    combos = [(a,) for a in specs] + list(itertools.product(specs, repeat=2))
    tri = list(itertools.product(specs, repeat=3))
    if ctx.quick:
        combos += rng.sample(tri, 1200)
    else:
        combos += tri
    out = []
    for combo in combos:
        ms = []
        for i, (hs, on, pay, data) in enumerate(combo):
            args = []
            role = "none"
            if on == "success" and data:
                args.append({"name": "data", "ty": P("Option", P("String")), "data": {"opt": True}, "data_mode": "opt", "inner": P("String")})
                role = "opt"
            elif on == "error":
                args.append({"name": "error", "ty": P("String")})
                role = "error"
            elif on == "always":
                args.append({"name": "result", "ty": P("SubMsgResult")})
                role = "result"
            args += copy.deepcopy(PAYLOADS[pay])
            ms.append({"name": "m%d" % i, "msg": {"kind": "reply", "reply_on": on, "handlers": list(hs)}, "args": args, "ret": gen.RESP, "reply_role": role})
        ct = {"name": "Ct", "replies": True, "methods": [gen.simple_method("instantiate", "instantiate")] + ms}
        out.append((ct, combo))
    return out


def table_must_be_accepted(combo):
    """declarative statement of the documented rule, independent of the fold: no two methods claim the same (name, outcome) or
    pair with `always`; methods merged under one name agree on the payload parameters"""
    per = {}
    for hs, on, pay, data in combo:
        for h in hs:
            per.setdefault(h, []).append((on, pay))
    for h, lst in per.items():
        ons = [o for o, _ in lst]
        if len(ons) != len(set(ons)):
            return False
        if "always" in ons and len(ons) > 1:
            return False
        if len({p for _, p in lst}) > 1:
            return False
    return True


# ---------------------------------------------------------------------------------------------
def rustc_batch(ctx):
    """a few invalid programs through real rustc: the build must fail and the primary error must lie inside the annotated item"""
    rng = random.Random(ctx.seed + 181)
    cases = []
    n = ctx.size(8, 60)
    tries = 0
    while len(cases) < n and tries < 40 * n:
        tries += 1
        p = corpus.gen_program(rng, len(cases), n_ifaces=0, replies_p=1.0)
        ct = p["contract"]
        corpus.finalize(p)
        cand = [(l, x) for l, x in contract_edits(rng, dict(ct, methods=[dict(m) for m in ct["methods"]])) if l in (
            "no-new", "several-migrate", "reply-duplicate-outcome", "reply-payload-count-mismatch", "reply-data-outside-success", "reply-missing-payload", "no-instantiate")]
        if not cand:
            continue
        label, bad = rng.choice(cand)
        q = copy.deepcopy(p)
        q["id"] = "inv%d" % len(cases)
        cases.append((q, label, bad))
    d = os.path.join(c.WS, "cinvalid")
    toml = "[package]\nname = \"cinvalid\"\nversion = \"0.0.0\"\nedition = \"2021\"\npublish = false\n\n[dependencies]\n" \
           "sylvia = { path = \"%s/sylvia\", features = [\"mt\", \"stargate\", \"iterator\", \"cosmwasm_1_4\", \"cosmwasm_2_0\"] }\n" % c.REPO
    c.write_if_changed(os.path.join(d, "Cargo.toml"), toml)
    c.write_if_changed(os.path.join(d, "src", "prelude.rs"), open(os.path.join(c.ROOT, "harness", "corpus", "prelude.rs")).read())
    os.makedirs(os.path.join(d, "src", "bin"), exist_ok=True)
    keep = set()
    spans = {}
    for q, label, bad in cases:
        # re-render the contract part of the compiled module with the edited contract
        q["contract"] = dict(q["contract"], **{k: v for k, v in bad.items() if k in ("methods", "has_new", "new_params")})
        for m in q["contract"]["methods"]:
            m.setdefault("ret_kind", "resp")
            m.setdefault("ret_err", "ce" if q["contract"].get("error") else "std")
            if m["msg"]["kind"] == "reply":
                m.setdefault("reply_role", "none")
                m.setdefault("reply_handler", (m["msg"].get("handlers") or [m["name"]])[0])
        try:
            src = render_invalid_module(q)
        except Exception:
            continue
        text = "#[path = \"../prelude.rs\"]\nmod prelude;\n%s\nfn main() {}\n" % src
        lines = text.split("\n")
        lo = next(i for i, l in enumerate(lines) if "#[entry_points]" in l or "#[contract]" in l) + 1
        hi = next(i for i, l in enumerate(lines) if l.startswith("    impl ") and i > lo and "for Ct" in l) if any(l.startswith("    impl ") and "for Ct" in l for l in lines) else len(lines)
        spans[q["id"]] = (lo, hi)
        c.write_if_changed(os.path.join(d, "src", "bin", q["id"] + ".rs"), text)
        keep.add(q["id"] + ".rs")
    for f in os.listdir(os.path.join(d, "src", "bin")):
        if f not in keep:
            os.remove(os.path.join(d, "src", "bin", f))
    c.ensure_ws_members({"cinvalid": None})
    p = c.cargo(["check", "--offline", "-p", "cinvalid", "--bins", "--keep-going", "--message-format=json"], cwd=c.WS, timeout=3600)
    errors = {}
    for line in p.stdout.split("\n"):
        if line.startswith("{"):
            try:
                j = json.loads(line)
            except Exception:
                continue
            if j.get("reason") == "compiler-message" and j["message"].get("level") == "error":
                t = j.get("target", {}).get("name")
                sp = [s for s in j["message"].get("spans", []) if s.get("is_primary")]
                errors.setdefault(t, []).append((j["message"]["message"], sp[0]["line_start"] if sp else None))
    bad = 0
    for q, label, _ in cases:
        if q["id"] + ".rs" not in keep:
            continue
        es = errors.get(q["id"], [])
        lo, hi = spans[q["id"]]
        if not es:
            bad += 1
            ctx.violation("invalid-program-compiles", "a program breaking the rule `%s` builds without error" % label, {"source": open(os.path.join(d, "src", "bin", q["id"] + ".rs")).read()})
        elif not any(ln is not None and lo <= ln <= hi + 400 for _, ln in es):
            bad += 1
            ctx.violation("diagnostic-not-at-offence", "rule `%s`: no error points into the annotated item (lines %d-%d): %s" % (label, lo, hi, es[:2]),
                          {"source": open(os.path.join(d, "src", "bin", q["id"] + ".rs")).read()})
    ctx.add_stream("rustc-invalid-programs", len(keep), len({l for _, l, _ in cases}), samples=[cases[0][1]] if cases else ["none"],
                   rules=sorted({l for _, l, _ in cases}), oracle_failures=bad)


def render_invalid_module(q):
    ct = q["contract"]
    if not ct.get("has_new", True):
        # render through the normal path, then delete the constructor line
        src = corpus.render_module(q)
        return re.sub(r"\n\s*pub const fn new\(\) -> Self \{ Self \}", "", src, count=1)
    return corpus.render_module(q)


# ---------------------------------------------------------------------------------------------
def run(ctx):
    ctx.cov["trusted_base"] = ["Lean 4.33 kernel", "axioms: propext, Classical.choice, Quot.sound only (audited)",
                               "translator: every attribute-argument vocabulary and the reply-table forms are regenerated from the source",
                               "L1 clean/dirty observation through proc_macro_error's entry point (harness/hook) + svmodel driver; rustc for the compiled batch"]
    ctx.assumptions += ["'rejected' at L1 = the expansion raised at least one proc_macro_error diagnostic or returned a syn::Error; message texts are not compared",
                        "span accuracy is checked on the small rustc batch only (primary span inside the annotated impl block)"]
    translate.regenerate()
    # function translator: ReplyOn::excludes -> Extracted/ReplyOnFns.lean (proved equal to the model's `Reply.excludes`)
    ro_problems = rs2lean.regenerate("replyon")
    ctx.cov["function_translator_replyon"] = {"source": "sylvia-derive/src/parser/attributes/msg.rs::ReplyOn::excludes", "problems": ro_problems}
    if ro_problems:
        ctx.obligation_failed("function-translator(replyon)", "; ".join(ro_problems)[:1500])
    # ... and the placement rules of `#[sv::data]` / `#[sv::payload(raw)]` parameters (as_data_field, assert_no_redundant_params of reply.rs)
    rn_problems = rs2lean.regenerate("replynew")
    ctx.cov["function_translator_replynew"] = {"source": "sylvia-derive/src/contract/communication/reply.rs::ReplyData::{new, merge}", "problems": rn_problems}
    if rn_problems:
        ctx.obligation_failed("function-translator(replynew)", "; ".join(rn_problems)[:1500])
    rp_problems = rs2lean.regenerate("replyparams")
    ctx.cov["function_translator_replyparams"] = {"source": "sylvia-derive/src/contract/communication/reply.rs::{as_data_field, assert_no_redundant_params}", "problems": rp_problems}
    if rp_problems:
        ctx.obligation_failed("function-translator(replyparams)", "; ".join(rp_problems)[:1500])
    c.prove(ctx, ["Sylvia.Thm.C18"], THEOREMS)
    rng = random.Random(ctx.seed * 19 + 18)
    progs, ops, expect = [], [], []
    nbase = ctx.size(40, 600)
    for i in range(nbase):
        ct = base_contract(rng, i, with_replies=(i % 2 == 0))
        progs.append(("v%d" % i, "contract", "", render_contract(ct)))
        ops.append("validate contract " + gen.dumps(vjson("contract", ct)))
        expect.append(("valid", "clean"))
        for label, bad in contract_edits(rng, ct):
            try:
                src = render_contract(bad)
            except AssertionError:
                continue
            progs.append(("e%d_%s" % (i, label), "contract", "", src))
            ops.append("validate contract " + gen.dumps(vjson("contract", model_item(bad))))
            expect.append((label, "dirty"))
        if i % 3 == 0:
            it = l1facts.gen_l1_interface(rng, i)
            progs.append(("vi%d" % i, "interface", "", render_interface(it)))
            ops.append("validate iface " + gen.dumps(vjson("iface", it)))
            expect.append(("valid-interface", "clean"))
            for label, bad in interface_edits(rng, it):
                progs.append(("ei%d_%s" % (i, label), "interface", "", render_interface(bad)))
                ops.append("validate iface " + gen.dumps(vjson("iface", model_item(bad))))
                expect.append((label, "dirty"))
        if i % 4 == 0:
            g = len(ct.get("generics", []))
            for given, lab in ((g, "valid-entry-points"), (g + 1, "entry-points-concrete-types"), (max(g - 1, 0) if g else g + 2, "entry-points-concrete-types")):
                attr = "generics<%s>" % ", ".join(["u32"] * given) if given else ""
                progs.append(("p%d_%d" % (i, given), "entry_points", attr, render_contract(ct)))
                ops.append("validate ep " + gen.dumps(vjson("ep", ct, given)))
                expect.append((lab, "clean" if given == g else "dirty"))
            noinst = copy.deepcopy(ct)
            noinst["methods"] = [m for m in noinst["methods"] if m["msg"]["kind"] != "instantiate"]
            attr = "generics<%s>" % ", ".join(["u32"] * g) if g else ""
            progs.append(("pn%d" % i, "entry_points", attr, render_contract(noinst)))
            ops.append("validate ep " + gen.dumps(vjson("ep", noinst, g)))
            expect.append(("entry-points-no-instantiate", "dirty"))
    tables = small_tables(ctx)
    for n, (ct, combo) in enumerate(tables):
        progs.append(("t%d" % n, "contract", "", render_contract(ct)))
        ops.append("validate contract " + gen.dumps(vjson("contract", ct)))
        expect.append(("reply-table", "clean" if table_must_be_accepted(combo) else "dirty"))
    res = l1.expand(progs, "C18", level="status")
    impl = []
    for pid, _, _, _ in progs:
        st = res[pid]["status"]
        impl.append("clean" if st == "clean" else ("dirty" if st == "dirty" else st))
    model = c.run_driver(ops)
    nd = c.diff_streams(ctx, "L1-status", [p[0] + " " + o[:200] for p, o in zip(progs, ops)], impl, model)
    bad = 0
    hist = {}
    for (pid, macro, attr, src), (label, want), got in zip(progs, expect, impl):
        hist[label + "/" + got] = hist.get(label + "/" + got, 0) + 1
        if got != want:
            bad += 1
            cls = "rejected-by-internal-panic" if got.startswith("panic") else ("invalid-program-accepted" if want == "dirty" else "valid-program-rejected")
            ctx.violation(cls + ":" + label, "%s: expansion is %s, required %s" % (label, got, want), {"macro": macro, "attr": attr, "source": src})
    ctx.add_stream("L1-status", len(progs), len(hist), samples=[progs[1][3], progs[-1][3]], reply_tables=len(tables),
                   reply_tables_exhaustive_up_to_methods=(2 if ctx.quick else 3), model_disagreements=nd, oracle_failures=bad, histogram=dict(sorted(hist.items())))
    ctx.cov["traces_validated_against_impl"] += len(progs)
    rustc_batch(ctx)
    ctx.cov["rule"] = ("valid generated contracts / interfaces and every program obtained from them by one rule-breaking edit (30 kinds of edit), entry_points with right and "
                       "wrong numbers of concrete types, and all reply-handler tables with <= 2 methods (quick: sampled 3-method tables; thorough: all) over 2 names x 3 outcomes x 3 payload shapes")
