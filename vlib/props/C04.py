"""C04 — handlers are reachable only through the entry point of their own kind."""
import base64
import json
import random

from .. import casing, common as c, corpus, l2, translate

THEOREMS = [("Sylvia.Thm.C04", "C04." + t) for t in ["kind_separation", "no_cross_kind", "partMethods_kind"]] + \
           [("Sylvia.Thm.Obl.T.accessor_documented", "Obl.accessor_documented"), ("Sylvia.Thm.Obl.T.epName_documented", "Obl.epName_documented"),
            ("Sylvia.Thm.C06Closed", "C06.ep_forwards")]
KINDS = ["exec", "query", "sudo", "instantiate", "migrate"]


def run(ctx):
    ctx.cov["trusted_base"] = ["Lean 4.33 kernel", "axioms: propext, Classical.choice, Quot.sound only (audited)",
                               "L2 corpus harness (echo handlers) + svmodel driver"]
    ctx.assumptions += ["reply handlers are covered by C07's stream (dispatch_reply), multitest's Contract impl by C12"]
    translate.regenerate()
    c.prove(ctx, sorted({m for m, _ in THEOREMS}), THEOREMS)
    progs, exes = l2.get_corpus(ctx)
    rng = random.Random(ctx.seed * 613 + 4)
    ops, meta = {}, {}
    for p in progs:
        lst = ops.setdefault(p["id"], [])
        kind_of = {}
        for k in KINDS:
            for _, pid_, _, ms in l2.parts_of(p, k):
                for m in ms:
                    kind_of["%s.%s" % (pid_, m["name"])] = k
        have = [k for k in KINDS if k != "migrate" or any(m["msg"]["kind"] == "migrate" for m in p["contract"]["methods"])]
        for k1 in have:
            for idx, pid_, label, ms in l2.parts_of(p, k1):
                if k1 in ("instantiate", "migrate") and pid_ != "ct":
                    continue
                for m in ms:
                    fields = l2.valid_fields(rng, m)
                    docs = [l2.msg_doc(k1, m, fields)]
                    if k1 in ("instantiate", "migrate"):
                        # also dressed up as an enum message, in case an enum entry point would take it
                        docs.append(l2.obj_text([(casing.wire_name(m["name"]), l2.obj_text(fields))]))
                    else:
                        docs.append(l2.obj_text(fields))   # flat body sent to struct entry points
                    for k2 in have:
                        if k2 == k1:
                            continue
                        for doc in docs:
                            for via in ("entry", "disp"):
                                op = "%s %s - alice 0 1 sd %s" % (via, k2, doc)
                                lst.append(op)
                                meta[(p["id"], op)] = (k1, k2, kind_of)
    rows, ndiff = l2.execute(ctx, "L2-cross-kind", progs, exes, ops)
    l2.report_diffs(ctx, "L2-cross-kind", rows)
    progs_by_id = {p["id"]: p for p in progs}
    bad, ran, pairs = 0, 0, set()
    for pid, op, a, b in rows:
        k1, k2, kind_of = meta[(pid, op)]
        pairs.add((k1, k2))
        if a.startswith("ok "):
            ran += 1
            rest = a[3:]
            hid = None
            if rest.startswith("ran="):
                hid = rest[4:].split("|")[0]
            elif '"ran","' in rest:
                hid = rest.split('"ran","')[1].split('"')[0]
            elif rest.startswith('"'):
                # a query answering with a String or with Binary (base64 of the same text)
                try:
                    s = json.loads(rest)
                    if not s.startswith("ran="):
                        s = base64.b64decode(s).decode("utf8", "replace")
                    if s.startswith("ran="):
                        hid = s[4:].split("|")[0]
                except Exception:
                    hid = None
            hk = kind_of.get(hid)
            if hk != k2:
                bad += 1
                ctx.violation("cross-kind-reach", "a %s message sent to the %s entry point ran %s (a %s handler)" % (k1, k2, hid, hk),
                              {"program": corpus.render_module(progs_by_id[pid]), "op": "%s %s" % (pid, op), "observed": a})
        elif a.startswith("err ") or "PANIC" in a:
            bad += 1
            ctx.violation("cross-kind-reach", "unexpected handler outcome for a foreign message: %s" % a[:200],
                          {"program": corpus.render_module(progs_by_id[pid]), "op": "%s %s" % (pid, op), "observed": a})
    ctx.add_stream("L2-cross-kind", len(rows), len({r[1] for r in rows}), samples=[r[1] for r in rows[:3]], programs=len(progs),
                   ordered_kind_pairs=len(pairs), foreign_messages_that_ran_a_same_named_handler_of_the_right_kind=ran,
                   model_disagreements=ndiff, oracle_failures=bad)
    ctx.cov["traces_validated_against_impl"] += len(rows)
    # contracts without the `replies` feature: which method the reply entry point hands the `Reply` to (expansion level)
    from . import C06
    C06.legacy_reply_stream(ctx, "cross-kind-reach")
    # contracts overriding entry points on a multitest chain (override attributes in several orders): the operation of a kind runs the
    # override / the handlers of that kind and of no other
    from . import C12
    C12.override_stream(ctx, cls_not_called="cross-kind-reach")
    ctx.cov["rule"] = ("every well-formed message of kind K1 of every generated program sent to every other entry point K2 (through entry_points::<K2> and "
                       "through <K2 message>::dispatch); programs deliberately share method names across kinds between contract and interfaces")
