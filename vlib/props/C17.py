"""C17 — forwarded attributes land on exactly the designated item."""
import json

from .. import common as c, gen, l1facts, l1stream, translate

THEOREMS = [("Sylvia.Thm.C17", "C17." + t) for t in
            ["msg_attr_placement", "struct_attr_placement", "variant_attr_placement", "variants_in_order", "field_attr_placement",
             "field_attrs_exact", "default_takes_effect", "default_is_forwarded"]] + \
           [("Sylvia.Thm.Obl.T.msgAttrFwd_is_msgType", "Obl.msgAttrFwd_is_msgType"), ("Sylvia.Thm.Obl.Complete.C17", "Obl.extraction_complete_C17")]
MSG_OF = {"exec": "ExecMsg", "query": "QueryMsg", "sudo": "SudoMsg", "instantiate": "InstantiateMsg", "migrate": "MigrateMsg"}


def oracle(kind_item, item, obs, trait=None):
    """the property on observable facts: every forwarded attribute sits exactly where it was designated"""
    errs = []
    by_name = {m["name"]: m for m in obs["msgs"]}
    for k, tname in MSG_OF.items():
        full = (trait or "") + tname
        if full not in by_name:
            continue
        want = [gen.norm(a) for kk, a in item.get("msg_attrs", []) if kk == k]
        got = [a for a in by_name[full]["attrs"] if a != 'serde(rename_all="snake_case")']
        if got != want:
            errs.append("type %s carries %s, designated %s" % (full, got, want))
        ms = [m for m in item["methods"] if m.get("msg") and m["msg"]["kind"] == k]
        vs = [v for v in by_name[full]["variants"] if v["name"] not in ("_Phantom",)]
        if k in ("instantiate", "migrate"):
            fields = vs[0]["fields"] if vs else []
            wantf = [[gen.norm(x) for x in a.get("attrs", [])] for a in (ms[0]["args"] if ms else [])]
            if [f["attrs"] for f in fields] != wantf:
                errs.append("fields of %s carry %s, written %s" % (full, [f["attrs"] for f in fields], wantf))
            continue
        for m, v in zip(ms, vs):
            fwd = [a for a in v["attrs"] if not a.startswith("returns(")]
            if fwd != [gen.norm(x) for x in m.get("fwd", [])]:
                errs.append("variant %s of %s carries %s, forwarded %s" % (v["name"], full, fwd, m.get("fwd", [])))
            gotf = [f["attrs"] for f in v["fields"]]
            wantf = [[gen.norm(x) for x in a.get("attrs", [])] for a in m["args"]]
            if gotf != wantf:
                errs.append("fields of %s::%s carry %s, written %s" % (full, v["name"], gotf, wantf))
    return errs


def run(ctx):
    ctx.cov["trusted_base"] = ["Lean 4.33 kernel", "axioms: propext, Classical.choice, Quot.sound only (audited)",
                               "translator: MsgAttrForwarding kind table regenerated from attr.rs", "L1 fact extractor (harness/hook) + svmodel driver"]
    ctx.assumptions += ["the effect of a forwarded `serde(default)` on the wire is exercised by the missing-field documents of the C03/C01 streams on compiled contracts",
                        "the fixed derive block (derive(Serialize,..), serde(crate=..), schemars(crate=..)) is not compared"]
    translate.regenerate()
    c.prove(ctx, ["Sylvia.Thm.C17"], THEOREMS)
    cts, ifs = l1stream.build(ctx, ctx.size(700, 20000), ctx.size(250, 8000), seed_salt=17)
    ops, impl, model, meta = l1stream.run(ctx, "L1-facts", cts, ifs, "C17")
    nd = c.diff_streams(ctx, "L1-facts", ops, impl, model)
    bad = 0
    distinct = set()
    nattr = 0
    for a, m in zip(impl, meta):
        if m is None:
            continue
        pid, item, src, status = m
        if status != "clean":
            ctx.violation("valid-program-rejected", "generated program %s is rejected by the macro (%s)" % (pid, status), {"source": src})
            continue
        obs = json.loads(a)
        errs = oracle(pid[0], item, obs, trait=item["name"] if pid[0] == "i" else None)
        nattr += len(item.get("msg_attrs", [])) + sum(len(x.get("fwd", [])) + sum(len(y.get("attrs", [])) for y in x["args"]) for x in item["methods"])
        distinct.add(json.dumps([item.get("msg_attrs"), [[x.get("fwd"), [y.get("attrs") for y in x["args"]]] for x in item["methods"]]]))
        if errs:
            bad += 1
            ctx.violation("attribute-misplaced", "; ".join(errs)[:500], {"source": src, "observed": obs["msgs"]})
    ctx.add_stream("L1-facts", len([m for m in meta if m]), len(distinct), samples=[meta[2][2], meta[-1][2]],
                   forwarded_attributes_placed=nattr, model_disagreements=nd, oracle_failures=bad)
    ctx.cov["traces_validated_against_impl"] += len([m for m in meta if m])
    ctx.cov["rule"] = ("generated contracts and interfaces with 0..3 sv::msg_attr per item over all kinds, sv::attr on handlers, attributes on arguments; "
                       "distinct = distinct placement patterns")
