"""C14 — behaviour does not depend on the order of declarations."""
import copy
import json
import random
import re

from .. import casing, common as c, corpus, gen, l1, l1facts, l2, replies, translate, rs2lean
from . import C18

THEOREMS = [("Sylvia.Thm.C14", "C14." + t) for t in
            ["variantsOf_perm", "nameList_perm", "variantSpecs_perm", "dispatch_target_perm", "entryPoints_perm", "trigger_perm",
             "compatible_perm", "reply_routing_perm", "countKind_perm"]] + \
           [("Sylvia.Lemmas.Sort", "Sylvia.Gen.sortStrings_perm_eq"), ("Sylvia.Lemmas.Reply", "Sylvia.Reply.replyTable_ok")]

THEOREMS = THEOREMS + [("Sylvia.Thm.ReplyOnFn", "ReplyOnFn.excludes_eq"), ("Sylvia.Thm.ReplyOnFn", "ReplyOnFn.excludes_symmetric"), ("Sylvia.Thm.ReplyDataFn", "ReplyDataFn.emit_cw_reply_on_eq")]


def canon_facts(obs):
    """facts with everything positional removed: variants / fields as sets, generics and predicates as sets, reply ids as a set"""
    if obs is None:
        return None
    out = {"lists": obs["lists"], "reply_ids": sorted(obs.get("reply_ids", [])), "msgs": {}}
    for m in obs["msgs"]:
        out["msgs"][m["name"]] = {
            "generics": sorted(m["generics"]), "wheres": sorted(m["wheres"]), "attrs": m["attrs"],
            "dispatch_generics": sorted(m["dispatch_generics"]),
            "variants": sorted([json.dumps({"name": v["name"], "attrs": v["attrs"] if v["name"] != "_Phantom" else "phantom",
                                            "fields": v["fields"] if v["name"] != "_Phantom" else "phantom"}, sort_keys=True) for v in m["variants"]]),
        }
    return json.dumps(out, sort_keys=True)


def permute(rng, item, is_contract):
    t = copy.deepcopy(item)
    rng.shuffle(t["methods"])
    if is_contract:
        if t.get("overrides"):
            rng.shuffle(t["overrides"])
        if t.get("ifaces"):
            rng.shuffle(t["ifaces"])
        order = [("messages", i) for i in t.get("ifaces", [])] + [("override", w) for w in t.get("overrides", [])] + [("msg_attr", a) for a in t.get("msg_attrs", [])]
        # interleave the repeatable attributes, keeping msg_attr's relative order (it decides the order of forwarded attributes on a type)
        idx = list(range(len(order)))
        rng.shuffle(idx)
        ma = [o for o in order if o[0] == "msg_attr"]
        mixed = [order[i] for i in idx]
        it = iter(ma)
        t["attr_order"] = [next(it) if o[0] == "msg_attr" else o for o in mixed]
    return t


def l1_twins(ctx):
    rng = random.Random(ctx.seed * 23 + 14)
    n = ctx.size(250, 6000)
    progs, pairs = [], []
    for i in range(n):
        kind = rng.random()
        if kind < 0.7:
            base = C18.base_contract(rng, i, with_replies=rng.random() < 0.6)
            base["overrides"] = rng.sample(["exec", "query", "sudo", "migrate", "reply", "instantiate"], rng.choice([0, 0, 1, 2, 3]))
            if rng.random() < 0.25:
                # sometimes an invalid program: acceptance must not depend on the order either
                edits = C18.contract_edits(rng, base)
                edits = [e for e in edits if not e[1].get("patches")]
                if edits:
                    base = rng.choice(edits)[1]
            render = C18.render_contract
            macro = "contract"
        else:
            base = l1facts.gen_l1_interface(rng, i)
            render = C18.render_interface
            macro = "interface"
        twins = [permute(rng, base, macro == "contract") for _ in range(2)]
        try:
            srcs = [render(base)] + [render(t) for t in twins]
        except AssertionError:
            continue
        for j, s in enumerate(srcs):
            progs.append(("w%d_%d" % (i, j), macro, "", s))
            if macro == "contract":
                progs.append(("x%d_%d" % (i, j), "entry_points", "generics<%s>" % ", ".join(["u32"] * len(base.get("generics", []))) if base.get("generics") else "", s))
        pairs.append((i, macro, base, srcs))
    res = l1.expand(progs, "C14")
    bad = 0
    shapes = set()
    for i, macro, base, srcs in pairs:
        outs = []
        for j in range(len(srcs)):
            f = res["w%d_%d" % (i, j)]
            status = "clean" if f["status"] == "clean" else "rejected"
            facts = canon_facts(l1facts.observed(f, trait_name=base["name"] if macro == "interface" else None)) if status == "clean" else None
            eps = None
            if macro == "contract":
                g = res["x%d_%d" % (i, j)]
                mod = l1.find_mod(g.get("items"), "entry_points")
                eps = (g["status"] == "clean", sorted(it["name"] for it in mod["items"] if it["k"] == "fn") if mod else None)
            outs.append((status, facts, eps))
        shapes.add((macro, len(base["methods"]), outs[0][0]))
        for j in range(1, len(outs)):
            if outs[j] != outs[0]:
                bad += 1
                what = "acceptance" if outs[j][0] != outs[0][0] else ("entry points" if outs[j][2] != outs[0][2] else "generated message types")
                ctx.violation("order-dependent-" + what.replace(" ", "-"), "%s differs between two declaration orders of the same %s" % (what, macro),
                              {"order_a": srcs[0], "order_b": srcs[j], "a": outs[0], "b": outs[j]})
                break
    ctx.add_stream("L1-twins", len(progs), len(shapes), samples=[pairs[0][3][0], pairs[0][3][1]], programs=len(pairs), orders_per_program=3, oracle_failures=bad)
    ctx.cov["traces_validated_against_impl"] += len(progs)


def reply_table_orders(ctx):
    """acceptance of a reply-handler table must not depend on the order in which its methods are declared:
    every 2-method table in both orders, 3-method tables in all six orders (sampled in the quick tier)"""
    import itertools
    rng = random.Random(ctx.seed * 31 + 14)
    tables = C18.small_tables(ctx)
    groups = {}
    for ct, combo in tables:
        if len(combo) == 2:
            groups.setdefault(tuple(sorted(map(repr, combo))), []).append((ct, combo))
    tri = [(ct, combo) for ct, combo in tables if len(combo) == 3]
    rng.shuffle(tri)
    extra = []
    for ct, combo in tri[: ctx.size(120, 3000)]:
        ms = [m for m in ct["methods"] if m["msg"]["kind"] == "reply"]
        rest = [m for m in ct["methods"] if m["msg"]["kind"] != "reply"]
        for perm in itertools.permutations(range(3)):
            t = dict(ct, methods=rest + [ms[i] for i in perm])
            groups.setdefault(("tri", repr(combo)), []).append((t, tuple(combo[i] for i in perm)))
    progs = []
    index = []
    for key, members in groups.items():
        for j, (ct, combo) in enumerate(members):
            pid = "o%d_%d" % (len(index), j)
            progs.append((pid, "contract", "", C18.render_contract(ct)))
        index.append((key, members, [p[0] for p in progs[-len(members):]]))
    res = l1.expand(progs, "C14o", level="status")
    src = {p[0]: p[3] for p in progs}
    bad = 0
    for key, members, pids in index:
        sts = ["clean" if res[p]["status"] == "clean" else "rejected" for p in pids]
        if len(set(sts)) > 1:
            bad += 1
            a = pids[sts.index("clean")]
            b = pids[sts.index("rejected")]
            ctx.violation("order-dependent-acceptance", "a reply-handler table is accepted in one declaration order and rejected in another",
                          {"accepted_order": src[a], "rejected_order": src[b]})
    ctx.add_stream("L1-reply-table-orders", len(progs), len(index), samples=[progs[0][3]], tables=len(index), oracle_failures=bad,
                   exhaustive_two_method_tables=True)
    ctx.cov["traces_validated_against_impl"] += len(progs)


def l2_twins(ctx):
    rng = random.Random(ctx.seed * 29 + 41)
    n = ctx.size(10, 120)
    base, twin = [], []
    for i in range(n):
        p = corpus.gen_program(rng, 2 * i, replies_p=0.8)
        q = copy.deepcopy(p)
        q["id"] = "p%d" % (2 * i + 1)
        rng.shuffle(q["contract"]["methods"])
        for it in q["ifaces"]:
            rng.shuffle(it["methods"])
        order = list(range(len(q["ifaces"])))
        rng.shuffle(order)
        q["ifaces"] = [q["ifaces"][k] for k in order]
        q["contract"]["ifaces"] = [q["contract"]["ifaces"][k] for k in order]
        base.append(p)
        twin.append(q)
    try:
        exes = corpus.build_corpus("tw", base + twin, nshards=16)
    except c.BuildError as e:
        failing = set(re.findall(r"src/(p\d+)_mod\.rs", e.out))
        keep_b, keep_t = [], []
        for p, q in zip(base, twin):
            fa, fb = p["id"] in failing, q["id"] in failing
            if fa != fb:
                m = re.search(r"(error[^\n]*\n(?:[^\n]*\n){0,6}?[^\n]*%s_mod\.rs[^\n]*)" % (p["id"] if fa else q["id"]), e.out)
                ctx.violation("order-dependent-acceptance", "one declaration order of a program compiles, the other does not: %s" % ((m.group(1) if m else "")[:300].replace("\n", " | ")),
                              {"compiles": corpus.render_module(q if fa else p), "does_not_compile": corpus.render_module(p if fa else q)})
            if not fa and not fb:
                keep_b.append(p)
                keep_t.append(q)
        if len(keep_b) == len(base):
            raise
        base, twin = keep_b, keep_t
        exes = corpus.build_corpus("tw", base + twin, nshards=16)
    ops_a, ops_b = [], []
    for p, q in zip(base, twin):
        r2 = random.Random(hash(p["id"]) & 0xffff)
        items = []
        for kind in ("exec", "query", "sudo", "instantiate", "migrate"):
            for idx, pid_, label, ms in l2.parts_of(p, kind):
                if kind in ("instantiate", "migrate") and pid_ != "ct":
                    continue
                for m in ms:
                    f = l2.valid_fields(r2, m)
                    doc = l2.msg_doc(kind, m, f)
                    items.append("entry %s - alice 3 9 sd %s" % (kind, doc))
                    items.append("entry %s %s.%s alice 0 9 sd %s" % (kind, pid_, m["name"], doc))
                    if kind in ("exec", "query", "sudo"):
                        items.append("dew %s %s" % (kind, doc))
                        items.append("dew %s %s" % (kind, l2.obj_text([(casing.wire_name(m["name"]) + "_x", l2.obj_text(f))])))
        for kind in ("exec", "query", "sudo"):
            items.append("lists " + kind)
        ta = {e["handler"]: i for i, e in enumerate(corpus.reply_entries(p))}
        tb = {e["handler"]: i for i, e in enumerate(corpus.reply_entries(q))}
        names_a = {i: h for h, i in ta.items()}
        reply_items = [op for op, _, _ in replies.reply_ops(r2, p) + replies.builder_ops(r2, p) if not op.startswith("rids")]
        for op in items:
            ops_a.append("%s %s" % (p["id"], op))
            # `lists` prints one list per part in part order: compare as a set of lists below
            ops_b.append("%s %s" % (q["id"], op))
        for op in reply_items:
            parts = op.split(" ")
            if parts[0] in ("reply", "submsg", "rt"):
                ia = int(parts[1])
                if ia not in names_a:
                    continue   # unknown-id probes are not order related
                ib = tb[names_a[ia]]
                ops_a.append("%s %s" % (p["id"], op))
                ops_b.append("%s %s" % (q["id"], " ".join([parts[0], str(ib)] + parts[2:])))
    out_a = corpus.run_ops(exes, ops_a)
    out_b = corpus.run_ops(exes, ops_b)
    bad = 0
    by = {p["id"]: (p, q) for p, q in zip(base, twin)}
    for oa, ob, ra, rb in zip(ops_a, ops_b, out_a, out_b):
        a, b = ra, rb
        if " lists " in oa:
            a, b = sorted(ra.split("|")), sorted(rb.split("|"))
        if oa.split(" ")[1] == "submsg":
            a, b = re.sub(r"^id=\d+ ", "", ra), re.sub(r"^id=\d+ ", "", rb)   # numeric reply ids may differ
        if " dew " in oa and ra.startswith("unknown "):
            # the supported-message list follows the order of the parts: compare as a set of names
            a = (ra.split("Messages supported by this contract:")[0], sorted(x.strip() for x in ra.split("contract:")[-1].split(",")))
            b = (rb.split("Messages supported by this contract:")[0], sorted(x.strip() for x in rb.split("contract:")[-1].split(",")))
        if a != b:
            bad += 1
            p, q = by[oa.split(" ")[0]]
            cls = "order-dependent-behaviour"
            if oa.split(" ")[1] in ("reply", "rt", "submsg"):
                # which reply table entry the operation addresses; a `#[sv::payload(raw)]` marker on one only of its two merged methods?
                ent = corpus.reply_entries(p)
                ia = int(oa.split(" ")[2])
                if ia < len(ent):
                    marks = {bool(a_.get("payload_raw")) for m_ in ent[ia]["order"] for a_ in m_["args"] if a_.get("payload_raw") or a_.get("echo_raw")}
                    if marks == {True, False}:
                        cls = "one-sided-raw-payload-marker"
            ctx.violation(cls, "op %s: %s vs (reordered program) %s" % (oa[:120], ra[:200], rb[:200]),
                          {"order_a": corpus.render_module(p), "order_b": corpus.render_module(q), "op_a": oa, "op_b": ob})
    ctx.add_stream("L2-twins", len(ops_a) * 2, len(set(ops_a)), samples=ops_a[:2], programs=len(base), oracle_failures=bad)
    ctx.cov["traces_validated_against_impl"] += len(ops_a) * 2


def run(ctx):
    ctx.cov["trusted_base"] = ["Lean 4.33 kernel", "axioms: propext, Classical.choice, Quot.sound only (audited)",
                               "L1 fact extractor (harness/hook), L2 corpus harness"]
    ctx.assumptions += ["numeric reply ids and the order of the type parameters of generic message types follow the declaration order (positional by design; the latter "
                        "changes how `ExecMsg<A, B>` must be spelled, recorded in DESIGN)",
                        "the order of attributes forwarded to one type follows the order of the sv::msg_attr attributes and is kept fixed in the twins"]
    translate.regenerate()
    # function translator: ReplyOn::excludes -> Extracted/ReplyOnFns.lean (proved equal to the model's `Reply.excludes`)
    ro_problems = rs2lean.regenerate("replyon")
    ctx.cov["function_translator_replyon"] = {"source": "sylvia-derive/src/parser/attributes/msg.rs::ReplyOn::excludes", "problems": ro_problems}
    if ro_problems:
        ctx.obligation_failed("function-translator(replyon)", "; ".join(ro_problems)[:1500])
    rd_problems = rs2lean.regenerate("replydata")
    ctx.cov["function_translator_replydata"] = {"source": "sylvia-derive/src/contract/communication/reply.rs::ReplyData::emit_cw_reply_on", "problems": rd_problems}
    if rd_problems:
        ctx.obligation_failed("function-translator(replydata)", "; ".join(rd_problems)[:1500])
    c.prove(ctx, ["Sylvia.Thm.C14"], THEOREMS)
    l1_twins(ctx)
    reply_table_orders(ctx)
    l2_twins(ctx)
    ctx.cov["rule"] = ("every generated program (valid, and one-edit-invalid) against two random reorderings of its handler methods, interface / override attributes: acceptance, generated "
                       "message types as sets, routing lists, entry points (L1); compiled programs against a reordered twin: routing, dispatch, unknown-name errors, reply "
                       "behaviour and builders by handler name (L2)")
