"""C12 — multitest proxies are equivalent to sending the raw JSON message."""
import random
import re

from .. import casing, common as c, corpus, l2, ovbins, translate, rs2lean

THEOREMS = [("Sylvia.Thm.C12", "C12." + t) for t in
            ["lower_outcome", "step_equiv", "history_equiv", "failed_step_keeps_state", "handler_error_surfaces",
             "inst_defaults", "inst_last_writer_wins", "inst_setters_commute", "inst_shape", "exec_shape", "demo_wf"]] + \
           [("Sylvia.Thm.C12WF", "C12.progWFb_sound")] + \
           [("Sylvia.Thm.Obl.Multitest", "Obl." + t) for t in ["mt_no_unwrapping_downcast", "mt_proxy_ops", "mt_inst_defaults", "mt_inst_setters", "mt_forms", "mt_forms_all",
                                                               "mt_contract_bodies"]] + \
           [("Sylvia.Thm.Obl.Complete.C12", "Obl.extraction_complete_C12"), ("Sylvia.Thm.C02", "C02.dispatch_exact"), ("Sylvia.Thm.C02", "C02.dispatch_exact_struct"),
            ("Sylvia.Thm.C05Gen", "C05.parts_faithful_closed")] + \
           [("Sylvia.Thm.MtProxyFn", "MtProxyFn." + t) for t in ["downcast_error_eq", "exec_call_eq", "migrate_call_eq", "withAll_eq"]]

ACCOUNTS = ["alice", "bob", "carol"]


def hx(s):
    return "x" + s.encode().hex()


def gen_history(rng, p, nsteps):
    """(proxy steps, expected raw steps by the python statement of the proxies, kinds)"""
    ct = p["contract"]
    inst = [m for m in ct["methods"] if m["msg"]["kind"] == "instantiate"][0]
    mig = [m for m in ct["methods"] if m["msg"]["kind"] == "migrate"]
    H, R, K = [], [], []

    def add(h, r, k):
        H.append(h)
        R.append(r)
        K.append(k)

    ncodes, nslots = 0, 0
    admins = []
    salts = ["0102", "ff", "00"]
    handler_ids = []
    for kind in ("exec", "query", "sudo", "migrate"):
        for idx, pid_, label, ms in l2.parts_of(p, kind):
            for m in ms:
                handler_ids.append("%s.%s" % (pid_, m["name"]))

    def do_store():
        nonlocal ncodes
        add("store", "store", "store")
        ncodes += 1

    def do_inst():
        nonlocal nslots
        code = rng.randrange(ncodes)
        sender = rng.choice(ACCOUNTS + (["failer"] if rng.random() < 0.15 else []))
        vals = [corpus.rand_value(rng, a["ty"]) for a in inst["args"]]
        body = l2.obj_text([(a["name"], corpus.jtext(v)) for a, v in zip(inst["args"], vals)])
        opts = {"f": 0, "l": "Contract", "a": None, "s": None}
        setters = []
        for _ in range(rng.choice([0, 1, 2, 3, 4, 6])):
            k = rng.choice("laafs")
            if k == "l":
                v = rng.choice(["x", "my label", "Contract2"] + ([""] if rng.random() < 0.2 else []))
                setters.append("l=" + v.encode().hex())
                opts["l"] = v
            elif k == "a":
                v = rng.choice(ACCOUNTS + [None] + (["~"] if rng.random() < 0.3 else []))     # `~`: the empty string as admin
                setters.append("a=" + (v or "-"))
                opts["a"] = v
            elif k == "f":
                v = rng.choice([0, 5, 17, 2000] if rng.random() < 0.3 else [0, 5, 17])
                setters.append("f=%d" % v)
                opts["f"] = v
            else:
                v = rng.choice(salts + [None])
                setters.append("s=" + (v or "-"))
                opts["s"] = v
        add("inst:%d:%s:%s:%s" % (code, sender, "/".join(setters) or "-", hx(corpus.jtext(vals))),
            "inst:%d:%s:%d:%s:%s:%s:%s" % (code, sender, opts["f"], opts["l"].encode().hex(), opts["a"] or "-", opts["s"] or "-", hx(body)), "inst")
        nslots += 1
        admins.append(opts["a"])

    def pick(kind):
        cands = [(idx, pid_, m) for idx, pid_, label, ms in l2.parts_of(p, kind) for m in ms]
        return rng.choice(cands) if cands else None

    do_store()
    if rng.random() < 0.5:
        do_store()
    do_inst()
    while len(H) < nsteps:
        r = rng.random()
        slot = rng.randrange(nslots)
        if r < 0.12:
            do_inst()
        elif r < 0.16:
            do_store()
        elif r < 0.28:
            marker = rng.choice(handler_ids + ["-"]) if handler_ids else "-"
            add("setfail:%d:%s" % (slot, hx(marker)), "setfail:%d:%s" % (slot, hx(marker)), "setfail")
        elif r < 0.58:
            t = pick("exec")
            if not t:
                continue
            idx, pid_, m = t
            vals = [corpus.rand_value(rng, a["ty"]) for a in m["args"]]
            doc = l2.msg_doc("exec", m, [(a["name"], corpus.jtext(v)) for a, v in zip(m["args"], vals)])
            sender = rng.choice(ACCOUNTS + (["failer"] if rng.random() < 0.1 else []))
            # `z`: a coin list holding one zero-amount coin (the bank refuses it; a proxy must hand it over as given)
            funds = rng.choice(["-", "0", "7", "3", "5000", "z"] if rng.random() < 0.3 else ["-", "0", "7", "3"])
            add("exec:%d:%d:%s:%s:%s:%s" % (slot, idx, m["name"], sender, funds, hx(corpus.jtext(vals))),
                "exec:%d:%s:%s:%s" % (slot, sender, "0" if funds == "-" else funds, hx(doc)), "exec")
        elif r < 0.72:
            t = pick("query")
            if not t:
                continue
            idx, pid_, m = t
            vals = [corpus.rand_value(rng, a["ty"]) for a in m["args"]]
            doc = l2.msg_doc("query", m, [(a["name"], corpus.jtext(v)) for a, v in zip(m["args"], vals)])
            add("query:%d:%d:%s:%s" % (slot, idx, m["name"], hx(corpus.jtext(vals))), "query:%d:%s" % (slot, hx(doc)), "query")
        elif r < 0.86:
            t = pick("sudo")
            if not t:
                continue
            idx, pid_, m = t
            vals = [corpus.rand_value(rng, a["ty"]) for a in m["args"]]
            doc = l2.msg_doc("sudo", m, [(a["name"], corpus.jtext(v)) for a, v in zip(m["args"], vals)])
            add("sudo:%d:%d:%s:%s" % (slot, idx, m["name"], hx(corpus.jtext(vals))), "sudo:%d:%s" % (slot, hx(doc)), "sudo")
        elif mig:
            vals = [corpus.rand_value(rng, a["ty"]) for a in mig[0]["args"]]
            body = l2.obj_text([(a["name"], corpus.jtext(v)) for a, v in zip(mig[0]["args"], vals)])
            sender = admins[slot] if admins[slot] and rng.random() < 0.75 else rng.choice(ACCOUNTS)
            nc = rng.randrange(ncodes) if rng.random() < 0.85 else 7
            add("mig:%d:%s:%d:%s" % (slot, sender, nc, hx(corpus.jtext(vals))), "mig:%d:%s:%d:%s" % (slot, sender, nc, hx(body)), "mig")
    return H, R, K


CHAIN_ERRS = [("empty coins amount", "empty-coins"), ("Cannot Sub", "funds"), ("already exists", "duplicate"), ("Only admin", "not-admin"), ("unregistered code id", "bad-code"), ("Label is required", "no-label")]


def canon_result(text, kind, side):
    """canonical result of one step. side: 'A' proxies (typed error, exact text), 'B' raw (root cause)"""
    if not text.startswith("err"):
        return text
    m = re.search(r"fail:([\w.]+)", text)
    if m:
        if kind == "query" or side == "B" or side == "X":
            return "err handler *" + m.group(1)
        return "err handler " + text[4:]
    for needle, cls in CHAIN_ERRS:
        if needle in text:
            return "err chain " + cls
    if "Error parsing" in text:
        return "err decode"
    if "Error executing WasmMsg" in text:
        return "err chain *"    # the chain's own refusal, converted into a generic error: anyhow prints the outermost context only
    return text


def same_result(x, y):
    if x.startswith("err chain ") and y.startswith("err chain ") and (x.endswith(" *") or y.endswith(" *")):
        return True
    return x == y


def model_result(text, kind, side):
    if text.startswith("err handler ") and (kind == "query" or side in ("B", "X")):
        m = re.search(r"fail:([\w.]+)", text)
        return "err handler *" + (m.group(1) if m else "?")
    return text


def split_steps(line):
    return [tuple(s.split(" @@ ", 1)) if " @@ " in s else (s, "") for s in line.split(" ;; ")]


def override_stream(ctx, cls_not_called="override-not-called"):
    """`impl cw_multi_test::Contract`: an overridden operation calls the override (with the decoded message / the Reply), the others dispatch"""
    exes, errors = ovbins.build()
    bad = 0
    for s in ovbins.SETS:
        n = ovbins.name_of(s)
        if n in errors:
            bad += 1
            ctx.violation("valid-program-rejected", "a contract overriding the entry point(s) %s does not compile with the mt feature: %s" % (", ".join(s) or "none", errors[n][0][:240]),
                          {"program": ovbins.source_of(s), "rustc": errors[n][:3], "how": "cargo build of the generated bin with sylvia features mt"})
            continue
        out = c.sh([exes[n]]).stdout.strip()
        want = ovbins.expected(s)
        if out != want:
            bad += 1
            diff = [(x, y) for x, y in zip(out.split("; "), want.split("; ")) if x != y][:1] or [(out[:200], want[:200])]
            cls = "proxy-error-not-surfaced" if diff[0][0].startswith("p_") else cls_not_called
            ctx.violation(cls, "overriding %s: observed %s, required %s" % (", ".join(s) or "nothing", diff[0][0][:300], diff[0][1][:300]),
                          {"program": ovbins.source_of(s), "observed": out, "required": want})
    ctx.add_stream("L2-mt-overrides", len(ovbins.SETS), len(ovbins.SETS), samples=[ovbins.name_of(s) for s in ovbins.SETS[:3]], override_sets=[",".join(s) for s in ovbins.SETS], oracle_failures=bad,
                   note="each program: instantiate, exec (emitting a sub-message to itself with reply_always), sudo, migrate, query on a multitest chain; which overrides and which handlers ran")
    ctx.cov["traces_validated_against_impl"] += len(ovbins.SETS)


def run(ctx):
    ctx.cov["trusted_base"] = ["Lean 4.33 kernel", "axioms: propext, Classical.choice, Quot.sound only (audited)",
                               "cw-multi-test 2.3 (the chain both histories run on) and its modelled fragment: balances, contract records, atomic steps, its four own errors",
                               "L2 corpus harness (generated sv::mt proxies on chain A, WasmMsg / sudo / raw_query with JSON bytes on chain B) + svmodel driver",
                               "python statement of what each proxy submits"]
    ctx.assumptions += ["handlers are the corpus' echo handlers (they write their echo to storage, fail on a storage marker or for the account `failer`, emit no sub-messages)",
                        "an error of a query handler reaches the caller as text through cosmwasm's querier on both paths; it is compared by the failing handler's id",
                        "overridden entry points are exercised through the chain's raw operations (stream L2-mt-overrides), reply through a self-addressed sub-message"]
    translate.regenerate()
    # function translator: downcast_error, ExecProxy, MigrateProxy of sylvia/src/multitest.rs -> Extracted/MtProxyFns.lean; Thm/MtProxyFn.lean
    # proves that a proxy call is the raw chain operation with the same values and the documented error conversion
    mt_problems = rs2lean.regenerate("mtproxy")
    ctx.cov["function_translator_mtproxy"] = {"source": "sylvia/src/multitest.rs (downcast_error, ExecProxy, MigrateProxy)", "problems": mt_problems}
    if mt_problems:
        ctx.obligation_failed("function-translator(mtproxy)", "; ".join(mt_problems)[:1500])
    c.prove(ctx, sorted({m for m, _ in THEOREMS}), THEOREMS)
    progs, exes = l2.get_corpus(ctx)
    rng = random.Random(ctx.seed * 59 + 12)
    nhist = ctx.size(4, 24)
    hist = {}
    for p in progs:
        for _ in range(nhist):
            H, R, K = gen_history(rng, p, rng.choice([6, 10, 16, 24]))
            hist.setdefault(p["id"], []).append((H, R, K))
    by_id = {p["id"]: p for p in progs}
    # 0. the hypothesis of the refinement theorems (ProgWF, through its executable, proved-sound form) holds of every corpus program
    _, wf_ops, wf_index = l2.run_both(ctx, "wf", progs, {p["id"]: ["wf"] for p in progs})
    wf_out = c.run_driver(wf_ops)
    not_wf = [ix[0] for o, ix in zip(wf_out, wf_index) if ix is not None and o != "true"]
    if not_wf:
        ctx.obligation_failed("hypothesis:ProgWF", "the well-formedness hypothesis of history_equiv does not hold of corpus program(s) %s: the theorem says nothing about them" % not_wf[:5])
    ctx.cov["programs_satisfying_theorem_hypotheses"] = len(progs) - len(not_wf)
    # 1. proxies on chain A, and the model of the proxies
    ops_p = {pid: ["mtp " + ";".join(H) for H, R, K in hs] for pid, hs in hist.items()}
    rows_p, _ = l2.execute(ctx, "L2-multitest-proxies", progs, exes, ops_p)
    # 2. the model's lowering
    low_ops = {pid: ["mtlower " + ";".join(H) for H, R, K in hs] for pid, hs in hist.items()}
    _, model_ops, index = l2.run_both(ctx, "lower", progs, low_ops)
    out = c.run_driver(model_ops)
    lowered = {}
    for o, ix in zip(out, index):
        if ix is not None:
            lowered.setdefault(ix[0], []).append(o)
    # 3. the lowered histories as raw JSON on chain B, and the model of the chain
    ops_r = {pid: ["mtr " + l for l in lowered[pid]] for pid in hist}
    rows_r, _ = l2.execute(ctx, "L2-multitest-raw", progs, exes, ops_r)
    nsteps = 0
    kinds = {}
    classes = {}
    bad_model = bad_oracle = bad_prop = 0
    n_per = {}
    for (pid, op_p, impl_a, model_a), (_, op_r, impl_b, model_b) in zip(rows_p, rows_r):
        hi = n_per.get(pid, 0)
        n_per[pid] = hi + 1
        H, R, K = hist[pid][hi]
        prog_text = None
        # python statement of the lowering
        if lowered[pid][hi] != ";".join(R):
            got = lowered[pid][hi].split(";")
            j = next((i for i, (x, y) in enumerate(zip(got, R)) if x != y), min(len(got), len(R)))
            bad_oracle += 1
            ctx.violation("proxy-submits-other-message", "step %s: the model of the proxy submits %s, the proxy's definition requires %s" % (
                H[j] if j < len(H) else "?", got[j] if j < len(got) else "<none>", R[j] if j < len(R) else "<none>"),
                {"program": corpus.render_module(by_id[pid]), "proxy_history": H, "model_lowering": got, "required": R})
            continue
        A, MA, B, MB = split_steps(impl_a), split_steps(model_a), split_steps(impl_b), split_steps(model_b)
        if not (len(A) == len(MA) == len(B) == len(MB) == len(H)):
            ctx.obligation_failed("correspondence:L2-multitest", "prog=%s history %d: step counts differ (%d %d %d %d of %d)" % (pid, hi, len(A), len(MA), len(B), len(MB), len(H)))
            continue
        for i, k in enumerate(K):
            nsteps += 1
            kinds[k] = kinds.get(k, 0) + 1
            a, ma, b, mb = A[i], MA[i], B[i], MB[i]
            ca, cma = canon_result(a[0], k, "A"), model_result(ma[0], k, "A")
            cb, cmb = canon_result(b[0], k, "B"), model_result(mb[0], k, "B")
            cls = ca.split(" ")[0] + ("-" + ca.split(" ")[1] if ca.startswith("err ") else "")
            classes[k + ":" + cls] = classes.get(k + ":" + cls, 0) + 1
            # model tie
            if (not same_result(ca, cma) or a[1] != ma[1]) and bad_model < 3:
                bad_model += 1
                ctx.obligation_failed("correspondence:L2-multitest-proxies", "prog=%s step %d %s: impl=%r model=%r" % (pid, i, H[i][:80], (ca + " @@ " + a[1])[:400], (cma + " @@ " + ma[1])[:400]))
            if (not same_result(cb, cmb) or b[1] != mb[1]) and bad_model < 3:
                bad_model += 1
                ctx.obligation_failed("correspondence:L2-multitest-raw", "prog=%s step %d %s: impl=%r model=%r" % (pid, i, R[i][:80], (cb + " @@ " + b[1])[:400], (cmb + " @@ " + mb[1])[:400]))
            # the property: same state, same result
            xa, xb = canon_result(a[0], k, "X"), canon_result(b[0], k, "X")
            if a[1] != b[1] or not same_result(xa, xb):
                bad_prop += 1
                err_ty = "custom error type" if by_id[pid]["contract"].get("error") else "StdError"
                if xa == "PANIC" and xb.startswith("err chain "):
                    klass = "proxy-panics-on-chain-error"
                    what = "%s proxy panics where the raw operation returns an error: chain error %s, contract with %s" % (
                        {"inst": "instantiate", "mig": "migrate"}.get(k, k), xb[10:], err_ty)
                elif a[1] != b[1]:
                    klass, what = "proxy-vs-raw-state", "step %s: chain state after the proxy call differs from the state after the raw operation: %s vs %s" % (H[i][:80], a[1][:300], b[1][:300])
                else:
                    klass, what = "proxy-vs-raw-result", "step %s: proxy returned %s, raw operation returned %s" % (H[i][:80], xa[:300], xb[:300])
                ctx.violation(klass, what, {"program": corpus.render_module(by_id[pid]), "proxy_history": H[:i + 1], "raw_history": R[:i + 1],
                                            "proxy_step": a, "raw_step": b, "op": "%s mtp %s" % (pid, ";".join(H[:i + 1]))})
                break
    ctx.add_stream("L2-multitest", nsteps * 2, len(classes), samples=[";".join(hist[progs[0]["id"]][0][0])[:400]], programs=len(progs), histories=len(rows_p), steps=nsteps,
                   model_disagreements=bad_model, oracle_failures=bad_oracle, proxy_vs_raw_differences=bad_prop, step_kinds=kinds, result_classes=classes)
    ctx.cov["traces_validated_against_impl"] += nsteps * 2
    override_stream(ctx)
    ctx.cov["rule"] = ("random histories (6-24 steps) per compiled generated contract: store, instantiate with random setter sequences (label, admin, funds, salt; repeated, unset), "
                       "exec with/without funds, query, sudo, migrate, failure markers; run through the generated proxies on one chain and, lowered by the model, as raw JSON on a "
                       "second identically seeded chain; after every step the result and the full chain state (contract records, storage, balances) of both chains and of the model are compared")
