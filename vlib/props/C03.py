"""C03 — the contract-level message accepts exactly the union of its parts and routes right."""
import json
import random

from .. import casing, common as c, corpus, l2, translate, namebins, widebins, rs2lean

THEOREMS = [("Sylvia.Thm.C03", "C03." + t) for t in
            ["at_most_one", "wrapper_accepts_encoded", "wrapper_ok_sound", "unknown_lists_all", "not_single_key_rejected"]] + \
           [("Sylvia.Thm.C03Domain", "C03." + t) for t in ["wrapper_iff_on_domain", "wrapper_accepts_iff_some_part", "inDomainB_sound"]] + \
           [("Sylvia.Thm.C05Gen", "C05.parts_faithful_closed"), ("Sylvia.Thm.PublishedFn", "PublishedFn.serde_snake_case_eq"), ("Sylvia.Thm.Obl.Published", "Obl.published_rule_is_wire_rule"),
            ("Sylvia.Lemmas.ValuePass", "Sylvia.Serde.normalize_canon"), ("Sylvia.Lemmas.ValuePass", "Sylvia.Serde.decodeFields_sorted")] + \
           [("Sylvia.Thm.Obl.Wrapper", "Obl.wrapper_forms"), ("Sylvia.Thm.Obl.Complete.C03", "Obl.extraction_complete_C03")]


def build_ops(ctx, progs):
    rng = random.Random(ctx.seed * 31 + 3)
    ops = {}
    docs = []  # (pid, kind, label, text, owner part index or None)
    for p in progs:
        lst = ops.setdefault(p["id"], [])
        for kind in ("exec", "query", "sudo"):
            parts = l2.parts_of(p, kind)
            lst.append("lists " + kind)
            allm = [(m, l2.valid_fields(rng, m)) for _, _, _, ms in parts for m in ms]
            for idx, pid_, label, ms in parts:
                for m in ms:
                    fields = l2.valid_fields(rng, m)
                    cases = [("valid", l2.msg_doc(kind, m, fields), idx)]
                    others = [(o, f) for o, f in allm if o is not m]
                    cases += [(lbl, t, None) for lbl, t in l2.mutants(rng, p, kind, m, fields, others)]
                    for lbl, text, owner in cases:
                        docs.append((p["id"], kind, lbl, text, owner))
                        lst.append("dew %s %s" % (kind, text))
                        for j in range(len(parts)):
                            lst.append("de %d %s %s" % (j, kind, text))
    return ops, docs


def expected_lists(prog, kind):
    return [sorted(casing.wire_name(m["name"]).encode() for m in ms) for _, _, _, ms in l2.parts_of(prog, kind)]


def run(ctx):
    ctx.cov["trusted_base"] = ["Lean 4.33 kernel", "axioms: propext, Classical.choice, Quot.sound only (audited)",
                               "L2 corpus harness (generated Rust calling the real generated types) + svmodel driver",
                               "python oracle: wrapper accepts iff exactly one part accepts"]
    ctx.assumptions += ["serde derive + serde-json-wasm + serde-cw-value are modelled (Model/Serde.lean), validated by the de/dew streams on every run",
                        "argument types restricted to the universe of Serde.VTy"]
    translate.regenerate()
    # function translator: serde_snake_case of sylvia-derive (the rule behind the published name lists) -> Extracted/CasingFns.lean
    casing_problems = rs2lean.regenerate("casing")
    ctx.cov["function_translator_casing"] = {"source": "sylvia-derive/src/types/msg_variant.rs::serde_snake_case", "problems": casing_problems}
    if casing_problems:
        ctx.obligation_failed("function-translator(casing)", "; ".join(casing_problems)[:1500])
    if THEOREMS:
        mods = sorted({m for m, _ in THEOREMS})
        c.prove(ctx, mods, THEOREMS)
    progs, exes = l2.get_corpus(ctx)
    ops, docs = build_ops(ctx, progs)
    rows, ndiff = l2.execute(ctx, "L2-wrapper", progs, exes, ops)
    l2.report_diffs(ctx, "L2-wrapper", rows)
    # which documents lie in the domain of C03.wrapper_iff_on_domain (executable form, proved sound): model only
    dom_ops = {pid: ["dom " + o[4:] for o in lst if o.startswith("dew ")] for pid, lst in ops.items()}
    _, dm_ops, dm_index = l2.run_both(ctx, "dom", progs, dom_ops)
    dm_out = c.run_driver(dm_ops)
    in_domain = {(ix[0], ix[1][4:]): o for o, ix in zip(dm_out, dm_index) if ix is not None}
    # ---- direct oracle on the implementation
    by_prog = {}
    for pid, op, a, b in rows:
        by_prog.setdefault(pid, []).append((op, a))
    progs_by_id = {p["id"]: p for p in progs}
    stats = {}
    dstats = {}
    nviol = 0
    distinct = set()
    for pid, items in by_prog.items():
        prog = progs_by_id[pid]
        i = 0
        while i < len(items):
            op, res = items[i]
            if op.startswith("lists "):
                kind = op.split()[1]
                got = [l.split(",") if l else [] for l in res.split("|")]
                want = [[n.decode() for n in l] for l in expected_lists(prog, kind)]
                if got != want:
                    nviol += 1
                    ctx.violation("published-list-not-wire-names", "%s_messages() = %s but the parts serialise under %s" % (
                        {"exec": "execute"}.get(kind, kind), got, want),
                        {"program": corpus.render_module(prog), "op": "%s %s" % (pid, op), "observed": got, "required": want})
                i += 1
                continue
            assert op.startswith("dew "), op
            _, kind, text = op.split(" ", 2)
            nparts = len(l2.parts_of(prog, kind))
            part_res = [items[i + 1 + j][1] for j in range(nparts)]
            i += 1 + nparts
            accepted = [j for j, r in enumerate(part_res) if r.startswith("ok ")]
            labels = [lab for _, _, lab, _ in l2.parts_of(prog, kind)]
            why = None
            if "PANIC" in res or any("PANIC" in r for r in part_res):
                why = "panic while decoding"
            elif len(accepted) == 1:
                j = accepted[0]
                want = "ok %s %s" % (labels[j], part_res[j][3:])
                if res != want:
                    why = "part %s accepts (%s) but the wrapper answers %s" % (labels[j], part_res[j][:80], res[:160])
            elif len(accepted) == 0:
                if res.startswith("ok "):
                    why = "no part accepts but the wrapper answers %s" % res[:120]
                else:
                    try:
                        d = json.loads(text)
                    except Exception:
                        d = None
                    names = [n for l in expected_lists(prog, kind) for n in l]
                    if isinstance(d, dict) and len(d) == 1 and not l2.has_dup_members(text) and not l2.has_wide_number(text) \
                            and list(d)[0].encode() not in names:
                        tail = "Messages supported by this contract: " + ", ".join(n.decode() for n in names)
                        if not res.startswith("unknown ") or not res.endswith(tail if names else "Messages supported by this contract"):
                            why = "unknown name %r: error does not list the supported messages: %s" % (list(d)[0], res[:200])
            else:
                why = "%d parts accept the same document" % len(accepted)
            key = ("accept" if len(accepted) == 1 else "reject", res.split(" ")[0])
            stats[key] = stats.get(key, 0) + 1
            distinct.add(text)
            dom = in_domain.get((pid, "%s %s" % (kind, text)), "?")
            dstats[dom] = dstats.get(dom, 0) + 1
            if why and dom == "in":
                # inside the domain the theorem says the two decoders agree: a difference here is never a listed finding
                nviol += 1
                ctx.violation("wrapper-differs-inside-domain", "%s document %s (no repeated member, no wide number, no lenient sequence): %s" % (kind, text[:200], why),
                              {"program": corpus.render_module(prog), "op": "%s dew %s %s" % (pid, kind, text), "parts": part_res, "wrapper": res})
            elif why:
                nviol += 1
                if l2.has_dup_members(text):
                    cls = "duplicate-member"
                elif l2.has_wide_number(text):
                    cls = "wide-number-in-ignored-member"
                else:
                    try:
                        top = list(json.loads(text))[0]
                    except Exception:
                        top = ""
                    wires = {casing.wire_name(m["name"]): casing.cc_snake(casing.upper_camel(m["name"]))
                             for _, _, _, ms in l2.parts_of(prog, kind) for m in ms}
                    if res.startswith("ok ") and not accepted:
                        cls = "lenient-sequence"
                    elif isinstance(top, str) and top in wires and wires[top] != top:
                        cls = "routing-name"
                    elif "does not list the supported messages" in why:
                        cls = "unknown-name-list"
                    else:
                        cls = "other"
                ctx.violation(cls, "%s document %s: %s" % (kind, text[:200], why),
                              {"program": corpus.render_module(prog), "op": "%s dew %s %s" % (pid, kind, text),
                               "parts": part_res, "wrapper": res, "how": "corpus binary: echo '<op>' | .cache/target/debug/<shard>"})
    ctx.add_stream("L2-wrapper", len(rows), len(distinct), samples=[r[1] for r in rows[3:6]],
                   programs=len(progs), model_disagreements=ndiff, oracle_failures=nviol,
                   outcome_histogram={"%s/%s" % k: v for k, v in sorted(stats.items())}, documents_by_domain=dstats)
    ctx.cov["traces_validated_against_impl"] += len(rows)
    namebins.stream(ctx)
    widebins.stream(ctx)
    ctx.cov["rule"] = ("for every part and message of every generated program: the well-formed document and ~25 derived documents (unknown name, two keys, "
                       "duplicated key/field, non-object, bad body, wrong type, missing/extra/reordered fields, trailing bytes, name variants), each decoded by "
                       "the wrapper and by every part; distinct = distinct document texts")
