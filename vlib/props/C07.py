"""C07 — reply routing honours the declared handler and outcome."""
from .. import common as c, translate, rs2lean
from ._replies_common import run_reply_stream

THEOREMS = [("Sylvia.Thm.C07", "C07." + t) for t in
            ["unknown_id_errors", "success_runs_declared", "success_with_data", "success_runs_always", "error_runs_declared", "error_runs_always",
             "success_uncovered_passes_through", "error_uncovered_passes_through", "table_entries_compatible"]] + \
           [("Sylvia.Lemmas.Reply", "Sylvia.Reply.replyTable_ok"), ("Sylvia.Thm.Obl.Complete.C07", "Obl.extraction_complete_C07"), ("Sylvia.Thm.Obl.T.replyOn_documented", "Obl.replyOn_documented")]

THEOREMS = THEOREMS + [("Sylvia.Thm.ReplyOnFn", "ReplyOnFn.excludes_eq"), ("Sylvia.Thm.ReplyOnFn", "ReplyOnFn.excludes_symmetric"), ("Sylvia.Thm.CtxFn", "CtxFn.reply_from"),
                       ("Sylvia.Thm.ReplyNewFn", "ReplyNewFn.new_spec"), ("Sylvia.Thm.ReplyNewFn", "ReplyNewFn.merge_spec")]


def run(ctx):
    ctx.cov["trusted_base"] = ["Lean 4.33 kernel", "axioms: propext, Classical.choice, Quot.sound only (audited)",
                               "translator: forms of the reply-table construction and of the success/error arm selection re-read from reply.rs",
                               "L2 corpus harness (sv::dispatch_reply with echo handlers) + svmodel driver", "python statement of the expected reply behaviour"]
    ctx.assumptions += ["reply handlers return the contract's own error type (dispatch_reply performs no error conversion)"]
    translate.regenerate()
    # function translator: ReplyOn::excludes -> Extracted/ReplyOnFns.lean (proved equal to the model's `Reply.excludes`)
    ro_problems = rs2lean.regenerate("replyon")
    ctx.cov["function_translator_replyon"] = {"source": "sylvia-derive/src/parser/attributes/msg.rs::ReplyOn::excludes", "problems": ro_problems}
    if ro_problems:
        ctx.obligation_failed("function-translator(replyon)", "; ".join(ro_problems)[:1500])
    # ... ReplyData::{new, merge}: the table entry a reply method opens / joins (the model's newEntry / mergeEntry)
    rn_problems = rs2lean.regenerate("replynew")
    ctx.cov["function_translator_replynew"] = {"source": "sylvia-derive/src/contract/communication/reply.rs::ReplyData::{new, merge}", "problems": rn_problems}
    if rn_problems:
        ctx.obligation_failed("function-translator(replynew)", "; ".join(rn_problems)[:1500])
    # ... and ReplyCtx with its From<tuple> conversion (gas used, events, message responses) -> Extracted/CtxFns.lean
    ctx_problems = rs2lean.regenerate("ctx")
    ctx.cov["function_translator_ctx"] = {"source": "sylvia/src/ctx.rs", "problems": ctx_problems}
    if ctx_problems:
        ctx.obligation_failed("function-translator(ctx)", "; ".join(ctx_problems)[:1500])
    if THEOREMS:
        c.prove(ctx, sorted({m for m, _ in THEOREMS}), THEOREMS)
    run_reply_stream(ctx, "L2-reply-routing", lambda tags: tags[0] in ("success", "error", "passthrough-ok", "passthrough-err", "unknown-id")
                     and (len(tags) < 3 or tags[2] in ("present", "absent", "always", "nodata")))
    ctx.cov["rule"] = ("every reply-handler table of the generated programs (success-only, error-only, both via two methods in either order, always; names shared and separate) x "
                       "(Ok/Err result, events, message responses, data present/absent, valid/invalid payload, handler made to fail) incl. unknown ids")
