"""C19 — generated code is hygienic about crate name and user type-parameter names."""
import json
import os
import random
import re

from .. import common as c, corpus, translate

THEOREMS = [("Sylvia.Thm.C19", "C19.no_literal_framework_root"), ("Sylvia.Thm.C19", "C19.roots_resolve_without_user_scope"), ("Sylvia.Thm.C19", "C19.helper_params_clear"),
            ("Sylvia.Thm.Obl.Complete.C19", "Obl.extraction_complete_C19")]
FRAMEWORK = {"sylvia", "cosmwasm_std", "cosmwasm_schema", "cw_multi_test", "cw_utils", "schemars", "serde", "serde_json", "anyhow", "cw_std", "cw_schema"}
WORDS = ["Msg", "Query", "Param", "Item", "Data", "Key", "Value", "Exec", "Custom", "Config", "State"]
NAMES = [chr(65 + i) for i in range(26)] + WORDS

GENERIC_BIN = """#[path = "../prelude.rs"]
mod prelude;
pub mod g {
    #![allow(unused_variables, dead_code, non_camel_case_types)]
    use crate::prelude::*;
    pub trait Bounds: sylvia::serde::Serialize + sylvia::serde::de::DeserializeOwned + std::fmt::Debug + Clone + sylvia::schemars::JsonSchema + 'static {}
    impl<X: sylvia::serde::Serialize + sylvia::serde::de::DeserializeOwned + std::fmt::Debug + Clone + sylvia::schemars::JsonSchema + 'static> Bounds for X {}
    /// a concrete type that merely shares its name with the type parameter: written through a path it is not the parameter
    pub mod other {
        pub type @N@ = u64;
    }
    pub mod ifc {
        use crate::prelude::*;
        #[interface]
        #[sv::custom(msg=Empty, query=Empty)]
        pub trait Ifc {
            type Error: From<StdError>;
            type @N@: crate::g::Bounds;
            #[sv::msg(exec)]
            fn put(&self, ctx: ExecCtx, v: Self::@N@) -> Result<Response, Self::Error>;
            #[sv::msg(query)]
            fn get(&self, ctx: QueryCtx, v: Option<Self::@N@>) -> Result<EchoResp, Self::Error>;
            #[sv::msg(sudo)]
            fn su(&self, ctx: SudoCtx) -> Result<Response, Self::Error>;
        }
    }
    pub struct Ct<@N@>(std::marker::PhantomData<@N@>);
    #[contract]
    #[sv::features(replies)]
    impl<@N@> Ct<@N@> where @N@: Bounds {
        pub const fn new() -> Self { Self(std::marker::PhantomData) }
        #[sv::msg(instantiate)]
        fn instantiate(&self, ctx: InstantiateCtx, v: @N@) -> StdResult<Response> { Ok(Response::new()) }
        #[sv::msg(exec)]
        fn put(&self, ctx: ExecCtx, v: @N@) -> StdResult<Response> { Ok(Response::new().add_attribute("v", j(&v))) }
        #[sv::msg(query)]
        fn get(&self, ctx: QueryCtx, v: Vec<@N@>) -> StdResult<EchoResp> { Ok(EchoResp { attrs: vec![] }) }
        #[sv::msg(sudo)]
        fn su(&self, ctx: SudoCtx, v: Option<@N@>) -> StdResult<Response> { Ok(Response::new()) }
        #[sv::msg(migrate)]
        fn mig(&self, ctx: MigrateCtx, w: crate::g::other::@N@) -> StdResult<Response> { Ok(Response::new()) }
        #[sv::msg(reply, reply_on=success)]
        fn on_done(&self, ctx: ReplyCtx, p: u32) -> StdResult<Response> { Ok(Response::new()) }
    }
}
fn main() {
    // the generated types must be usable with just the parameter supplied
    let m = g::sv::ExecMsg::<u32>::put(7);
    assert_eq!(prelude::j(&m), "{\\"put\\":{\\"v\\":7}}");
}
"""


# A module that imports *nothing* by name: every framework type is written through the crate path. Whatever a template emits
# as a bare name (`Response::new()`, `StdError::..`) then fails to resolve. Reply handlers of every outcome pattern (so every
# pass-through arm is generated), an interface, all message kinds.
SCOPE_FREE_BIN = """pub mod ifc {
    #[sylvia::interface]
    #[sv::custom(msg=sylvia::cw_std::Empty, query=sylvia::cw_std::Empty)]
    pub trait Ifc {
        type Error: From<sylvia::cw_std::StdError>;
        #[sv::msg(exec)]
        fn put(&self, ctx: sylvia::ctx::ExecCtx, v: u32) -> Result<sylvia::cw_std::Response, Self::Error>;
        #[sv::msg(query)]
        fn get(&self, ctx: sylvia::ctx::QueryCtx) -> Result<u32, Self::Error>;
        #[sv::msg(sudo)]
        fn su(&self, ctx: sylvia::ctx::SudoCtx) -> Result<sylvia::cw_std::Response, Self::Error>;
    }
}
pub mod ct {
    pub struct Ct;
    impl crate::ifc::Ifc for Ct {
        type Error = sylvia::cw_std::StdError;
        fn put(&self, _ctx: sylvia::ctx::ExecCtx, _v: u32) -> Result<sylvia::cw_std::Response, Self::Error> { Ok(sylvia::cw_std::Response::new()) }
        fn get(&self, _ctx: sylvia::ctx::QueryCtx) -> Result<u32, Self::Error> { Ok(1) }
        fn su(&self, _ctx: sylvia::ctx::SudoCtx) -> Result<sylvia::cw_std::Response, Self::Error> { Ok(sylvia::cw_std::Response::new()) }
    }
    #[sylvia::entry_points]
    #[sylvia::contract]
    #[sv::messages(crate::ifc)]
    #[sv::features(replies)]
    impl Ct {
        pub const fn new() -> Self { Self }
        #[sv::msg(instantiate)]
        fn instantiate(&self, _ctx: sylvia::ctx::InstantiateCtx, _a: u32) -> sylvia::cw_std::StdResult<sylvia::cw_std::Response> { Ok(sylvia::cw_std::Response::new()) }
        #[sv::msg(exec)]
        fn run(&self, _ctx: sylvia::ctx::ExecCtx, _a: String) -> sylvia::cw_std::StdResult<sylvia::cw_std::Response> { Ok(sylvia::cw_std::Response::new()) }
        #[sv::msg(query)]
        fn ask(&self, _ctx: sylvia::ctx::QueryCtx) -> sylvia::cw_std::StdResult<u64> { Ok(2) }
        #[sv::msg(sudo)]
        fn force(&self, _ctx: sylvia::ctx::SudoCtx) -> sylvia::cw_std::StdResult<sylvia::cw_std::Response> { Ok(sylvia::cw_std::Response::new()) }
        #[sv::msg(migrate)]
        fn mig(&self, _ctx: sylvia::ctx::MigrateCtx) -> sylvia::cw_std::StdResult<sylvia::cw_std::Response> { Ok(sylvia::cw_std::Response::new()) }
        #[sv::msg(reply, reply_on=error)]
        fn only_err(&self, _ctx: sylvia::ctx::ReplyCtx, _error: String, _p: u32) -> sylvia::cw_std::StdResult<sylvia::cw_std::Response> { Ok(sylvia::cw_std::Response::new()) }
        #[sv::msg(reply, reply_on=success)]
        fn only_ok(&self, _ctx: sylvia::ctx::ReplyCtx, #[sv::data(opt)] _d: Option<u32>, _p: u32) -> sylvia::cw_std::StdResult<sylvia::cw_std::Response> { Ok(sylvia::cw_std::Response::new()) }
        #[sv::msg(reply, reply_on=always)]
        fn both(&self, _ctx: sylvia::ctx::ReplyCtx, _r: sylvia::cw_std::SubMsgResult, #[sv::payload(raw)] _p: sylvia::cw_std::Binary) -> sylvia::cw_std::StdResult<sylvia::cw_std::Response> { Ok(sylvia::cw_std::Response::new()) }
        #[sv::msg(reply, handlers=[paired], reply_on=success)]
        fn paired_ok(&self, _ctx: sylvia::ctx::ReplyCtx, #[sv::data(raw)] _d: sylvia::cw_std::Binary, _q: u8) -> sylvia::cw_std::StdResult<sylvia::cw_std::Response> { Ok(sylvia::cw_std::Response::new()) }
        #[sv::msg(reply, handlers=[paired], reply_on=error)]
        fn paired_err(&self, _ctx: sylvia::ctx::ReplyCtx, _error: String, _q: u8) -> sylvia::cw_std::StdResult<sylvia::cw_std::Response> { Ok(sylvia::cw_std::Response::new()) }
    }
}
fn main() {
    let m = ct::sv::ExecMsg::run("x".to_string());
    let _ = sylvia::cw_std::to_json_string(&m);
}
"""


def static_rows(ctx):
    """which template sites break the two obligations (for the replay, when they do)"""
    rows = []
    for l in open(os.path.join(c.CACHE, "extract.jsonl")):
        pass
    txt = open(os.path.join(c.LEAN, "Sylvia", "Extracted", "Tables.lean")).read()
    m = re.search(r"def templateSites .*? := \[(.*)\]\ndef ", txt, re.S)
    sites = re.findall(r"\(\[[\d, ]*\] /- ([^ ]+) -/, \[(.*?)\], \[(.*?)\], (true|false)\)", m.group(1)) if m else []
    for site, roots, params, scoped in sites:
        rs = re.findall(r"/- (\w+) -/", roots)
        ps = re.findall(r"/- (\w+) -/", params)
        bad_roots = [r for r in rs if r in FRAMEWORK]
        bad_params = [p for p in ps if (len(p) == 1 and p.isupper()) or p in WORDS] if scoped == "true" else []
        if bad_roots or bad_params:
            rows.append({"site": site, "literal_crate_roots": bad_roots, "conventional_helper_params": bad_params})
    return rows, len(sites)


def renamed_stream(ctx):
    rng = random.Random(ctx.seed * 37 + 19)
    n = ctx.size(24, 200)
    progs = [corpus.gen_program(rng, i, replies_p=0.8) for i in range(n)]
    try:
        corpus.build_corpus("rn", progs, nshards=12, dep="sv_renamed", check_only=True)
        failed = {}
    except c.BuildError as e:
        failed = {}
        for pid in set(re.findall(r"src/(p\d+)_mod\.rs", e.out)):
            m = re.search(r"(error[^\n]*\n(?:[^\n]*\n){0,6}?[^\n]*%s_mod\.rs[^\n]*\n(?:[^\n]*\n){0,4})" % pid, e.out)
            failed[pid] = (m.group(1) if m else "")[:600]
        if not failed:
            raise
    by = {p["id"]: p for p in progs}
    for pid, err in sorted(failed.items())[:3]:
        ctx.violation("renamed-dependency-breaks", "a valid program does not compile when the manifest imports the framework under another name: %s" % err.replace("\n", " | ")[:300],
                      {"program": corpus.rename_dep(corpus.render_module(by[pid]), "sv_renamed"), "rustc": err,
                       "how": "crate whose only path to the framework is `sv_renamed = { package = \"sylvia\", .. }`"})
    ctx.add_stream("renamed-dependency-corpus", len(progs), len(progs), samples=[progs[0]["id"]], programs=len(progs),
                   programs_with_replies=sum(1 for p in progs if corpus.reply_entries(p)), failing=len(failed))


def generic_names_stream(ctx):
    d = os.path.join(c.WS, "cgen")
    toml = "[package]\nname = \"cgen\"\nversion = \"0.0.0\"\nedition = \"2021\"\npublish = false\n\n[dependencies]\n" \
           "sylvia = { path = \"%s/sylvia\", features = [\"mt\", \"stargate\", \"iterator\", \"cosmwasm_1_4\", \"cosmwasm_2_0\"] }\n" % c.REPO
    c.write_if_changed(os.path.join(d, "Cargo.toml"), toml)
    c.write_if_changed(os.path.join(d, "src", "prelude.rs"), open(os.path.join(c.ROOT, "harness", "corpus", "prelude.rs")).read())
    os.makedirs(os.path.join(d, "src", "bin"), exist_ok=True)
    for n in NAMES:
        c.write_if_changed(os.path.join(d, "src", "bin", "g_%s.rs" % n.lower() if len(n) > 1 else os.path.join(d, "src", "bin", "g_%s_.rs" % n.lower())), GENERIC_BIN.replace("@N@", n))
    c.write_if_changed(os.path.join(d, "src", "bin", "scope_free.rs"), SCOPE_FREE_BIN)
    c.ensure_ws_members({"cgen": None})
    p = c.cargo(["check", "--offline", "-p", "cgen", "--bins", "--keep-going", "--message-format=json"], cwd=c.WS, timeout=3600)
    errors = {}
    for line in p.stdout.split("\n"):
        if line.startswith("{"):
            try:
                j = json.loads(line)
            except Exception:
                continue
            if j.get("reason") == "compiler-message" and j["message"].get("level") == "error":
                errors.setdefault(j.get("target", {}).get("name"), []).append(j["message"]["message"])
    bad = 0
    for n in NAMES:
        t = "g_%s" % n.lower() if len(n) > 1 else "g_%s_" % n.lower()
        if t in errors:
            bad += 1
            ctx.violation("parameter-name-collides:" + n, "a generic contract / interface whose type parameter is named `%s` does not compile: %s" % (n, errors[t][0][:200]),
                          {"program": GENERIC_BIN.replace("@N@", n), "rustc": errors[t][:3]})
    if "scope_free" in errors:
        bad += 1
        ctx.violation("relies-on-user-scope", "a contract module that imports nothing by name (every framework type written through the crate path) "
                      "does not compile: %s" % " | ".join(errors["scope_free"][:3])[:400],
                      {"program": SCOPE_FREE_BIN, "rustc": errors["scope_free"][:4]})
    ctx.add_stream("generic-parameter-names", len(NAMES) + 1, len(NAMES) + 1, samples=NAMES[:3], names=NAMES + ["(module importing nothing)"], failing=bad, exhaustive=True)


def run(ctx):
    ctx.level = "proof"
    ctx.cov["trusted_base"] = ["Lean 4.33 kernel", "axioms: propext, Classical.choice, Quot.sound only (audited)",
                               "translator: projection of every quote!/parse_quote! template onto (literal path roots, literal generic parameters, user generics in scope)",
                               "rustc for the renamed-dependency corpus and the per-name generic programs"]
    ctx.assumptions += ["every emitted token comes from a template, an interpolated user token or the #sylvia path (greps for other token sources run with the check)",
                        "name resolution by rustc is observed on the corpora, not proved (partial)"]
    translate.regenerate()
    c.prove(ctx, ["Sylvia.Thm.C19"], THEOREMS)
    rows, nsites = static_rows(ctx)
    ctx.cov["template_sites"] = nsites
    ctx.cov["offending_sites"] = rows
    # other ways of producing tokens would escape the template table
    hits = []
    for dd, _, fs in os.walk(os.path.join(c.REPO, "sylvia-derive", "src")):
        for f in fs:
            t = open(os.path.join(dd, f)).read()
            for m in re.finditer(r"TokenStream::from_str|\.parse::<\s*TokenStream|Literal::|TokenTree::", t):
                hits.append("%s: %s" % (f, m.group(0)))
    if hits:
        ctx.obligation_failed("token-sources", "tokens are now also produced outside quote!/parse_quote!: %s" % hits[:3])
    renamed_stream(ctx)
    generic_names_stream(ctx)
    ctx.cov["rule"] = ("all quote!/parse_quote! templates of sylvia-derive (static, exhaustive); generated programs (interfaces, replies with partial handler coverage, multitest helpers) "
                       "checked against a manifest that imports the framework as `sv_renamed`; one generic contract + interface per candidate parameter name (26 letters + 11 words)")
    if ctx.violations:
        for o in ctx.obligation_failures:
            o["explained_by_known"] = True
            o["rows"] = rows[:6]
