"""C15 — generated message types carry exactly the generic parameters they use."""
import json
import re

from .. import common as c, gen, genbins, l1facts, l1stream, translate, rs2lean

THEOREMS = [("Sylvia.Thm.C15", "C15." + t) for t in ["used_iff", "used_nodup", "used_unused_partition", "where_iff", "api_consistent"]] + \
           [("Sylvia.Thm.Obl.Complete.C15", "Obl.extraction_complete_C15")] + \
           [("Sylvia.Thm.GenericsFn", "GenericsFn." + t) for t in ["visit_path_eq", "used_eq_model", "used_unused_eq", "filter_wheres_eq", "filter_wheres_is_model"]]
MSG_OF = {"exec": "ExecMsg", "query": "QueryMsg", "sudo": "SudoMsg", "instantiate": "InstantiateMsg", "migrate": "MigrateMsg"}


def strip_self(ty):
    if "p" in ty:
        return {"p": [[n, [strip_self(a) for a in args]] for n, args in ty["p"] if n != "Self"]}
    if "t" in ty:
        return {"t": [strip_self(x) for x in ty["t"]]}
    if "a" in ty:
        return {"a": strip_self(ty["a"]), "n": ty["n"]}
    return ty


def used_set(item, kind, gens):
    """independent statement: parameters occurring in the arguments (and, for queries, the response types)"""
    out = set()
    for m in item["methods"]:
        if not m.get("msg") or m["msg"]["kind"] != kind:
            continue
        for a in m["args"]:
            out |= set(l1facts.mentions(strip_self(a["ty"]))) & set(gens)
        if kind == "query":
            if m["msg"].get("resp"):
                out |= {m["msg"]["resp"]} & set(gens)
            else:
                segs = m["ret"]["p"]
                if segs and segs[0][1]:
                    out |= set(l1facts.mentions(strip_self(segs[0][1][0]))) & set(gens)
    return out


def run(ctx):
    ctx.cov["trusted_base"] = ["Lean 4.33 kernel", "axioms: propext, Classical.choice, Quot.sound only (audited)",
                               "L1 fact extractor (harness/hook) + svmodel driver", "python statement of 'occurs in'"]
    ctx.assumptions += ["'occurs' is the visitor's notion: a path equal to the parameter (projections T::Assoc are a known finding, see DESIGN)",
                        "generic parameters are type parameters without inline bounds (bounds in where clauses), as in all sylvia examples",
                        "behaviour of compiled generic contracts instantiated with concrete types is exercised separately (generic corpus), see evidence"]
    translate.regenerate()
    # function translator: CheckGenerics (check_generics.rs) and filter_wheres (utils.rs) -> Extracted/CheckGenFns.lean, WheresFns.lean;
    # Thm/GenericsFn.lean identifies them with the model's usedOf / filterWheres for every parameter list and every visited path sequence
    for prof, what in (("checkgen", "sylvia-derive/src/parser/check_generics.rs (CheckGenerics)"), ("wheres", "sylvia-derive/src/utils.rs::filter_wheres")):
        probs = rs2lean.regenerate(prof)
        ctx.cov["function_translator_" + prof] = {"source": what, "problems": probs}
        if probs:
            ctx.obligation_failed("function-translator(%s)" % prof, "; ".join(probs)[:1500])
    c.prove(ctx, ["Sylvia.Thm.C15"], THEOREMS)
    cts, ifs = l1stream.build(ctx, ctx.size(700, 20000), ctx.size(250, 8000), seed_salt=15)
    ops, impl, model, meta = l1stream.run(ctx, "L1-facts", cts, ifs, "C15")
    nd = c.diff_streams(ctx, "L1-facts", ops, impl, model)
    bad = 0
    shapes = set()
    for a, m in zip(impl, meta):
        if m is None:
            continue
        pid, item, src, status = m
        if status != "clean":
            ctx.violation("valid-program-rejected", "generated program %s is rejected by the macro (%s)" % (pid, status), {"source": src})
            continue
        obs = json.loads(a)
        is_if = pid[0] == "i"
        gens = [x["name"] for x in (item.get("assoc", []) if is_if else item.get("generics", []))]
        wheres = [{"text": gen.norm(x["name"] + x["bounds"]), "tys": [gen.P(x["name"])] + x.get("tys", [])} for x in item.get("assoc", [])] if is_if \
            else [{"text": gen.norm(w["text"]), "tys": w["tys"]} for w in item.get("wheres", [])]
        by_name = {x["name"]: x for x in obs["msgs"]}
        errs = []
        for k, tname in MSG_OF.items():
            full = (item["name"] if is_if else "") + tname
            if full not in by_name:
                continue
            t = by_name[full]
            got = [re.match(r"\w+", g).group(0) for g in t["generics"]]
            want = used_set(item, k, gens)
            shapes.add((len(gens), len(want), len(wheres)))
            if len(got) != len(set(got)) or set(got) != want:
                errs.append("%s is parameterised by %s, its handlers use %s" % (full, got, sorted(want)))
            disp = [re.match(r"\w+", g).group(0) for g in t["dispatch_generics"] if g != "ContractT"]
            if set(disp) != set(gens) - want:
                errs.append("%s::dispatch introduces %s, unused are %s" % (full, disp, sorted(set(gens) - want)))
            if k in ("instantiate", "migrate") or is_if:
                wantw = [w["text"] for w in wheres if all(g in want for g in set(sum([l1facts.mentions(x) for x in w["tys"]], [])) & set(gens))]
                if sorted(t["wheres"]) != sorted(wantw):
                    errs.append("%s is constrained by %s, required %s" % (full, t["wheres"], wantw))
        # the alias in the Api impl must name the type with the same parameters
        for k, alias in (("exec", "Exec"), ("query", "Query"), ("sudo", "Sudo")):
            full = (item["name"] if is_if else "") + MSG_OF[k]
            ty = obs.get("api", {}).get(alias, "")
            names = re.findall(r"(\w+),", ty)
            if full in by_name and names != [re.match(r"\w+", g).group(0) for g in by_name[full]["generics"]]:
                errs.append("Api alias %s = %s does not match %s<%s>" % (alias, ty, full, by_name[full]["generics"]))
        if errs:
            bad += 1
            ctx.violation("generic-parameter-set", "; ".join(errs)[:500], {"source": src, "observed": obs})
    ctx.add_stream("L1-facts", len([m for m in meta if m]), len(shapes), samples=[meta[2][2], meta[-1][2]],
                   model_disagreements=nd, oracle_failures=bad)
    ctx.cov["traces_validated_against_impl"] += len([m for m in meta if m])
    genbins.stream(ctx, "usable")
    ctx.cov["rule"] = ("generic contracts (0..4 parameters; direct, nested in Vec/Option/tuple/array/BTreeMap, only in a query response, unused; where-clauses incl. "
                       "bounds relating two parameters) and interfaces with associated types; distinct = (number of parameters, number used, number of predicates)")
