"""C13 — the annotated source is passed through intact and expansion is deterministic."""
import json
import os
import re

from .. import common as c
from .. import gen, l1, translate, rs2lean

THEOREMS = [("Sylvia.Thm.C13", "C13." + t) for t in
            ["methods_intact", "item_rest_intact", "item_attrs", "method_attrs", "no_framework_left",
             "helper_params_intact", "handler_params", "strip_idempotent"]] + \
           [("Sylvia.Thm.Obl.Complete.C13", "Obl.extraction_complete_C13"), ("Sylvia.Thm.Obl.T.svAttributes_documented", "Obl.svAttributes_documented"),
            ("Sylvia.Thm.Obl.T.msg_is_framework", "Obl.msg_is_framework")] + \
           [("Sylvia.Thm.StripFn", "StripFn." + t) for t in ["remove_input_attr_eq", "fold_impl_item_fn_eq", "fold_trait_item_fn_eq", "fold_item_impl_eq",
                                                             "fold_item_trait_eq", "rests_intact", "refines_model"]]

FOREIGN_ITEM = ["allow(dead_code)", "cfg(all())", 'doc = " Contract docs, with `code`."', "rustfmt::skip",
                "allow(clippy::too_many_arguments)", "cfg_attr(all(), allow(unused))", "svx::msg(exec)", "sv::unknown_thing(1)",
                "allow(clippy::new_without_default, unused_variables)", "allow(unused_mut, clippy::new_without_default)"]
FOREIGN_METHOD = ["inline", "must_use", 'doc = " does a thing"', "allow(unused_variables)", "cfg(all())", "track_caller",
                  "rustfmt::skip", "deprecated"]
PARAM_HANDLER = ["serde(default)", 'serde(rename = "x")', "cfg(all())", "allow(unused)"]
PARAM_HELPER = ["cfg(any())", "cfg(all())", "allow(unused_variables)", "allow(unused_mut)"]


def attr(text):
    path = re.match(r"[\w:]+", text).group(0).split("::")
    return {"path": path, "text": gen.norm(text)}


def gen_item(rng, idx):
    """returns (macro, attr, source, abstract item)"""
    is_iface = rng.random() < 0.35
    item_attrs = []
    if is_iface:
        pool_sv = ["sv::custom(msg=MyMsg, query=MyQuery)", "sv::msg_attr(exec, derive(PartialOrd))", "sv::msg_attr(query, derive(Eq))"]
    else:
        pool_sv = ["sv::error(ContractError)", "sv::custom(msg=MyMsg)", "sv::messages(crate::ifc as Ifc)", "sv::messages(other::whitelist)",
                   "sv::msg_attr(exec, derive(PartialOrd))", "sv::override_entry_point(sudo=crate::my_sudo(SudoMsg))", "sv::features(replies)"]
    for a in pool_sv:
        if rng.random() < 0.4:
            item_attrs.append(a)
    if "sv::custom(msg=MyMsg)" in item_attrs and rng.random() < 0.5:
        pass
    for a in FOREIGN_ITEM:
        if rng.random() < 0.3:
            item_attrs.insert(rng.randrange(len(item_attrs) + 1), a)
    methods = []
    names = set()
    kinds = ["exec", "query", "sudo"] if is_iface else ["exec", "query", "sudo", "migrate"]
    nm = rng.randint(1, 6)
    if not is_iface:
        methods.append(("instantiate", "instantiate", True))
    for _ in range(nm):
        n = gen.shape_name(rng)
        if n in names or n in ("instantiate", "new"):
            continue
        names.add(n)
        # interface traits may hold helper methods too (no `sv::msg`): their parameters keep their attributes
        handler = rng.random() < (0.75 if is_iface else 0.6)
        methods.append((n, rng.choice(kinds) if handler else None, handler))
    if any(k == "migrate" for _, k, _ in methods):
        seen = False
        ms = []
        for m in methods:
            if m[1] == "migrate":
                if seen:
                    continue
                seen = True
            ms.append(m)
        methods = ms
    lines = []
    abs_methods = []
    for (n, kind, handler) in methods:
        mattrs = []
        if handler:
            mattrs.append("sv::msg(%s)" % kind)
            if kind in ("exec", "query", "sudo") and rng.random() < 0.3:
                # the framework's attributes on a method may come in any order
                mattrs.insert(rng.choice([0, len(mattrs)]), 'sv::attr(serde(rename = "%s_x"))' % n)
        for a in FOREIGN_METHOD:
            if rng.random() < 0.2:
                mattrs.insert(rng.randrange(len(mattrs) + 1), a)
        # the receiver and the context parameter may carry attributes too (on a handler they are removed like all the others)
        sattrs = [a for a in ["cfg(all())", "allow(unused)"] if rng.random() < 0.1]
        params = [{"attrs": [attr(a) for a in sattrs], "text": "&self"}]
        ptxt = ["".join("#[%s] " % a for a in sattrs) + "&self"]
        if handler:
            ctx = gen.CTX[kind]
            cattrs = [a for a in ["allow(unused_variables)", "cfg(all())", 'doc = " the context"'] if rng.random() < 0.12]
            params.append({"attrs": [attr(a) for a in cattrs], "text": "ctx:" + ctx})
            ptxt.append("".join("#[%s] " % a for a in cattrs) + "ctx: " + ctx)
        for pi in range(rng.randint(0, 3)):
            pool = PARAM_HANDLER if handler else PARAM_HELPER
            pas = [a for a in pool if rng.random() < 0.3]
            ty = rng.choice(["u32", "String", "Option<u64>", "Vec<Addr>", "(u8, bool)"])
            pn = "p%d" % pi
            params.append({"attrs": [attr(a) for a in pas], "text": gen.norm("%s:%s" % (pn, ty))})
            ptxt.append("".join("#[%s] " % a for a in pas) + "%s: %s" % (pn, ty))
        ret = "StdResult<Response>" if kind != "query" else "StdResult<u32>"
        if is_iface:
            ret = ret.replace("StdResult<Response>", "Result<Response, Self::Error>").replace("StdResult<u32>", "Result<u32, Self::Error>")
        vis = rng.choice(["", "pub ", "pub(crate) "]) if not is_iface else ""
        gens = "<X: Clone>" if (not handler and rng.random() < 0.2) else ""
        body = rng.choice(["{ todo!() }", "{ let x = 1; let _ = x + 2; unimplemented!() }", "{ loop { break; } todo!() }",
                           "{ fn inner(#[cfg(all())] a: u32, #[allow(unused)] b: u32) -> u32 { a } let _ = inner(1, 2); todo!() }",
                           "{ let f = |#[allow(unused)] z: u32| z; let _ = f(1); struct L; impl L { #[inline] fn g(&self, #[cfg(all())] k: u8) {} } todo!() }"])
        for a in mattrs:
            lines.append("    #[%s]" % a)
        sig = "    %sfn %s%s(%s)%s" % (vis, n, gens, ", ".join(ptxt), " -> " + ret if handler or rng.random() < 0.5 else "")
        lines.append(sig + (";" if is_iface else " " + body))
        abs_methods.append({"attrs": [attr(a) for a in mattrs], "params": params, "rest": n})
    extra = []
    if not is_iface and rng.random() < 0.4:
        extra.append("    const LIMIT: u32 = 7;")
    if is_iface:
        head = ["    type Error: From<StdError>;"]
        if rng.random() < 0.5:
            head.append("    type ExecC: CustomMsg;")
            head.append("    type QueryC: CustomQuery;")
        src = "\n".join(["#[%s]" % a for a in item_attrs] + ["pub trait Ifc%d {" % idx] + head + lines + ["}"])
        macro = "interface"
    else:
        new = ["    pub const fn new() -> Self { Self }"]
        src = "\n".join(["#[%s]" % a for a in item_attrs] + ["impl Ct%d {" % idx] + new + extra + lines + ["}"])
        macro = "contract"
        abs_methods.insert(0, {"attrs": [], "params": [], "rest": "new"})
    # the contract macro's legacy form with an argument: no code is generated, the item must still be re-emitted stripped
    margs = "module=crate::legacy" if macro == "contract" and rng.random() < 0.15 else ""
    return macro, margs, src, {"attrs": [attr(a) for a in item_attrs], "methods": abs_methods}


def observed_strip(first):
    """attribute facts of the re-emitted item, in the shape the model driver prints"""
    if not first:
        return None
    attrs = [a for a in first["attrs"] if a != "allow(clippy::new_without_default)"] if first["k"] == "impl" else first["attrs"]
    ms = []
    for it in first["items"]:
        if it["k"] == "fn":
            ms.append({"name": it["name"], "attrs": it["attrs"],
                       "params": [{"text": (re.sub(r"^(#\[[^\]]*\])+", "", p["ty"]) if p["name"] == "self" else p["name"] + ":" + p["ty"]), "attrs": p["attrs"]} for p in it["inputs"]]})
    return {"attrs": attrs, "methods": ms}


def run(ctx):
    ctx.cov["trusted_base"] = ["Lean 4.33 kernel", "axioms: propext, Classical.choice, Quot.sound only (audited)",
                               "translator: recognises the StripInput fold and the three macro front-ends in the current source",
                               "L1 harness: independent statement of the pass-through rule in harness/hook (spec_strip_*), syn's parser/printer"]
    ctx.assumptions += ["a trailing comma after the last parameter is not considered part of the item as written",
                        "the lint attribute `#[allow(clippy::new_without_default)]` the contract macro adds in front of the impl is not a change of the input",
                        "determinism of the real expander is observed (2 expansions in-process + 1 in a second process per program), not proved"]
    translate.regenerate()
    # function translator: remove_input_attr and the four folds of `impl Fold for StripInput` -> Extracted/StripFns.lean; the theorems of
    # Thm/StripFn.lean (the fold equals the model's `strip` on every item) are re-checked against what the source says now
    strip_problems = rs2lean.regenerate("strip")
    ctx.cov["function_translator_strip"] = {"source": "sylvia-derive/src/fold.rs (StripInput)", "output": "lean/Sylvia/Extracted/StripFns.lean", "problems": strip_problems}
    if strip_problems:
        ctx.obligation_failed("function-translator(strip)", "; ".join(strip_problems)[:1500])
    c.prove(ctx, ["Sylvia.Thm.C13"], THEOREMS)

    n = ctx.size(600, 30000)
    items = [gen_item(ctx.rng, i) for i in range(n)]
    progs = [("g%d" % i, m, a, s) for i, (m, a, s, _) in enumerate(items)]
    # entry_points re-emits its input unchanged: reuse the contracts
    ep = [("e%d" % i, "entry_points", "", s) for i, (m, a, s, _) in enumerate(items) if m == "contract"][: n // 4]
    res = l1.expand(progs + ep, "C13", level="first")
    res2 = l1.expand(progs[: n // 3] + ep[: n // 12], "C13b", level="first")   # a second process, for determinism
    ops, impl = [], []
    bad = 0
    kinds = set()
    for (pid, macro, _, src), (_, _, _, ab) in zip(progs, items):
        f = res[pid]
        if f["status"] != "clean":
            continue
        ops.append("strip " + gen.dumps(ab))
        obs = observed_strip(f.get("first"))
        if obs is not None:
            for m, am in zip(obs["methods"], ab["methods"]):
                m["name"] = am["rest"] if m["name"] == am["rest"] else m["name"] + "!=" + am["rest"]
        impl.append(json.dumps(obs, separators=(",", ":"), ensure_ascii=False))
    model = [json.dumps(json.loads(m), separators=(",", ":"), ensure_ascii=False) for m in c.run_driver(ops)]
    ndiff = c.diff_streams(ctx, "L1-strip", ops, impl, model)
    nclean = 0
    for (pid, macro, _, src) in progs + ep:
        f = res[pid]
        if f["status"] != "clean":
            continue
        nclean += 1
        kinds.add((macro, len(src.split("\n")), src.count("#[")))
        if f.get("passthrough") != "eq":
            bad += 1
            cls = "helper-param-attr-stripped" if re.search(r"want=.*#\[(cfg|allow)", f.get("passthrough", "")) and macro != "entry_points" else "pass-through-altered"
            ctx.violation(cls, "%s macro did not re-emit its input as written: %s" % (macro, f.get("passthrough")),
                          {"macro": macro, "source": src, "observed_vs_required": f.get("passthrough")})
        if not f.get("deterministic", True):
            ctx.violation("nondeterministic", "two expansions of the same input differ", {"macro": macro, "source": src})
        if pid in res2 and res2[pid].get("hash") != f.get("hash"):
            ctx.violation("nondeterministic-across-processes", "expansion differs between two processes", {"macro": macro, "source": src})
    ctx.add_stream("L1-generated", len(progs) + len(ep), len(kinds), samples=[progs[0][3], progs[1][3]],
                   clean=nclean, model_disagreements=ndiff, passthrough_failures=bad, second_process=len(res2))
    # real sources of the repository
    files = []
    for base in ("sylvia/tests", "examples", "sylvia/src"):
        for d, _, fs in os.walk(os.path.join(c.REPO, base)):
            if "/ui" in d or "/target" in d:
                continue
            files += [os.path.join(d, f) for f in sorted(fs) if f.endswith(".rs")]
    lst = os.path.join(c.CACHE, "c13_files.txt")
    open(lst, "w").write("\n".join(sorted(files)) + "\n")
    outp = os.path.join(c.CACHE, "c13_scan.jsonl")
    c.run_hook("scan", lst, outp)
    real = [json.loads(l) for l in open(outp) if l.strip()]
    for r in real:
        if r.get("status") == "clean" and r.get("passthrough") != "eq":
            ctx.violation("pass-through-altered-real-source", "%s: %s" % (r["id"], r.get("passthrough")), r)
        if r.get("status") == "clean" and not r.get("deterministic", True):
            ctx.violation("nondeterministic", "%s expands differently twice" % r["id"], r)
    ctx.add_stream("L1-real-sources", len(real), len({r["id"].split("#")[0] for r in real}), samples=[real[0]["id"] if real else "none"],
                   files=len(files), clean=sum(1 for r in real if r.get("status") == "clean"))
    ctx.cov["traces_validated_against_impl"] += len(ops) + len(real)
    # static scan for sources of nondeterminism in the derive crate
    hits = []
    for d, _, fs in os.walk(os.path.join(c.REPO, "sylvia-derive", "src")):
        for f in fs:
            t = open(os.path.join(d, f)).read()
            for m in re.finditer(r"\b(HashMap|HashSet|SystemTime|Instant::now|thread_rng|env::var\b)", t):
                hits.append("%s: %s" % (f, m.group(0)))
    ctx.cov["nondeterminism_source_scan"] = hits
    if hits:
        ctx.obligation_failed("nondeterminism-scan", "derive crate now uses %s" % hits[:3])
    ctx.cov["rule"] = ("random impl blocks / traits with framework and foreign attributes at item, method and parameter level, helper methods, "
                       "nested items, doc comments (non-trivial = expands cleanly; distinct by (macro, lines, attribute count)); plus every "
                       "macro-annotated item under sylvia/tests, sylvia/src and examples/")
    if ctx.violations:
        for o in ctx.obligation_failures:
            o["explained_by_known"] = True
