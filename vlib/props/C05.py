"""C05 — name collisions between a contract and its interfaces are rejected at build time."""
import itertools

from .. import common as c

THEOREMS = [("Sylvia.Thm.C05", "C05." + t) for t in
            ["terminates", "panic_sound", "complete", "spec", "rejects_iff", "spec_bytes"]] + \
           [("Sylvia.Lemmas.Inter4", "Inter.nextIndex_ongoing"), ("Sylvia.Lemmas.Lex", "Lex.strictTotal")]


def hexs(b):
    return "x" + b.hex()


def spec_of(tup):
    if not tup:
        return "-"
    return "|".join(",".join(hexs(n) for n in arr) for arr in tup)


def gen_tuples(ctx):
    uni = [b"a", b"ab", b"b", b"ba"]
    subsets = [tuple(sorted(s)) for r in range(len(uni) + 1) for s in itertools.combinations(uni, r)]
    max_arrays = ctx.size(3, 5)
    out = [()]
    for n in range(1, max_arrays + 1):
        out.extend(itertools.product(subsets, repeat=n))
    exhaustive_n = len(out)
    rng = ctx.rng
    pool = [b"", b"a", b"aa", b"ab", b"abc", b"b", b"exec", b"exec_a", b"exec_b", b"transfer", b"transfer2_x",
            b"transfer_2_x", b"z", "é".encode(), "é".encode(), b"~", b"_", b"__", b"A", b"Z", b"a_", b"a0"]
    for _ in range(ctx.size(20000, 300000)):
        n = rng.choice([0, 1, 2, 2, 3, 3, 4, 5, 6, 7, 8])
        prefix = rng.choice([b"", b"", b"msg_", b"a" * rng.randint(1, 6)])
        tup = []
        for _ in range(n):
            k = rng.choice([0, 0, 1, 2, 3, 4, 6])
            names = set()
            for _ in range(k):
                if rng.random() < 0.5:
                    names.add(prefix + rng.choice(pool))
                else:
                    names.add(prefix + bytes(rng.choice(b"abcxyz_019") for _ in range(rng.randint(0, 4))))
            tup.append(tuple(sorted(names)))
        out.append(tuple(tup))
    return out, exhaustive_n


def oracle(tup):
    seen = {}
    for i, arr in enumerate(tup):
        for n in arr:
            if n in seen and seen[n] != i:
                return "panic"
            seen[n] = i
    return "ok"


def run(ctx):
    ctx.assumptions += [
        "model Inter.assertNoIntersection corresponds to sylvia::utils::assert_no_intersection (checked by the L3 stream on every run)",
        "konst::cmp_str / eq_str are byte-wise lexicographic order / equality (validated by the stream incl. non-ASCII names)",
        "a panic during const evaluation is a compile error (Rust semantics)",
    ]
    ctx.cov["trusted_base"] = ["Lean 4.33 kernel", "axioms: propext, Classical.choice, Quot.sound only (audited)",
                               "correspondence harness harness/rt (Rust) + svmodel driver", "python oracle for disjointness"]
    c.prove(ctx, ["Sylvia.Thm.C05"], THEOREMS)

    exe = c.build_rt()
    tuples, exhaustive_n = gen_tuples(ctx)
    ops = ["inter " + spec_of(t) for t in tuples]
    impl = c.run_lines(exe, ops)
    model = c.run_driver(ops)
    c.diff_streams(ctx, "L3-inter", ops, impl, model)
    bad = 0
    nontrivial = set()
    for t, op, r in zip(tuples, ops, impl):
        exp = oracle(t)
        if sum(1 for a in t if a) >= 2:
            nontrivial.add(op)
        if r != exp:
            bad += 1
            ctx.violation("overlap-check-wrong", "assert_no_intersection(%s) -> %s, required %s" % (
                [[n.decode("utf8", "replace") for n in a] for a in t], r, exp),
                {"op": op, "observed": r, "required": exp, "how": "echo '<op>' | .cache/target/debug/verif-rt"})
    ctx.add_stream("L3-inter", len(ops), len(nontrivial),
                   samples=[ops[5], ops[exhaustive_n // 2], ops[-1]],
                   exhaustive_prefix=exhaustive_n, panics=sum(1 for r in impl if r == "panic"),
                   oks=sum(1 for r in impl if r == "ok"), oracle_failures=bad)
    ctx.cov["traces_validated_against_impl"] += len(ops)
    ctx.cov["rule"] = ("all tuples of <=%d sorted duplicate-free arrays over {a,ab,b,ba} (exhaustive), then random tuples of 0..8 arrays "
                       "with shared prefixes and non-ASCII names; non-trivial = at least two non-empty arrays; distinct by op text"
                       % ctx.size(3, 5))
