"""C05 — name collisions between a contract and its interfaces are rejected at build time."""
import itertools

import copy
import json
import os
import random

from .. import casing, common as c, corpus, l2, translate, namebins, rs2lean

THEOREMS = [("Sylvia.Thm.C05", "C05." + t) for t in
            ["terminates", "panic_sound", "complete", "spec", "rejects_iff", "spec_bytes"]] + \
           [("Sylvia.Thm.C05Refine", "C05R." + t) for t in
            ["main_loop", "top", "code_spec", "code_panic_sound", "code_spec_bytes", "gnai_eq", "vnc_eq", "should_end_eq", "init_eq", "upd_abs"]] + \
           [("Sylvia.Lemmas.Inter4", "Inter.nextIndex_ongoing"), ("Sylvia.Lemmas.Lex", "Lex.strictTotal"),
            ("Sylvia.Thm.C05Gen", "C05.nameList_sorted"), ("Sylvia.Thm.C05Gen", "C05.nameList_are_wire_names"),
            ("Sylvia.Thm.C05Gen", "C05.nameList_length"), ("Sylvia.Thm.PublishedFn", "PublishedFn.serde_snake_case_eq"), ("Sylvia.Thm.Obl.Published", "Obl.published_rule_is_wire_rule")] + \
           [("Sylvia.Thm.Obl.Wrapper", "Obl.wrapper_forms"), ("Sylvia.Thm.Obl.Complete.C05", "Obl.extraction_complete_C05")]


def hexs(b):
    return "x" + b.hex()


def spec_of(tup):
    if not tup:
        return "-"
    return "|".join(",".join(hexs(n) for n in arr) for arr in tup)


def gen_tuples(ctx):
    uni = [b"a", b"ab", b"b", b"ba"]
    subsets = [tuple(sorted(s)) for r in range(len(uni) + 1) for s in itertools.combinations(uni, r)]
    max_arrays = ctx.size(3, 5)
    out = [()]
    for n in range(1, max_arrays + 1):
        out.extend(itertools.product(subsets, repeat=n))
    exhaustive_n = len(out)
    rng = ctx.rng
    pool = [b"", b"a", b"aa", b"ab", b"abc", b"b", b"exec", b"exec_a", b"exec_b", b"transfer", b"transfer2_x",
            b"transfer_2_x", b"z", "é".encode(), "é".encode(), b"~", b"_", b"__", b"A", b"Z", b"a_", b"a0"]
    for _ in range(ctx.size(20000, 300000)):
        n = rng.choice([0, 1, 2, 2, 3, 3, 4, 5, 6, 7, 8])
        prefix = rng.choice([b"", b"", b"msg_", b"a" * rng.randint(1, 6)])
        tup = []
        for _ in range(n):
            k = rng.choice([0, 0, 1, 2, 3, 4, 6])
            names = set()
            for _ in range(k):
                if rng.random() < 0.5:
                    names.add(prefix + rng.choice(pool))
                else:
                    names.add(prefix + bytes(rng.choice(b"abcxyz_019") for _ in range(rng.randint(0, 4))))
            tup.append(tuple(sorted(names)))
        out.append(tuple(tup))
    return out, exhaustive_n


def oracle(tup):
    seen = {}
    for i, arr in enumerate(tup):
        for n in arr:
            if n in seen and seen[n] != i:
                return "panic"
            seen[n] = i
    return "ok"


def run(ctx):
    ctx.assumptions += [
        "Extracted.Utils.* is regenerated from sylvia/src/utils.rs by the function translator (vlib/rs2lean.py) on every run; C05R.code_spec is proved about that regenerated code, by refinement to the zipper model Inter.*; the translator itself is validated by running the regenerated code next to the real const fn (stream L3-inter-regenerated)",
        "Rust semantics assumed by the translation: usize arithmetic does not overflow (Nat), array indexing panics out of bounds, const generic N equals the length of the argument array",
        "konst::cmp_str / eq_str are byte-wise lexicographic order / equality (validated by the stream incl. non-ASCII names)",
        "a panic during const evaluation is a compile error (Rust semantics)",
    ]
    ctx.cov["trusted_base"] = ["Lean 4.33 kernel", "axioms: propext, Classical.choice, Quot.sound only (audited)",
                               "correspondence harness harness/rt (Rust) + svmodel driver", "python oracle for disjointness"]
    translate.regenerate()
    # function translator: serde_snake_case of sylvia-derive (the rule behind the published name lists) -> Extracted/CasingFns.lean
    casing_problems = rs2lean.regenerate("casing")
    ctx.cov["function_translator_casing"] = {"source": "sylvia-derive/src/types/msg_variant.rs::serde_snake_case", "problems": casing_problems}
    if casing_problems:
        ctx.obligation_failed("function-translator(casing)", "; ".join(casing_problems)[:1500])
    # function translator: sylvia/src/utils.rs -> Extracted/UtilsFns.lean; the refinement theorems of Thm/C05Refine.lean
    # are re-checked against what it produced from the current source
    fn_problems = rs2lean.regenerate()
    ctx.cov["function_translator"] = {"source": "sylvia/src/utils.rs", "output": "lean/Sylvia/Extracted/UtilsFns.lean", "problems": fn_problems}
    if fn_problems:
        ctx.obligation_failed("function-translator", "; ".join(fn_problems)[:1500])
    c.prove(ctx, sorted({m for m, _ in THEOREMS}), THEOREMS)

    exe = c.build_rt(own="inter")
    tuples, exhaustive_n = gen_tuples(ctx)
    ops = ["inter " + spec_of(t) for t in tuples]
    impl = c.run_lines(exe, ops)
    model = c.run_driver(ops)
    c.diff_streams(ctx, "L3-inter", ops, impl, model)
    # the regenerated functions themselves, run by the driver on the same tuples (validates the function translator)
    modelx = c.run_driver_x(ctx, "svx_utils", ["interx " + spec_of(t) for t in tuples])
    nx = c.diff_streams(ctx, "L3-inter-regenerated", ops, impl, modelx)
    ctx.cov["streams"]["L3-inter-regenerated"] = {"evaluations": len(ops), "distinct_nontrivial": 0, "disagreements": nx,
                                                  "what": "Extracted.Utils.assert_no_intersection (regenerated from source) vs the real const fn"}
    bad = 0
    nontrivial = set()
    for t, op, r in zip(tuples, ops, impl):
        exp = oracle(t)
        if sum(1 for a in t if a) >= 2:
            nontrivial.add(op)
        if r != exp:
            bad += 1
            ctx.violation("overlap-check-wrong", "assert_no_intersection(%s) -> %s, required %s" % (
                [[n.decode("utf8", "replace") for n in a] for a in t], r, exp),
                {"op": op, "observed": r, "required": exp, "how": "echo '<op>' | .cache/target/debug/verif-rt"})
    ctx.add_stream("L3-inter", len(ops), len(nontrivial),
                   samples=[ops[5], ops[exhaustive_n // 2], ops[-1]],
                   exhaustive_prefix=exhaustive_n, panics=sum(1 for r in impl if r == "panic"),
                   oks=sum(1 for r in impl if r == "ok"), oracle_failures=bad)
    ctx.cov["traces_validated_against_impl"] += len(ops)
    namebins.stream(ctx)
    ctx.cov["rule"] = ("all tuples of <=%d sorted duplicate-free arrays over {a,ab,b,ba} (exhaustive), then random tuples of 0..8 arrays "
                       "with shared prefixes and non-ASCII names; non-trivial = at least two non-empty arrays; distinct by op text"
                       % ctx.size(3, 5))

    lists_stream(ctx)
    compile_fail_stream(ctx)


def lists_stream(ctx):
    """published lists of generated parts: sorted, duplicate-free, and exactly the top-level keys of the serialised variants"""
    progs, exes = l2.get_corpus(ctx)
    rng = random.Random(ctx.seed + 55)
    ops = {}
    for p in progs:
        lst = ops.setdefault(p["id"], [])
        for kind in ("exec", "query", "sudo"):
            lst.append("lists " + kind)
            for idx, pid_, label, ms in l2.parts_of(p, kind):
                for m in ms:
                    vals = [corpus.rand_value(rng, a["ty"]) for a in m["args"]]
                    lst.append("ser %d %s %s %s" % (idx, kind, m["name"], corpus.jtext(vals)))
    rows, ndiff = l2.execute(ctx, "L2-lists", progs, exes, ops)
    l2.report_diffs(ctx, "L2-lists", rows)
    progs_by_id = {p["id"]: p for p in progs}
    bad = 0
    cur = None
    keys = {}
    for pid, op, a, b in rows + [(None, "lists end", "", "")]:
        if op.startswith("lists "):
            if cur is not None:
                cpid, ckind, got = cur
                nparts = len(l2.parts_of(progs_by_id[cpid], ckind))
                want = [sorted(keys.get(i, []), key=lambda s: s.encode()) for i in range(nparts)]
                if got != want:
                    bad += 1
                    ctx.violation("published-list-not-wire-names", "%s lists %s but its parts serialise under %s" % (ckind, got, want),
                                  {"program": corpus.render_module(progs_by_id[cpid]), "op": "%s lists %s" % (cpid, ckind), "observed": got, "required": want})
                for l in got:
                    if l != sorted(set(l), key=lambda s: s.encode()):
                        bad += 1
                        ctx.violation("published-list-unsorted", "published list %s is not sorted / duplicate-free" % l,
                                      {"program": corpus.render_module(progs_by_id[cpid]), "op": "%s lists %s" % (cpid, ckind)})
            if pid is None:
                break
            cur = (pid, op.split()[1], [l.split(",") if l else [] for l in a.split("|")])
            keys = {}
        else:
            part = int(op.split()[1])
            try:
                keys.setdefault(part, []).append(list(json.loads(a[3:a.rindex(" ")]))[0])
            except Exception:
                keys.setdefault(part, []).append("?" + a)
    ctx.add_stream("L2-lists", len(rows), len({r[1] for r in rows}), samples=[r[1] for r in rows[:2]], programs=len(progs),
                   model_disagreements=ndiff, oracle_failures=bad)
    ctx.cov["traces_validated_against_impl"] += len(rows)


BIN_RS = """#[path = "../prelude.rs"]
mod prelude;
%s
fn main() {}
"""


def compile_fail_stream(ctx):
    """programs whose parts share a wire name (same kind) must fail to build; sharing only across kinds must build"""
    rng = random.Random(ctx.seed * 3 + 9)
    n = ctx.size(10, 60)
    cases = []
    tries = 0
    while len(cases) < 2 * n and tries < 50 * n:
        tries += 1
        p = corpus.gen_program(rng, len(cases), wild_p=0.3, n_ifaces=rng.choice([1, 2]))
        kind = rng.choice(["exec", "query", "sudo"])
        parts = [(i, ms) for i, _, _, ms in l2.parts_of(p, kind) if ms]
        if len(parts) < 2:
            continue
        (ia, msa), (ib, msb) = rng.sample(parts, 2)
        victim, donor = rng.choice(msa), rng.choice(msb)
        q = copy.deepcopy(p)
        collide = len(cases) % 2 == 0
        # rename `victim`: either to the donor's name (same kind -> overlap) or keep kinds apart (control)
        for part in q["ifaces"] + [q["contract"]]:
            for m in part["methods"]:
                if m["name"] == victim["name"] and m["msg"]["kind"] == kind:
                    if collide:
                        m["name"] = donor["name"]
        if collide:
            names = [m["name"] for m in q["contract"]["methods"]]
            if len(names) != len(set(names)) or any(len([m["name"] for m in i["methods"]]) != len({m["name"] for m in i["methods"]}) for i in q["ifaces"]):
                continue
        q["id"] = "cf%d" % len(cases)
        cases.append((q, collide, kind, donor["name"]))
    d = os.path.join(c.WS, "cfail")
    toml = "[package]\nname = \"cfail\"\nversion = \"0.0.0\"\nedition = \"2021\"\npublish = false\n\n[dependencies]\n" \
           "sylvia = { path = \"%s/sylvia\", features = [\"mt\", \"stargate\", \"iterator\", \"cosmwasm_1_4\", \"cosmwasm_2_0\"] }\n" % c.REPO
    c.write_if_changed(os.path.join(d, "Cargo.toml"), toml)
    c.write_if_changed(os.path.join(d, "src", "prelude.rs"), open(os.path.join(c.ROOT, "harness", "corpus", "prelude.rs")).read())
    os.makedirs(os.path.join(d, "src", "bin"), exist_ok=True)
    keep = set()
    for q, collide, kind, name in cases:
        src = corpus.render_module(q).replace("use crate::prelude::*;", "use crate::prelude::*;")
        c.write_if_changed(os.path.join(d, "src", "bin", q["id"] + ".rs"), BIN_RS % src)
        keep.add(q["id"] + ".rs")
    for f in os.listdir(os.path.join(d, "src", "bin")):
        if f not in keep:
            os.remove(os.path.join(d, "src", "bin", f))
    c.ensure_ws_members({"cfail": None})
    p = c.cargo(["check", "--offline", "-p", "cfail", "--bins", "--keep-going", "--message-format=json"], cwd=c.WS, timeout=3600)
    failed, overlap_msg = set(), set()
    for line in p.stdout.split("\n"):
        if not line.startswith("{"):
            continue
        try:
            j = json.loads(line)
        except Exception:
            continue
        if j.get("reason") == "compiler-message" and j["message"].get("level") == "error":
            tname = j.get("target", {}).get("name")
            failed.add(tname)
            if "Message overlaps between interface and contract impl" in json.dumps(j["message"]):
                overlap_msg.add(tname)
    bad = 0
    for q, collide, kind, name in cases:
        did_fail = q["id"] in failed
        if collide and not (did_fail and q["id"] in overlap_msg):
            bad += 1
            ctx.violation("overlap-not-rejected", "two parts expose the %s message %r but the contract %s" % (
                kind, casing.wire_name(name), "compiles" if not did_fail else "fails for another reason"),
                {"program": corpus.render_module(q), "how": "cargo check of the program in a crate depending on /repo/sylvia"})
        if not collide and did_fail:
            bad += 1
            ctx.violation("disjoint-rejected", "no name is shared within a kind but the contract does not compile",
                          {"program": corpus.render_module(q)})
    ctx.add_stream("compile-fail-pairs", len(cases), len(cases), samples=[corpus.render_module(cases[0][0])[:1500]] if cases else [],
                   must_fail=sum(1 for x in cases if x[1]), must_build=sum(1 for x in cases if not x[1]), oracle_failures=bad,
                   cargo_exit=p.returncode)
