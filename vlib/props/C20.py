"""C20 — a stored remote handle has a stable, type-independent encoding."""
import json

from .. import common as c, corpus, rs2lean

THEOREMS = [("Sylvia.Thm.C20", "C20." + t) for t in
            ["remote_encode", "remote_encode_independent", "remote_roundtrip", "remote_cross_type", "remote_schema_name"]] + \
           [("Sylvia.Thm.HandlesFn", "HandlesFn." + t) for t in ["remote_shape", "schema_name_const", "json_schema_impl_fns", "new_borrowed_same"]]
TYPES = ["concrete contract", "generic contract <u64>", "generic contract <Vec<String>>", "dyn Interface<Error=.., CountT=u32>", "str (unsized)", "()"]


def run(ctx):
    ctx.cov["trusted_base"] = ["Lean 4.33 kernel", "axioms: propext, Classical.choice, Quot.sound only (audited)",
                               "L3 rt harness (real sylvia::types::Remote, serde, schemars) + svmodel driver",
                               "JSON string escaping is implemented in the model's printer and validated here, not proved"]
    ctx.assumptions += ["the six type parameters of the harness stand for 'all T' on the implementation side; the theorem quantifies over every index type"]
    # function translator: Remote of sylvia/src/types.rs -> Extracted/HandleFns.lean: constructors, as_ref, the hand-written
    # JsonSchema::schema_name, and the attribute lists of the struct that decide what serde's derive encodes
    handle_problems = rs2lean.regenerate("handles")
    ctx.cov["function_translator_handles"] = {"source": "sylvia/src/types.rs (Remote)", "problems": handle_problems}
    if handle_problems:
        ctx.obligation_failed("function-translator(handles)", "; ".join(handle_problems)[:1500])
    c.prove(ctx, ["Sylvia.Thm.C20"], THEOREMS)
    rng = ctx.rng
    try:
        exe = c.build_rt(own="remote")
    except c.BuildError as e:
        # the harness module for this property is a set of valid programs: handles parameterised by a contract, a generic contract,
        # `dyn Interface<..>`, `str`, `()`, each serialised, deserialised and asked for its schema. If it stops compiling, such a
        # program is a concrete failing input.
        errs = [l for l in e.out.split("\n") if l.startswith("error")][:6]
        ctx.violation("valid-program-rejected", "programs that store / encode / describe a Remote<T> (T a contract, a generic contract, dyn Interface<..>, str, ()) "
                      "no longer compile: " + " | ".join(errs)[:600],
                      {"how": "cargo build of harness/rt (feature remote) against the tree", "compiler_output": e.out[-4000:]})
        ctx.add_stream("L3-remote", 0, 0, samples=["(harness did not build)"])
        return
    addrs = ["", "a", "cosmwasm1jpev2csrppg792t22rn8z8uew8h3sjcpglcd0qv9g8gj8ky922tscp8avs", "with space", 'quo"te', "back\\slash",
             "new\nline", "tab\t", "\u0001\u001f", "üñí€", "𝄞", "a/b", "{\"addr\":\"x\"}", "null", "\u007f", " "]
    for _ in range(ctx.size(300, 20000)):
        n = rng.randint(0, 40)
        addrs.append("".join(rng.choice("abcXYZ019_- \"\\/\n\t\u0001é€𝄞{}[]:,") for _ in range(n)))
    ops, want = [], []
    for a in addrs:
        for ti in range(len(TYPES)):
            for mode in ("owned", "borrowed"):
                ops.append("remote %d %s x%s" % (ti, mode, a.encode().hex()))
                want.append('{"addr":%s}' % corpus.jtext(a))
    docs = ['{"addr":"x"}', '{"addr":"x","extra":1}', '{"extra":[1],"addr":"y"}', '{}', '{"addr":1}', '{"addr":null}', '{"addr":"a","addr":"b"}',
            '["x"]', '"x"', 'null', '{"addr":"x"} z', '{"Addr":"x"}', '{"addr":"x","_phantom":null}', '{"addr":"\\u00e9"}']
    for d in docs:
        for ti in range(len(TYPES)):
            ops.append("remote-de %d %s" % (ti, d))
            want.append(None)
    impl = c.run_lines(exe, ops)
    model = c.run_driver(ops)
    # the model prints no schema hash; compare on the common prefix
    impl_cmp = [" ".join(x.split(" ")[:-1]) if o.startswith("remote ") else x for o, x in zip(ops, impl)]
    c.diff_streams(ctx, "L3-remote", ops, impl_cmp, model)
    bad = 0
    hashes = set()
    for o, w, r in zip(ops, want, impl):
        if w is None:
            continue
        parts = r.rsplit(" ", 3)
        hashes.add(parts[-1])
        if parts[0] != w or parts[1] != "back=true" or parts[2] != "schema=Remote":
            bad += 1
            ctx.violation("remote-encoding", "op %s: observed %s, required %s back=true schema=Remote" % (o, r, w), {"op": o, "observed": r})
    if len(hashes) > 1:
        ctx.violation("remote-schema-depends-on-type", "schema_for!(Remote<T>) differs between type parameters: %s" % sorted(hashes), {"hashes": sorted(hashes)})
    # decoding must not depend on the type parameter either
    k = len(TYPES)
    base = len(addrs) * k * 2
    for i in range(len(docs)):
        rs = set(impl[base + i * k: base + (i + 1) * k])
        if len(rs) != 1:
            ctx.violation("remote-decoding-depends-on-type", "document %s decodes differently per type parameter: %s" % (docs[i], rs), {"doc": docs[i]})
    # one schema document mentioning handles with different type parameters: a single shared definition
    pair_ops = ["remote-pair %d" % ti for ti in range(len(TYPES))]
    for o, r in zip(pair_ops, c.run_lines(exe, pair_ops)):
        if r != "defs=Addr,Remote":
            bad += 1
            ctx.violation("remote-schema-depends-on-type", "a schema mentioning Remote<Concrete>, Remote<%s> and Remote<Generic<u64>> defines %s, required one shared definition (defs=Addr,Remote)" % (
                TYPES[int(o.split(" ")[1])], r), {"op": o, "observed": r})
    ctx.add_stream("L3-remote", len(ops) + len(pair_ops), len(set(addrs)), samples=ops[:2] + ops[-2:], type_parameters=TYPES, oracle_failures=bad)
    ctx.cov["traces_validated_against_impl"] += len(ops)
    ctx.cov["rule"] = "address strings (fixed edge cases + random incl. escapes and non-ASCII) x 6 type parameters x owned/borrowed; 14 documents decoded under every type parameter"
