"""Shared L2 machinery: the compiled corpus of a run, document/value generators for messages, and the
runner that feeds the same operations to the real generated code and to the model driver."""
import json
import random
import re

from . import casing, common as c, corpus, gen

_cache = {}


def get_corpus(ctx, n=None, tag=None, **kw):
    """programs of this run (deterministic in seed and tier) and their executables"""
    n = n or ctx.size(48, 320)
    tag = tag or ("cq" if ctx.quick else "ct")
    key = (tag, n, ctx.seed, tuple(sorted(kw.items())))
    if key not in _cache:
        rng = random.Random(ctx.seed * 7919 + 17)
        progs = [corpus.gen_program(rng, i, **kw) for i in range(n)]
        by_id = {p["id"]: p for p in progs}
        skipped, exes = [], None
        for attempt in range(6):
            try:
                exes = corpus.build_corpus(tag, progs, nshards=16)
                break
            except c.BuildError as e:
                # valid generated programs that stop compiling are themselves concrete failing inputs: report them (see below which
                # checks do), drop them, and go on with the rest of the corpus; the compiler's output may be cut, so prune repeatedly
                bad = sorted(set(re.findall(r"src/(p\d+)_mod\.rs", e.out)) & {p["id"] for p in progs}, key=lambda s: int(s[1:]))
                if not bad or attempt == 5 or len(skipped) + len(bad) > (len(by_id) * 2) // 3:
                    raise
                for pid in bad:
                    m = re.search(r"(error[^\n]*\n(?:[^\n]*\n){0,8}?[^\n]*%s_mod\.rs[^\n]*\n(?:(?!error|warning)[^\n]*\n){0,60})" % pid, e.out)
                    err = m.group(1) if m else ""
                    # A valid program that stops compiling is a failing input of the properties that speak about acceptance / generation
                    # for every program, and of the property whose generated items the compiler complains about; the other checks go on
                    # with the rest of the corpus and record the program as skipped.
                    if not (ctx.pid in REJECTION_IS_VIOLATION or re.search(ERROR_SIGNATURE.get(ctx.pid, "$^"), err)):
                        skipped.append(pid)
                        continue
                    if sum(1 for v in ctx.violations if v["cls"] == "valid-program-rejected") < 3:
                        ctx.violation("valid-program-rejected", "generated program %s (valid on the pinned tree) no longer compiles: %s" % (
                            pid, err[:400].replace("\n", " | ")),
                            {"program": corpus.render_module(by_id[pid]), "rustc": (err or e.out[-2000:])})
                progs = [p for p in progs if p["id"] not in bad]
        if skipped:
            ctx.cov["corpus_programs_not_compiling_skipped"] = skipped
            ctx.assumptions.append("%d corpus programs do not compile on this tree for a reason outside this property's generated items; they are the "
                                   "failing inputs of the acceptance properties (C01, C05, C14, C15, C19) and were skipped here" % len(skipped))
        _cache[key] = (progs, exes)
    return _cache[key]


def run_both(ctx, name, progs, ops_by_prog):
    """ops_by_prog: {pid: [op lines without pid]}. Returns list of (pid, op, impl, model)."""
    progs_by_id = {p["id"]: p for p in progs}
    impl_ops, model_ops, index = [], [], []
    for pid in sorted(ops_by_prog, key=lambda s: int(s[1:])):
        ops = ops_by_prog[pid]
        if not ops:
            continue
        ml = corpus.model_lines(progs_by_id[pid])
        model_ops += ml
        index += [None] * len(ml)
        for op in ops:
            impl_ops.append("%s %s" % (pid, op))
            model_ops.append(op)
            index.append((pid, op))
    return impl_ops, model_ops, index


# properties whose statement covers "every (valid) program is accepted / its messages are generated"
REJECTION_IS_VIOLATION = {"C01", "C05", "C14", "C15", "C19"}
# what the compiler complains about when a property's own generated items are what broke
ERROR_SIGNATURE = {
    "C02": r"dispatch|ExecCtx|QueryCtx|SudoCtx|InstantiateCtx|MigrateCtx",
    "C03": r"Contract(Exec|Query|Sudo)Msg|Deserialize",
    "C04": r"dispatch|entry_points",
    "C06": r"entry_points",
    "C07": r"REPLY_ID|dispatch_reply|ReplyCtx|SubMsgMethods|reply",
    "C08": r"REPLY_ID|SubMsgMethods|payload|reply",
    "C09": r"sv::data|response_data|ReplyCtx",
    "C10": r"Remote|Executor|BoundQuerier|InstantiateBuilder|executor|querier",
    "C12": r"multitest|mt::|CodeId|Proxy|cw_multi_test",
    "C16": r"QueryResponses|response_schemas|JsonSchema",
}


def execute(ctx, name, progs, exes, ops_by_prog):
    impl_ops, model_ops, index = run_both(ctx, name, progs, ops_by_prog)
    impl = corpus.run_ops(exes, impl_ops)
    model_all = c.run_driver(model_ops)
    model = [m for m, ix in zip(model_all, index) if ix is not None]
    if len(model_all) != len(model_ops):
        ctx.obligation_failed("correspondence:" + name, "model driver answered %d of %d lines" % (len(model_all), len(model_ops)))
        return [], 0
    rows = []
    ndiff = 0
    for (pid, op), a, b in zip([ix for ix in index if ix is not None], impl, model):
        rows.append((pid, op, a, b))
        if a != b:
            ndiff += 1
    return rows, ndiff


def report_diffs(ctx, name, rows, is_known=None, limit=3):
    """model-vs-implementation disagreements = broken correspondence (unless explained by a listed finding)"""
    n = 0
    for pid, op, a, b in rows:
        if a != b:
            if is_known and is_known(pid, op, a, b):
                continue
            n += 1
            if n <= limit:
                ctx.obligation_failed("correspondence:" + name, "prog=%s op=%r impl=%r model=%r" % (pid, op[:300], a[:300], b[:300]))
    return n


# ---------------------------------------------------------------------------------------------
# messages and documents
# ---------------------------------------------------------------------------------------------
def parts_of(prog, kind):
    """[(index, part id, label, methods of that kind)] — interfaces in declaration order, then the contract"""
    out = []
    for n, i in enumerate(prog["ifaces"]):
        out.append((n, i["module"], i.get("alias") or casing.upper_camel(i["module"]), [m for m in i["methods"] if m["msg"]["kind"] == kind]))
    out.append((len(out), "ct", "Ct", [m for m in prog["contract"]["methods"] if m["msg"]["kind"] == kind]))
    return out


def valid_fields(rng, m):
    return [(a["name"], corpus.jtext(corpus.rand_value(rng, a["ty"]))) for a in m["args"]]


def obj_text(members):
    return "{" + ",".join("%s:%s" % (json.dumps(k, ensure_ascii=False), v) for k, v in members) + "}"


def msg_doc(kind, m, fields):
    body = obj_text(fields)
    if kind in ("instantiate", "migrate"):
        return body
    return obj_text([(casing.wire_name(m["name"]), body)])


def mutants(rng, prog, kind, m, fields, others):
    """malformed / unusual documents derived from one valid message; (label, text)"""
    wire = casing.wire_name(m["name"])
    body = obj_text(fields)
    out = []
    A = out.append
    A(("unknown-name", obj_text([("no_such_msg_%d" % rng.randrange(9), body)])))
    A(("empty-object", "{}"))
    if rng.random() < 0.3:
        # long unknown documents full of multi-byte characters, shifted byte by byte: whatever the decoder does with the text it echoes
        # (cutting, escaping, measuring) happens at a position inside a character for one of the shifts
        for shift in range(3):
            pad = "a" * shift + "\u00e9\u20ac\U0001d11e" * rng.choice([15, 30, 120, 400])
            A(("unknown-name-long", obj_text([("no_such_msg_%d" % rng.randrange(9), obj_text([("zz", json.dumps(pad, ensure_ascii=False))]))])))
    if others:
        o, ofields = rng.choice(others)
        A(("two-keys", obj_text([(wire, body), (casing.wire_name(o["name"]), obj_text(ofields))])))
    A(("dup-top-key-same", obj_text([(wire, body), (wire, body)])))
    f2 = valid_fields(rng, m)
    A(("dup-top-key-differs", obj_text([(wire, body), (wire, obj_text(f2))])))
    if fields:
        k0, v0 = fields[0]
        a0 = m["args"][0]
        A(("dup-field", obj_text([(wire, obj_text(fields + [(k0, corpus.jtext(corpus.rand_value(rng, a0["ty"])))]))])))
        i = rng.randrange(len(fields))
        ai = m["args"][i]
        wrong = [(k, (corpus.wrong_value(rng, ai["ty"]) if n == i else v)) for n, (k, v) in enumerate(fields)]
        A(("wrong-type", obj_text([(wire, obj_text(wrong))])))
        miss = [kv for n, kv in enumerate(fields) if n != i]
        A(("missing-field", obj_text([(wire, obj_text(miss))])))
        if len(fields) > 1:
            A(("reordered-fields", obj_text([(wire, obj_text(list(reversed(fields))))])))
        nulls = [(k, ("null" if n == i else v)) for n, (k, v) in enumerate(fields)]
        A(("null-field", obj_text([(wire, obj_text(nulls))])))
    extra_val = rng.choice(["1", '"x"', "null", "[1,2]", '{"n":{"d":1}}', "true"])
    A(("extra-field", obj_text([(wire, obj_text(fields + [("zz_extra", extra_val)]))])))
    A(("extra-field-float", obj_text([(wire, obj_text(fields + [("zz_extra", rng.choice(["1.5", "1e3", "-0.0", "123456789012345678901234567890"]))]))])))
    A(("extra-field-dup-inside", obj_text([(wire, obj_text(fields + [("zz_extra", '{"a":1,"a":2}')]))])))
    A(("extra-field-twice", obj_text([(wire, obj_text(fields + [("zz_extra", "1"), ("zz_extra", "2")]))])))
    A(("not-object-array", "[%s]" % obj_text([(wire, body)])))
    A(("not-object-string", json.dumps(wire)))
    A(("not-object-" + rng.choice(["number", "null", "bool"]), rng.choice(["5", "null", "true"])))
    A(("body-" + rng.choice(["array", "scalar", "null", "string"]), obj_text([(wire, rng.choice(["[]", "7", "null", '"x"']))])))
    A(("trailing", obj_text([(wire, body)]) + rng.choice([" x", "}", ",", " {}"])))
    A(("leading-space", "  " + obj_text([(wire, body)]) + " "))
    for alt in {m["name"], casing.upper_camel(m["name"]), casing.cc_snake(casing.upper_camel(m["name"])), wire.upper(), "_" + wire, wire + "_"}:
        if alt != wire:
            A(("name-variant", obj_text([(alt, body)])))
    if kind in ("instantiate", "migrate"):
        # struct messages: re-express the mutants on the flat object
        flat = []
        for lbl, t in out:
            if lbl in ("dup-field", "wrong-type", "missing-field", "reordered-fields", "null-field", "extra-field", "extra-field-float",
                       "extra-field-dup-inside", "extra-field-twice"):
                inner = t[len(obj_text([(wire, "")])) - 1:-1]
                flat.append((lbl, inner))
        flat += [("not-object-array", "[]"), ("not-object-null", "null"), ("trailing", body + " x"), ("wrapped", obj_text([(wire, body)]))]
        return flat
    return out


def has_dup_members(text):
    """does the JSON text contain an object with a repeated member name (at any depth)?"""
    dup = [False]

    def hook(pairs):
        ks = [k for k, _ in pairs]
        if len(ks) != len(set(ks)):
            dup[0] = True
        return dict(pairs)

    try:
        json.loads(text, object_pairs_hook=hook)
    except Exception:
        return False
    return dup[0]


def has_wide_number(text):
    """a number the generic value pass cannot hold (non-integer, or outside i64/u64)"""
    found = [False]

    def pf(s):
        found[0] = True
        return 0.0

    def pi(s):
        v = int(s)
        if v >= 2 ** 64 or v < -2 ** 63:
            found[0] = True
        return v

    try:
        json.loads(text, parse_float=pf, parse_int=pi)
    except Exception:
        return False
    return found[0]
