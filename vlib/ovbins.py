"""contracts overriding entry points, run on a multitest chain (harness/ov/ov_bin.rs)"""
import json
import os

from . import common as c

KINDS = ["instantiate", "exec", "query", "sudo", "migrate", "reply"]
EP = {"instantiate": ("instantiate", "crate::sv::InstantiateMsg"), "exec": ("execute", "crate::sv::ContractExecMsg"), "query": ("query", "crate::sv::ContractQueryMsg"),
      "sudo": ("sudo", "crate::sv::ContractSudoMsg"), "migrate": ("migrate", "crate::sv::MigrateMsg"), "reply": ("reply", "sylvia::cw_std::Reply")}
# (the order is the order of the override attributes on the contract: `reply` first shifts position-based lookups)
SETS = [[k] for k in KINDS] + [KINDS, [], ["exec", "reply"], ["sudo", "migrate", "query"], ["reply", "sudo", "migrate"], ["migrate", "reply", "exec", "sudo"]]


def name_of(s):
    return "ov_" + ("_".join(s) if s else "none")


def source_of(s):
    tmpl = open(os.path.join(c.ROOT, "harness", "ov", "ov_bin.rs")).read()
    attrs = "\n".join("#[sv::override_entry_point(%s=crate::ov::%s(%s))]" % (k, EP[k][0], EP[k][1]) for k in s)
    return tmpl.replace("@ATTRS@", attrs).replace("@KINDS@", ",".join(s) or "none")


def build():
    """returns ({name: exe}, {name: [rustc errors]})"""
    d = os.path.join(c.WS, "cov")
    toml = ("[package]\nname = \"cov\"\nversion = \"0.0.0\"\nedition = \"2021\"\npublish = false\n\n[dependencies]\n"
            "sylvia = { path = \"%s/sylvia\", features = [\"mt\", \"stargate\", \"iterator\", \"cosmwasm_1_4\", \"cosmwasm_2_0\"] }\n" % c.REPO)
    c.write_if_changed(os.path.join(d, "Cargo.toml"), toml)
    c.write_if_changed(os.path.join(d, "src", "prelude.rs"), open(os.path.join(c.ROOT, "harness", "corpus", "prelude.rs")).read())
    os.makedirs(os.path.join(d, "src", "bin"), exist_ok=True)
    keep = set()
    for s in SETS:
        c.write_if_changed(os.path.join(d, "src", "bin", name_of(s) + ".rs"), source_of(s))
        keep.add(name_of(s) + ".rs")
    for f in os.listdir(os.path.join(d, "src", "bin")):
        if f not in keep:
            os.remove(os.path.join(d, "src", "bin", f))
    c.ensure_ws_members({"cov": None})
    p = c.cargo(["build", "--offline", "-p", "cov", "--bins", "--keep-going", "--message-format=json"], cwd=c.WS, timeout=3600)
    errors = {}
    for line in p.stdout.split("\n"):
        if line.startswith("{"):
            try:
                j = json.loads(line)
            except Exception:
                continue
            if j.get("reason") == "compiler-message" and j["message"].get("level") == "error":
                errors.setdefault(j.get("target", {}).get("name"), []).append(j["message"]["message"])
    exes = {name_of(s): os.path.join(c.TARGET, "debug", name_of(s)) for s in SETS if name_of(s) not in errors}
    if p.returncode != 0 and not errors:
        raise c.BuildError("override corpus build failed", p.stderr[-4000:])
    return exes, errors


def expected(s):
    """what the property requires: the override runs exactly for the overridden kinds, the handlers run through the default dispatch otherwise"""
    ov = []
    ran = []
    # instantiate, exec go -> (submessage) exec noop -> reply, sudo, migrate
    for k, h in (("instantiate", "instantiate"), ("exec", "go"), ("exec", "noop"), ("reply", "on_reply2#7"), ("sudo", "su"), ("migrate", "mig")):
        if k in s:
            ov.append(k if k != "reply" else "reply#7")
            if k != "reply":
                ran.append(h)    # the override delegates to the default dispatch
        else:
            ran.append(h)
    q = "ov-query" if "query" in s else "handler-get"
    # second phase: the overrides fail with a bare StdError; a proxy returns it as a value of the contract's error type (through From)
    perr = lambda k: ("err CE::Std(Generic error: ov-fail:%s)" % k) if k in s else "ok"
    return "; ".join(["exec=ok", "sudo=ok", "migrate=ok", "query=%s" % q, "ov=[%s]" % "".join(x + "," for x in ov), "ran=[%s]" % "".join(x + "," for x in ran),
                      "p_exec=" + perr("exec"), "p_sudo=" + perr("sudo"), "p_migrate=" + perr("migrate"), "p_instantiate=" + perr("instantiate")])
