"""Translator, Lean side: turns the generic dump of sylvia-derive's current sources (produced by the
hook harness in `extract` mode) into lean/Sylvia/Extracted/Tables.lean. Anything it cannot classify is
recorded in `Extracted.problems`, and the obligation `Extracted.problems = []` then fails."""
import json
import os
import re

from . import common as c

KINDS = {"Exec": "exec", "Query": "query", "Instantiate": "instantiate", "Migrate": "migrate", "Reply": "reply", "Sudo": "sudo"}
KIND_ORDER = ["Exec", "Query", "Instantiate", "Migrate", "Reply", "Sudo"]
REPLYON = {"Success": "success", "Error": "error", "Always": "always"}


def lstr(s):
    b = s.encode()
    return "[%s] /- %s -/" % (", ".join(str(x) for x in b), s.replace("-/", "- /").replace("/-", "/ -"))


def llist(xs):
    return "[" + ", ".join(xs) + "]"


class ProblemList(list):
    """problems tagged with the translator section (scope) that reported them, so that every property depends only on
    the sections its model reads"""
    scope = "dump"

    def append(self, msg):
        list.append(self, (self.scope, msg))


# which translator sections each property's model (tables, forms, templates) is read from
PROP_SCOPES = {
    "C01": ["kinds", "casing", "names"],
    "C02": ["kinds", "names", "ctx", "dispatch"],
    "C03": ["kinds", "casing", "published", "wrapper"],
    "C04": ["kinds", "names", "ctx", "dispatch", "override", "entry_points"],
    "C05": ["casing", "published", "wrapper"],
    "C06": ["kinds", "names", "override", "features", "entry_points"],
    "C07": ["reply", "reply_on", "features", "data_guards"],
    "C08": ["reply", "reply_on", "payload"],
    "C09": ["data_guards", "data"],
    "C10": ["kinds", "published", "dispatch"],
    "C11": ["into_response", "custom"],
    "C12": ["multitest", "kinds", "names"],
    "C13": ["strip", "sv_attrs"],
    "C14": ["kinds", "reply", "reply_on", "entry_points", "published"],
    "C15": [],
    "C16": ["msg_args"],
    "C17": ["kinds", "msg_attr_fwd", "sv_attrs"],
    "C18": ["kinds", "reply", "reply_on", "sv_attrs", "data", "payload", "features", "custom", "msg_args", "override"],
    "C19": ["templates"],
    "C20": [],
}


class Dump:
    def __init__(self, files):
        self.files = {f["file"]: f for f in files}
        self.problems = ProblemList()

    def fn(self, file, container, name):
        f = self.files.get(file)
        if not f or "fns" not in f:
            self.problems.append("file not found or unparsable: " + file)
            return None
        for fn in f["fns"]:
            if fn["container"] == container and fn["name"] == name:
                return fn
        self.problems.append("fn not found: %s %s::%s" % (file, container, name))
        return None

    def match(self, file, container, name, scrut_re, nth=0):
        fn = self.fn(file, container, name)
        if fn is None:
            return None
        ms = [m for m in fn["matches"] if re.search(scrut_re, m["scrutinee"])]
        if len(ms) <= nth:
            self.problems.append("match not found: %s %s::%s on /%s/" % (file, container, name, scrut_re))
            return None
        return ms[nth]


def lit_of(pat):
    m = re.fullmatch(r'"((?:[^"\\]|\\.)*)"', pat)
    return m.group(1) if m else None


def last_ctor(body, enum_names):
    """last path segment of the first `Self::X` / `<Enum>::X` in an arm body"""
    m = re.search(r"(?:Self|%s)::(\w+)" % "|".join(enum_names), body)
    return m.group(1) if m else None


def str_table(d, key, enum_names, ctor_map, lean_ty):
    """match on a string literal -> constructor"""
    m = d.match(*key)
    rows = []
    if m is None:
        return rows
    for a in m["arms"]:
        for p in a["pats"]:
            lit = lit_of(p)
            if lit is None:
                if p in ("_", "&_"):
                    if not re.search(r"Err\(|returnErr|None", a["body"]):
                        d.problems.append("%s: wildcard arm is not a rejection: %s" % (key[2], a["body"][:80]))
                    continue
                d.problems.append("%s: unclassified pattern %s" % (key, p))
                continue
            ctor = last_ctor(a["body"], enum_names)
            if ctor is None or ctor not in ctor_map:
                d.problems.append("%s: arm %s has unclassified result %s" % (key, p, a["body"][:80]))
                continue
            rows.append((lit, ctor_map[ctor]))
    return rows


def str_set(d, key):
    """match on a string literal whose arms only set a flag / accept: the accepted vocabulary"""
    m = d.match(*key)
    rows = []
    if m is None:
        return rows
    for a in m["arms"]:
        for p in a["pats"]:
            lit = lit_of(p)
            if lit is not None:
                rows.append(lit)
            elif p not in ("_", "&_"):
                d.problems.append("%s: unclassified pattern %s" % (key, p))
    return rows


def kind_of_pat(p):
    m = re.fullmatch(r"(?:MsgType::|Self::)?(\w+)", p)
    if m and m.group(1) in KINDS:
        return m.group(1)
    return None


def kind_arms(d, key):
    """match self { kinds => body }: returns list of (KindName, arm) with wildcards expanded in source order"""
    m = d.match(*key)
    out = []
    if m is None:
        return out
    seen = set()
    for a in m["arms"]:
        if a["guard"]:
            d.problems.append("%s: guarded arm not supported: %s" % (key, a["guard"]))
            continue
        for p in a["pats"]:
            if p == "_":
                for k in KIND_ORDER:
                    if k not in seen:
                        seen.add(k)
                        out.append((k, a))
            else:
                k = kind_of_pat(p)
                if k is None:
                    d.problems.append("%s: unclassified kind pattern %s" % (key, p))
                elif k not in seen:
                    seen.add(k)
                    out.append((k, a))
    missing = [k for k in KIND_ORDER if k not in seen]
    if missing:
        d.problems.append("%s: kinds without arm: %s" % (key, missing))
    return out


def single_ident(arm):
    t = arm.get("body_tokens")
    if arm["body_kind"] in ("parse_quote", "quote") and t and len(t) == 1 and t[0][0] == "I":
        return t[0][1]
    return None


def kind_ident_table(d, key, fallback=None):
    rows = []
    for k, a in kind_arms(d, key):
        i = single_ident(a)
        if i is None:
            m = re.fullmatch(r"self\.(\w+)\(\)", a["body"])
            if m and fallback and m.group(1) == fallback[0]:
                i = dict(fallback[1]).get(k)
            if i is None:
                d.problems.append("%s: arm for %s is not a single identifier: %s" % (key, k, a["body"][:80]))
                continue
        rows.append((k, i))
    return rows


def split_top(tokens):
    """split a flat token list at top-level commas (angle brackets tracked)"""
    if tokens and tokens[0] == ["O", "("] and tokens[-1] == ["C", ")"]:
        depth = 0
        ok = True
        for i, t in enumerate(tokens[1:-1]):
            if t[0] == "O":
                depth += 1
            elif t[0] == "C":
                depth -= 1
                if depth < 0:
                    ok = False
        if ok:
            tokens = tokens[1:-1]
    parts, cur, depth, angle = [], [], 0, 0
    prev = None
    for t in tokens:
        if t[0] == "O":
            depth += 1
        elif t[0] == "C":
            depth -= 1
        elif t[0] == "P" and t[1] == "<":
            angle += 1
        elif t[0] == "P" and t[1] == ">" and not (prev and prev[0] == "P" and prev[1] == "-"):
            angle -= 1
        if t[0] == "P" and t[1] == "," and depth == 0 and angle == 0:
            parts.append(cur)
            cur = []
        else:
            cur.append(t)
        prev = t
    if cur:
        parts.append(cur)
    return parts


def literal_idents(tokens):
    """identifiers of a template that are literal (not `#interpolated`)"""
    out = []
    prev = None
    for t in tokens:
        if t[0] == "I" and not (prev and prev[0] == "P" and prev[1] == "#"):
            out.append(t[1])
        prev = t
    return out


def ctx_tables(d):
    f = "types/msg_type.rs"
    ty, vals, params = [], [], []
    for k, a in kind_arms(d, (f, "MsgType", "emit_ctx_type", r"^self$")):
        parts = split_top(a["body_tokens"] or [])
        heads = []
        for p in parts:
            ids = [i for i in literal_idents(p) if i not in ("cw_std",)]
            heads.append(ids[0] if ids else "?")
        ty.append((k, heads))
    for k, a in kind_arms(d, (f, "MsgType", "emit_ctx_values", r"^self$")):
        parts = split_top(a["body_tokens"] or [])
        vals.append((k, [(literal_idents(p) or ["?"])[0] for p in parts]))
    for k, a in kind_arms(d, (f, "MsgType", "emit_ctx_params", r"^self$")):
        parts = split_top(a["body_tokens"] or [])
        row = []
        for p in parts:
            ids = [i for i in literal_idents(p) if i not in ("cw_std",)]
            row.append((ids[0] if ids else "?", ids[1] if len(ids) > 1 else "?"))
        params.append((k, row))
    return ty, vals, params


def result_table(d):
    rows = []
    for k, a in kind_arms(d, ("types/msg_type.rs", "MsgType", "emit_result_type", r"^self$")):
        b = a["body"]
        if "cw_std::Binary" in b and "Response" not in b:
            rows.append((k, "true"))
        elif "cw_std::Response<#msg_type>" in b:
            rows.append((k, "false"))
        else:
            d.problems.append("emit_result_type: unclassified arm for %s: %s" % (k, b[:80]))
    return rows


LEG0 = "quote!{contract.#function_name(Into::into(ctx),#(#args),*).map_err(Into::into)}"
LEG1 = "quote!{#sylvia::cw_std::to_json_binary(&contract.#function_name(Into::into(ctx),#(#args),*)?).map_err(Into::into)}"


def dispatch_leg_table(d):
    rows = []
    for k, a in kind_arms(d, ("types/msg_type.rs", "MsgType", "emit_dispatch_leg", r"^self$")):
        b = a["body"]
        if b == LEG0:
            rows.append((k, 0))
        elif b == LEG1:
            rows.append((k, 1))
        elif "emit_error!" in b and b.endswith("quote!{}}"):
            rows.append((k, 2))
        else:
            d.problems.append("emit_dispatch_leg: unclassified arm for %s: %s" % (k, b[:120]))
    return rows


def data_guards(d):
    """guard chain of emit_data_deserialization, in source order: (raw, opt, instantiate required by the guard; template class)"""
    m = d.match("contract/communication/reply.rs", "MsgField", "emit_data_deserialization", r"^data$")
    rows = []
    if m is None:
        return rows
    for a in m["arms"]:
        g = a["guard"] or ""
        flags = set(re.findall(r"data\.(\w+)", g))
        if a["pats"] == ["_"]:
            flags = set()
        elif a["pats"] != ["Some(data)"]:
            d.problems.append("data guard: unexpected pattern %s" % a["pats"])
            continue
        if g and not re.fullmatch(r"data\.\w+(&&data\.\w+)*", g):
            d.problems.append("data guard: unclassified guard %s" % g)
            continue
        b = a["body"]
        if b == "quote!{}":
            cls = (0, 0, False)      # parser none, none-mode passthrough, no wrap: handler receives Option<Binary>
        else:
            parser = 2 if "#instantiate_data_deserialization" in b else 1 if "#execute_data_deserialization" in b else 0
            wrap = "Some(deserialized_data)" in b
            if "None=>None" in b:
                nm = 1
            elif "None=>returnErr(Into::into(#sylvia::cw_std::StdError::generic_err(#missing_data_err)))" in b:
                nm = 2
            else:
                d.problems.append("data guard: unclassified none-branch in %s" % b[:100])
                continue
            if parser == 0 and "Some(data)=>data" not in b:
                d.problems.append("data guard: raw branch does not forward data: %s" % b[:100])
                continue
            if parser and not wrap and "deserialized_data}" not in b.replace(" ", ""):
                d.problems.append("data guard: typed branch does not forward the deserialized data: %s" % b[:100])
                continue
            cls = (parser, nm, wrap)
        rows.append(("raw" in flags, "opt" in flags, "instantiate" in flags, cls))
    return rows


def rename_all_sites(d):
    """every serde rename_all literal in a template, with the function that emits it"""
    rows = []
    for fname, f in sorted(d.files.items()):
        for fn in f.get("fns", []):
            for mac in fn["macros"]:
                toks = mac["tokens"]
                for i, t in enumerate(toks):
                    if t[0] == "I" and t[1] == "rename_all" and i + 2 < len(toks) and toks[i + 2][0] == "L":
                        rows.append(("%s:%s::%s" % (fname, fn["container"], fn["name"]), toks[i + 2][1].strip('"')))
    return rows


def casing_sites(d):
    """where a name is derived by convert_case: (site, case) from the function bodies"""
    rows = []
    for fname, f in sorted(d.files.items()):
        for fn in f.get("fns", []):
            b = fn.get("body") or ""
            for case in re.findall(r"to_case\(Case::(\w+)\)", b):
                rows.append(("%s:%s::%s" % (fname, fn["container"], fn["name"]), case))
    return rows


def entry_point_logic(d):
    """facts about EntryPoints::emit the model relies on, as booleans"""
    fn = d.fn("entry_points.rs", "EntryPoints", "emit")
    out = {}
    if fn is None:
        return out
    b = fn["body"]
    m = re.search(r"letentry_points=\[((?:MsgType::\w+,?)+)\]", b)
    out["defaults"] = re.findall(r"MsgType::(\w+)", m.group(1)) if m else None
    if not m:
        d.problems.append("EntryPoints::emit: default kind list not found")
    out["default_filtered_by_override"] = "matchoverride_entry_points.get_entry_point(msg_ty){Some(_)=>quote!{},None=>self.emit_default_entry_point(msg_ty),}" in b
    out["migrate_rule"] = "letmigrate=ifmigrate_not_overridden&&is_migrate{self.emit_default_entry_point(MsgType::Migrate)}else{quote!{}}" in b \
        and "letmigrate_not_overridden=override_entry_points.get_entry_point(MsgType::Migrate).is_none();" in b
    out["reply_rule"] = "letreply_ep=override_entry_points.get_entry_point(MsgType::Reply).map(|_|quote!{}).unwrap_or_else(||{ifreply.is_some(){self.emit_default_entry_point(MsgType::Reply)}else{quote!{}}});" in b
    fn2 = d.fn("entry_points.rs", "EntryPoints", "emit_default_entry_point")
    if fn2 is not None:
        arms = [(a["pats"], a["guard"], a["body"]) for m in fn2["matches"] if m["scrutinee"] == "msg_ty" for a in m["arms"]]
        want = [
            (["MsgType::Reply"], None, "quote!{msg:#sylvia::cw_std::Reply}"),
            (["_"], None, "quote!{msg:<#contractas#sylvia::types::ContractApi>::#associated_name}"),
            (["MsgType::Reply"], "sv_features.replies", "quote!{letcontract=#contract_turbofish::new();sv::dispatch_reply(deps,env,msg,contract).map_err(Into::into)}"),
            (["MsgType::Reply"], None, "quote!{#contract_turbofish::new().#reply((deps,env).into(),msg).map_err(Into::into)}"),
            (["_"], None, "quote!{msg.dispatch(&#contract_turbofish::new(),(#values)).map_err(Into::into)}"),
        ]
        if arms != want:
            d.problems.append("EntryPoints::emit_default_entry_point: message/dispatch templates changed: %s" % [a for a in arms if a not in want][:2])
        b2 = fn2["body"]
        for frag in ("letresult=msg_ty.emit_result_type(&custom_msg,error);", "letparams=msg_ty.emit_ctx_params(&custom_query);",
                     "letvalues=msg_ty.emit_ctx_values();", "letep_name=msg_ty.emit_ep_name();",
                     "letassociated_name=msg_ty.as_accessor_wrapper_name();",
                     "pubfn#ep_name(#params,#msg)->#result{#dispatch}"):
            if frag not in b2:
                d.problems.append("EntryPoints::emit_default_entry_point: expected fragment missing: " + frag)
    for k in ("default_filtered_by_override", "migrate_rule", "reply_rule"):
        if not out[k]:
            d.problems.append("EntryPoints::emit: %s no longer has the recognised form" % k)
    return out


FOLD_FORMS = {
    ("", "remove_input_attr"): "{inputs.into_iter().map(|input|matchinput{syn::FnArg::Receiver(rec)if!rec.attrs.is_empty()=>{letrec=Receiver{attrs:vec![],..rec};syn::FnArg::Receiver(rec)}syn::FnArg::Typed(ty)if!ty.attrs.is_empty()=>{letty=PatType{attrs:vec![],..ty};syn::FnArg::Typed(ty)}_=>input,}).collect()}",
    ("StripInput", "fold_trait_item_fn"): "{letis_handler=i.attrs.iter().any(|attr|SylviaAttribute::new(attr)==Some(SylviaAttribute::Msg));letattrs=i.attrs.into_iter().filter(|attr|SylviaAttribute::new(attr).is_none()).collect();letinputs=ifis_handler{remove_input_attr(i.sig.inputs)}else{i.sig.inputs};letsig=Signature{inputs,..i.sig};fold::fold_trait_item_fn(self,TraitItemFn{attrs,sig,..i})}",
    ("StripInput", "fold_impl_item_fn"): "{letis_handler=i.attrs.iter().any(|attr|SylviaAttribute::new(attr)==Some(SylviaAttribute::Msg));letattrs=i.attrs.into_iter().filter(|attr|SylviaAttribute::new(attr).is_none()).collect();letinputs=ifis_handler{remove_input_attr(i.sig.inputs)}else{i.sig.inputs};letsig=Signature{inputs,..i.sig};fold::fold_impl_item_fn(self,ImplItemFn{attrs,sig,..i})}",
    ("StripInput", "fold_item_trait"): "{letattrs=i.attrs.into_iter().filter(|attr|SylviaAttribute::new(attr).is_none()).collect();fold::fold_item_trait(self,ItemTrait{attrs,..i})}",
    ("StripInput", "fold_item_impl"): "{letattrs=i.attrs.into_iter().filter(|attr|SylviaAttribute::new(attr).is_none()).collect();fold::fold_item_impl(self,ItemImpl{attrs,..i})}",
}
SV_ATTR_NEW = "{letsegments=&attr.path().segments;ifsegments.len()==2&&segments[0].ident==\"sv\"{Self::match_attribute(&segments[1])}else{None}}"
FRONT_ENDS = {
    "interface_impl": "letinput=StripInput.fold_item_trait(input);Ok(quote!{#input#expanded})",
    "contract_impl": "letinput=StripInput.fold_item_impl(input);Ok(quote!{#[allow(clippy::new_without_default)]#input#expanded})",
    "entry_points_impl": "letexpanded=EntryPointInput::new(&input,args,attr.span()).process();Ok(quote!{#input#expanded})",
}


def strip_forms(d):
    """the StripInput fold and the three macro front-ends must have the forms Model/Strip.lean mirrors"""
    recognised = []
    for (cont, name), want in FOLD_FORMS.items():
        fn = d.fn("fold.rs", cont, name)
        if fn is not None:
            ok = fn["body"] == want
            recognised.append((name, ok))
            if not ok:
                d.problems.append("fold.rs %s::%s no longer has the form the Strip model mirrors" % (cont, name))
    fn = d.fn("parser/attributes/mod.rs", "SylviaAttribute", "new")
    if fn is not None and fn["body"] != SV_ATTR_NEW:
        d.problems.append("SylviaAttribute::new no longer has the recognised form (two-segment path starting with `sv`)")
    for name, frag in FRONT_ENDS.items():
        fn = d.fn("lib.rs", "", name)
        if fn is not None and frag not in fn["body"]:
            d.problems.append("lib.rs %s no longer re-emits `#input #expanded` in the recognised form" % name)
    return recognised


SERDE_SNAKE_FN = None  # set below: recognised body of a local re-implementation of serde's snake_case for variants


def published_rule(d):
    """how `MsgVariants::as_names_snake_cased` derives the published routing names from variant names:
    0 = convert_case Snake, 1 = serde's own rule (local function with the recognised body), 2 = unrecognised"""
    fn = d.fn("types/msg_variant.rs", "MsgVariants", "as_names_snake_cased")
    if fn is None:
        return 2
    b = fn["body"]
    if b == "{self.variants.iter().map(|variant|variant.name.to_string().to_case(Case::Snake)).collect()}":
        return 0
    m = re.fullmatch(r"\{self\.variants\.iter\(\)\.map\(\|variant\|(\w+)\(&variant\.name\.to_string\(\)\)\)\.collect\(\)\}", b)
    if m:
        helper = None
        for f in d.files.values():
            for g in f.get("fns", []):
                if g["name"] == m.group(1) and g["container"] == "":
                    helper = g
        if helper is not None and helper["body"] == SERDE_SNAKE_BODY:
            return 1
    d.problems.append("MsgVariants::as_names_snake_cased: unrecognised derivation of the published names")
    return 2


SERDE_SNAKE_BODY = "{letmutsnake=String::new();for(i,ch)invariant.char_indices(){ifi>0&&ch.is_uppercase(){snake.push('_');}snake.push(ch.to_ascii_lowercase());}snake}"


COSMOS_KINDS = {"Wasm": "wasm", "Bank": "bank", "Staking": "staking", "Distribution": "distribution", "Ibc": "ibc",
                "Any": "any", "Gov": "gov", "Stargate": "stargate", "Custom": "custom"}
INTO_MSG_TAIL = "Ok(SubMsg{msg,id:self.id,gas_limit:self.gas_limit,reply_on:self.reply_on,payload:self.payload,})}"
INTO_RESPONSE_BODY = ("{letmessages:Vec<_>=self.messages.into_iter().map(|msg|msg.into_msg()).collect::<StdResult<_>>()?;"
                      "letmutresp=Response::new().add_submessages(messages).add_events(self.events).add_attributes(self.attributes);"
                      "resp.data=self.data;Ok(resp)}")


def into_response_tables(d):
    """which CosmosMsg kinds `IntoMsg::into_msg` converts, and that both functions have the field-by-field form the model mirrors"""
    kinds = []
    m = d.match("rt:into_response.rs", "SubMsg", "into_msg", r"^self\.msg$")
    if m is None:
        return kinds
    saw_custom = False
    for a in m["arms"]:
        pat = a["pats"][0] if a["pats"] else ""
        mm = re.fullmatch(r"CosmosMsg::(\w+)(?:\((\w+)\)|\{([\w,]+)\})", pat)
        if pat == "_":
            if "Unknownmessagevariant" not in a["body"]:
                d.problems.append("into_msg: fallback arm is no longer an error")
            continue
        if not mm or mm.group(1) not in COSMOS_KINDS:
            d.problems.append("into_msg: unclassified arm %s" % pat)
            continue
        name = mm.group(1)
        if name == "Custom":
            saw_custom = "Err(StdError::generic_err(\"CustomEmptymessageshouldnotbesent\",))?" in a["body"] or "CustomEmptymessageshouldnotbesent" in a["body"]
            continue
        binder = mm.group(2) or mm.group(3)
        want = "CosmosMsg::%s(%s)" % (name, binder) if mm.group(2) else "CosmosMsg::%s{%s}" % (name, binder)
        if a["body"] != want:
            d.problems.append("into_msg: arm %s does not rebuild the same variant: %s" % (pat, a["body"][:80]))
            continue
        kinds.append(COSMOS_KINDS[name])
        feats = []
        for at in a.get("attrs", []):
            if at.startswith("cfg("):
                fm = re.fullmatch(r'cfg\(feature="(\w+)"\)', at)
                if fm:
                    feats.append(fm.group(1))
                else:
                    d.problems.append("into_msg: arm %s carries a cfg the translator cannot classify: %s" % (pat, at))
        d.conv_cfg = getattr(d, "conv_cfg", []) + [(COSMOS_KINDS[name], feats)]
    if not saw_custom:
        d.problems.append("into_msg: the Custom arm is not the documented error")
    fn = d.fn("rt:into_response.rs", "SubMsg", "into_msg")
    if fn is not None and not fn["body"].endswith(INTO_MSG_TAIL):
        d.problems.append("into_msg: the SubMsg is no longer rebuilt field by field in the recognised form")
    fn = d.fn("rt:into_response.rs", "Response", "into_response")
    if fn is not None and fn["body"] != INTO_RESPONSE_BODY:
        d.problems.append("into_response: body no longer has the recognised form")
    return kinds


MERGE_TAIL_OLD = "letnew_function_name=new_handler.function_name();letnew_reply_on=new_handler.msg_attr().reply_on();self.handlers.push((new_function_name,new_reply_on));}"
MERGE_TAIL_NEW = "ifself.data.is_none(){self.data=new_reply_data.data;}" + MERGE_TAIL_OLD
AS_REPLY_DATA = ("{letmutreply_data:Vec<ReplyData>=vec![];self.variants().flat_map(ReplyVariant::as_variant_handlers_pair).for_each(|(handler,handler_id)|"
                 "{letreply_on=handler.msg_attr().reply_on();letreply_id=handler_id.as_reply_id();matchreply_data.iter_mut().find(|existing_data|existing_data.reply_id==reply_id)"
                 "{Some(existing_data)ifexisting_data.handlers.iter().any(|(_,existing_reply_on)|existing_reply_on.excludes(&reply_on))=>")
CW_REPLY_ON = ("ifis_always||(is_success&&is_error){quote!{#sylvia::cw_std::ReplyOn::Always}}elseifis_success{quote!{#sylvia::cw_std::ReplyOn::Success}}"
               "else{quote!{#sylvia::cw_std::ReplyOn::Error}}}")


def reply_forms(d):
    """forms of the reply-table construction the Reply model mirrors; returns dataFromLater"""
    f = "contract/communication/reply.rs"
    later = False
    fn = d.fn(f, "ReplyData", "merge")
    if fn is not None:
        b = fn["body"]
        if b.endswith(MERGE_TAIL_NEW):
            later = True
        elif not b.endswith(MERGE_TAIL_OLD):
            d.problems.append("ReplyData::merge no longer ends in a recognised form")
        for frag in ("letnew_reply_data=ReplyData::new(self.reply_id.clone(),new_handler,self.handler_id);",
                     "ifself.payload.len()!=new_reply_data.payload.len(){emit_error!(",
                     "ifcurrent_field.ty()!=new_field.ty(){emit_error!("):
            if frag not in b:
                d.problems.append("ReplyData::merge: expected fragment missing: " + frag[:50])
    fn = d.fn(f, "MsgVariants", "as_reply_data")
    if fn is not None and not fn["body"].startswith(AS_REPLY_DATA):
        d.problems.append("as_reply_data no longer has the recognised fold form")
    if fn is not None:
        for frag in ("Some(existing_data)=>existing_data.merge(handler),", "None=>reply_data.push(ReplyData::new(reply_id,handler,handler_id)),"):
            if frag not in fn["body"]:
                d.problems.append("as_reply_data: expected arm missing: " + frag[:40])
    fn = d.fn(f, "ReplyData", "emit_cw_reply_on")
    if fn is not None and not fn["body"].endswith(CW_REPLY_ON):
        d.problems.append("emit_cw_reply_on no longer has the recognised form")
    fn = d.fn(f, "ReplyData", "new")
    if fn is not None:
        for frag in ("letpayload=ifdata.is_some()||variant.msg_attr().reply_on()!=ReplyOn::Success{payload.skip(NUMBER_OF_ALLOWED_DATA_FIELDS).collect::<Vec<_>>()}else{payload.collect::<Vec<_>>()};",
                     "ifpayload.is_empty(){emit_error!(", "assert_no_redundant_params(&payload);"):
            if frag not in fn["body"]:
                d.problems.append("ReplyData::new: expected fragment missing: " + frag[:50])
    for name, want in (("emit_success_match_arm", [("Some((method_name,reply_on))", "reply_on==&ReplyOn::Success"), ("Some((method_name,reply_on))", "reply_on==&ReplyOn::Always"), ("_", None)]),
                       ("emit_error_match_arm", [("Some((method_name,reply_on))", "reply_on==&ReplyOn::Error"), ("Some((method_name,reply_on))", "reply_on==&ReplyOn::Always"), ("_", None)])):
        m = d.match(f, "ReplyData", name, r"self\.handlers\.iter\(\)\.find")
        if m is not None:
            got = [(a["pats"][0], a["guard"]) for a in m["arms"]]
            if got != want:
                d.problems.append("%s: arms changed: %s" % (name, got))
    fn = d.fn(f, "ReplyData", "emit_submsg_setter")
    if fn is not None and "Ok(#sylvia::cw_std::SubMsg{reply_on:#reply_on,id:#reply_id,payload,..self})" not in fn["body"]:
        d.problems.append("emit_submsg_setter: the SubMsg is no longer rebuilt as {reply_on, id, payload, ..self}")
    fn = d.fn(f, "ReplyData", "emit_submsg_converter")
    if fn is not None and "Ok(#sylvia::cw_std::SubMsg{reply_on:#reply_on,id:#reply_id,msg:self.into(),payload,gas_limit:None,})" not in fn["body"]:
        d.problems.append("emit_submsg_converter: the SubMsg is no longer built as {reply_on, id, msg: self.into(), payload, gas_limit: None}")
    fn = d.fn(f, "Vec", "emit_payload_serialization")
    if fn is not None and ("letpayload=#payload_value;" not in fn["body"] or "letpayload=#sylvia::cw_std::to_json_binary(&(#(#payload_values),*))?;" not in fn["body"]):
        d.problems.append("emit_payload_serialization no longer has the recognised form")
    fn = d.fn(f, "Vec", "emit_payload_deserialization")
    if fn is not None and ("let#payload_value=payload;" not in fn["body"] or "let(#(#deserialized_payload_names),*)=#sylvia::cw_std::from_json(&payload)?;" not in fn["body"]):
        d.problems.append("emit_payload_deserialization no longer has the recognised form")
    fn = d.fn(f, "Ident", "as_reply_id")
    if fn is not None and 'format!{"{}_REPLY_ID",self.to_string().to_case(Case::UpperSnake)}' not in fn["body"]:
        d.problems.append("as_reply_id no longer builds <UPPER_SNAKE>_REPLY_ID")
    excl = d.fn("parser/attributes/msg.rs", "ReplyOn", "excludes")
    if excl is not None and excl["body"] != "{letare_equal=self==other;letis_any_always=self==&ReplyOn::Always||other==&ReplyOn::Always;are_equal||is_any_always}":
        d.problems.append("ReplyOn::excludes no longer has the recognised form")
    return later


WRAPPER_DESERIALIZE = (
    "fndeserialize<SvDeserializerT>(deserializer:SvDeserializerT)->Result<Self,SvDeserializerT::Error>whereSvDeserializerT:#sylvia::serde::Deserializer<'sv_de>,"
    "{use#sylvia::serde::de::Error;letval=#sylvia::serde_value::Value::deserialize(deserializer)?;letmap=match&val{#sylvia::serde_value::Value::Map(map)=>map,"
    "_=>returnErr(SvDeserializerT::Error::custom(\"Wrongmessageformat!\"))};ifmap.len()!=1{returnErr(SvDeserializerT::Error::custom(format!(\"Expectedexactlyonemessage.Received{}\",map.len())))}"
    "letrecv_msg_name=map.into_iter().next().unwrap();if let#sylvia::serde_value::Value::String(recv_msg_name)=&recv_msg_name.0{#(#interfaces_deserialization_attempts)*#contract_deserialization_attempt}"
    "letmsgs:[&[&str];#variants_cnt]=[#(#messages_call),*];letmuterr_msg=msgs.into_iter().flatten().fold(format!(\"Unsupportedmessagereceived:{}.Messagessupportedbythiscontract:\","
    "#sylvia::serde_json::to_string(&val).unwrap_or_else(|_|String::new())),|mutacc,message|acc+message+\",\",);err_msg.truncate(err_msg.len()-2);Err(SvDeserializerT::Error::custom(err_msg))}").replace("if let", "iflet")
ATTEMPT_IFACE = ("{self.interfaces.iter().map(|interface|{letContractMessageAttr{module,variant,..}=interface;letep_name=msg_ty.emit_ep_name();"
                 "letmessages_fn_name=Ident::new(&format!(\"{}_messages\",ep_name),module.span());quote!{letmsgs=&#module::sv::#messages_fn_name();"
                 "ifmsgs.into_iter().any(|msg|msg==&recv_msg_name){matchval.deserialize_into(){Ok(msg)=>returnOk(Self::#variant(msg)),"
                 "Err(err)=>returnErr(SvDeserializerT::Error::custom(err)).map(Self::#variant),};}}}).collect()}")
ATTEMPT_CONTRACT = ("letcontract_deserialization_attempt=quote!{letmsgs=&#messages_fn_name();ifmsgs.into_iter().any(|msg|msg==&recv_msg_name){matchval.deserialize_into(){"
                    "Ok(msg)=>returnOk(Self::#contract_name(msg)),Err(err)=>returnErr(SvDeserializerT::Error::custom(err)).map(Self::#contract_name)};}};")
MESSAGES_ORDER = "letmutmessages_call=interfaces.emit_messages_call(msg_ty);messages_call.push(quote!{&#messages_fn_name()});letvariants_cnt=messages_call.len();"
OVERLAP_ASSERT = "const_:()={letmsgs:[&[&str];#variants_cnt]=[#(#messages_call),*];#sylvia::utils::assert_no_intersection(msgs);};matchself{#(#dispatch_arms,)*#dispatch_arm}"


def wrapper_forms(d):
    """the hand-written Deserialize of the contract-level message, the order in which the parts are consulted and the build-time overlap check:
    the source forms `Serde.wrapperDecode` / `Gen.parts` mirror"""
    out = []
    fn = d.fn("contract/communication/wrapper_msg.rs", "GlueMessage", "emit")
    body = (fn or {}).get("body") or ""
    out.append(("deserialize", WRAPPER_DESERIALIZE in body))
    out.append(("attempt-contract", ATTEMPT_CONTRACT in body))
    out.append(("parts-order", MESSAGES_ORDER in body))
    out.append(("overlap-assert", OVERLAP_ASSERT in body))
    fn = d.fn("types/interfaces.rs", "Interfaces", "emit_deserialization_attempts")
    out.append(("attempt-interface", fn is not None and fn["body"] == ATTEMPT_IFACE))
    for name, ok in out:
        if not ok:
            d.problems.append("contract-level message: source form `%s` no longer recognised" % name)
    return out


DOWNCAST_ERROR_BODY = ("{iferr.is::<Error>(){err.downcast::<Error>().unwrap()}elseiferr.is::<StdError>(){err.downcast::<StdError>().unwrap().into()}"
                       "else{StdError::generic_err(err.to_string()).into()}}")
MT_FILES = ("contract/mt.rs", "interface/mt.rs", "rt:multitest.rs")
MT_OPS = [("ExecProxy::new(&self.contract_addr,msg,&self.app)", "exec-proxy"),
          ("(*self.app).querier().query_wasm_smart(self.contract_addr.clone(),&msg).map_err(Into::into)", "smart-query"),
          ("(*self.app).app_mut().wasm_sudo(self.contract_addr.clone(),&msg).map_err(#sylvia::multitest::downcast_error)", "wasm-sudo"),
          ("MigrateProxy::new(&self.contract_addr,msg,&self.app)", "migrate-proxy")]


def mt_tables(d):
    """multitest helpers: (a) call sites that unwrap a downcast of the chain's error, (b) per proxy method kind the constructor that builds
    the message and the chain operation it is handed to, (c) defaults / setters / call forms of the instantiate proxy and of ExecProxy,
    (d) which message kind each of the six `Contract` operations decodes and dispatches"""
    out = {"unwrap": [], "proxy": [], "defaults": [], "setters": [], "forms": [], "bodies": []}
    for fname in MT_FILES:
        for fn in d.files.get(fname, {}).get("fns", []):
            if re.search(r"\.map_err\(\|\w+\|\w+\.downcast(::<[^>]*>)?\(\)\.unwrap\(\)\)", fn["body"] or ""):
                out["unwrap"].append("%s:%s::%s" % (fname, fn["container"], fn["name"]))
    fn = d.fn("rt:multitest.rs", "", "downcast_error")
    out["downcast_form"] = fn is not None and fn["body"] == DOWNCAST_ERROR_BODY
    if not out["downcast_form"]:
        d.problems.append("multitest::downcast_error: body no longer has the recognised three-way form")
    for fname in ("contract/mt.rs", "interface/mt.rs"):
        fn = d.fn(fname, "MsgVariant", "emit_mt_method_definition")
        if fn is None:
            d.problems.append("%s: emit_mt_method_definition not found" % fname)
            continue
        if "letarguments=self.as_fields_names();" not in fn["body"] or "letname=name.to_case(Case::Snake);" not in fn["body"]:
            d.problems.append("%s: proxy methods no longer take the handler's parameters in order / the constructor's name" % fname)
        for kind, rest in re.findall(r"MsgType::(\w+)=>\{?quote!\{(.*?)\}\}\}?,?(?=MsgType::|_=>)", fn["body"]):
            m = re.search(r"\{letmsg=#api::#type_name::(#name|new)\(#\(#arguments\),\*\);(?:#sylvia::multitest::)?(.*)$", rest)
            if not m:
                d.problems.append("%s: proxy method of kind %s does not build its message with the constructor in the recognised form" % (fname, kind))
                continue
            op = dict(MT_OPS).get(m.group(2))
            if op is None:
                d.problems.append("%s: proxy method of kind %s hands its message to an unrecognised operation: %s" % (fname, kind, m.group(2)[:80]))
                continue
            out["proxy"].append((fname, kind.lower(), m.group(1), op))
    fn = d.fn("contract/mt.rs", "MtHelpers", "emit_code_id")
    m = fn and re.search(r"letmsg=#instantiate_msg\{#\(#fields_names,\)\*\};InstantiateProxy::<'_,'app,#\(#generic_params,\)\*_>\{code_id:self,funds:([^,]*),label:([^,]*),admin:([^,]*),salt:([^,]*),msg,\}", fn["body"])
    if m:
        out["defaults"] = list(zip(("funds", "label", "admin", "salt"), m.groups()))
    else:
        d.problems.append("contract/mt.rs: CodeId::instantiate no longer has the recognised form")
    fn = d.fn("contract/mt.rs", "MtHelpers", "emit_instantiate_proxy")
    if fn:
        for name, body in re.findall(r"pubfn(with_\w+)(?:<[^>]*>)?\(self,[^{]*\)->Self\{(.*?\.\.self\})\}", fn["body"]):
            m2 = re.fullmatch(r"(?:let(\w+)=\1\.into\(\)(?:\.map\(str::to_owned\))?;)?Self\{(\w+),\.\.self\}", body)
            out["setters"].append((name, m2.group(2) if m2 else "?"))
        call = ("letSelf{code_id,funds,label,admin,salt,msg}=self;matchsalt{Some(salt)=>{#instantiate2_body},None=>(*code_id.app).app_mut().instantiate_contract("
                "code_id.code_id,sender.clone(),&msg,funds,label,admin,).map_err(#sylvia::multitest::downcast_error).map(|addr|#sylvia::multitest::Proxy{contract_addr:addr,")
        out["forms"].append(("instantiate-call", call in fn["body"]))
    fn = d.fn("contract/mt.rs", "MtHelpers", "emit_instantiate2_body")
    if fn:
        form = ("letmsg=#sylvia::cw_std::WasmMsg::Instantiate2{admin,code_id:code_id.code_id,msg,funds:funds.to_owned(),label:label.to_owned(),salt:salt.into(),};"
                "letapp_response=(*code_id.app).app_mut().execute(sender.clone(),msg.into()).map_err(#sylvia::multitest::downcast_error::<#error_type>)?;")
        out["forms"].append(("instantiate2-call", form in fn["body"] and "letmsg=#sylvia::cw_std::to_json_binary(&msg)" in fn["body"]))
    for cont, name, form in (("ExecProxy", "new", "{Self{funds:&[],contract_addr,msg,app,phantom:PhantomData,}}"), ("ExecProxy", "with_funds", "{Self{funds,..self}}"),
                             ("ExecProxy", "call", "{(*self.app).app_mut().execute_contract(sender.clone(),Addr::unchecked(self.contract_addr),&self.msg,self.funds,).map_err(|err|" + DOWNCAST_ERROR_BODY + ")}"),
                             ("MigrateProxy", "call", "{(*self.app).app_mut().migrate_contract(sender.clone(),Addr::unchecked(self.contract_addr),&self.msg,new_code_id,).map_err(downcast_error)}")):
        fn = d.fn("rt:multitest.rs", cont, name)
        out["forms"].append(("%s::%s" % (cont, name), fn is not None and fn["body"] == form))
    fn = d.fn("contract/mt.rs", "", "emit_default_dispatch")
    out["forms"].append(("default-dispatch", fn is not None and fn["body"].endswith(
        "letvalues=msg_ty.emit_ctx_values();letmsg_name=msg_ty.as_accessor_wrapper_name();letapi_msg=quote!{<#contract_nameas#sylvia::types::ContractApi>::#msg_name};"
        "quote!{#sylvia::cw_std::from_json::<#api_msg>(&msg)?.dispatch(self,(#values)).map_err(Into::into)}}")))
    fn = d.fn("parser/attributes/override_entry_point.rs", "OverrideEntryPoint", "emit_multitest_dispatch")
    out["forms"].append(("override-dispatch", fn is not None and fn["body"] == (
        "{letSelf{entry_point,msg_name,msg_type,..}=self;letsylvia=crate_module();letvalues=msg_type.emit_ctx_values();"
        "if*msg_type==MsgType::Reply{returnquote!{#entry_point(#values.into(),msg).map_err(Into::into)};}"
        "quote!{#entry_point(#values.into(),#sylvia::cw_std::from_json::<#msg_name>(&msg)?).map_err(Into::into)}}")))
    fn = d.fn("contract/mt.rs", "MtHelpers", "emit_impl_contract")
    if fn:
        var_kind = {}
        for var, k1, k2 in re.findall(r"let(\w+)_body=override_entry_points\.get_entry_point\(MsgType::(\w+)\)\.map\(OverrideEntryPoint::emit_multitest_dispatch\)"
                                      r"\.unwrap_or_else\(\|\|emit_default_dispatch\(&MsgType::(\w+),contract_name\)\);", fn["body"]):
            var_kind[var] = k1 if k1 == k2 else "%s/%s" % (k1, k2)
        m = re.search(r"letmigrate_body=matchoverride_entry_points\.get_entry_point\(MsgType::(\w+)\)\{Some\(entry_point\)=>entry_point\.emit_multitest_dispatch\(\),"
                      r"Noneifmigrate_variants\.get_only_variant\(\)\.is_some\(\)=>\{emit_default_dispatch\(&MsgType::(\w+),contract_name\)\}None=>quote!\{#sylvia::anyhow::bail!", fn["body"])
        if m:
            var_kind["migrate"] = m.group(1) if m.group(1) == m.group(2) else "%s/%s" % m.groups()
        m = re.search(r"letreply_body=matchoverride_entry_points\.get_entry_point\(MsgType::(\w+)\)\{Some\(entry_point\)=>entry_point\.emit_multitest_dispatch\(\),None=>reply_variants", fn["body"])
        if m and "dispatch_reply(deps,env,msg,contract).map_err(Into::into)" in fn["body"]:
            var_kind["reply"] = m.group(1)
        for f, var in re.findall(r"fn(\w+)\(&self,deps:[^{]*\{#(\w+)_body\}", fn["body"]):
            out["bodies"].append((f, var_kind.get(var, "?").lower()))
    return out


def template_sites(d):
    """per quote!/parse_quote! template: literal identifiers in path-root position (not after `::` or `#`, followed by `::`), literal
    identifiers declared in a generic-parameter list, and whether some generic-parameter list of the template splices user generics"""
    rows = []
    for fname, f in sorted(d.files.items()):
        if fname.startswith("rt:"):
            continue
        for fn in f.get("fns", []):
            for n, mac in enumerate(m for m in fn["macros"] if m["name"] in ("quote", "parse_quote")):
                t = mac["tokens"]
                roots, params, scoped = [], [], False

                def is_p(x, ch):
                    return x is not None and x[0] == "P" and x[1] == ch
                for i, x in enumerate(t):
                    if x[0] != "I":
                        continue
                    prev = t[i - 1] if i > 0 else None
                    prev2 = t[i - 2] if i > 1 else None
                    nxt = t[i + 1] if i + 1 < len(t) else None
                    nxt2 = t[i + 2] if i + 2 < len(t) else None
                    # (`.method::<T>()` is a method call, not a path)
                    if is_p(nxt, ":") and is_p(nxt2, ":") and not (is_p(prev, ":") and is_p(prev2, ":")) and not is_p(prev, "#") and not is_p(prev, "."):
                        roots.append(x[1])
                i = 0
                while i < len(t):
                    x = t[i]
                    opens = is_p(x, "<") and i > 0 and t[i - 1][0] == "I" and (
                        t[i - 1][1] == "impl" or (i > 1 and t[i - 2][0] == "I" and t[i - 2][1] in ("fn", "trait", "struct", "enum", "type")))
                    if not opens:
                        i += 1
                        continue
                    depth, j = 1, i + 1
                    while j < len(t) and depth > 0:
                        y = t[j]
                        pj = t[j - 1]
                        if is_p(y, "<"):
                            depth += 1
                        elif is_p(y, ">") and not is_p(pj, "-"):
                            depth -= 1
                        elif is_p(y, "#"):
                            scoped = True
                        elif depth == 1 and y[0] == "I" and (is_p(pj, "<") or is_p(pj, ",") or is_p(pj, "*")):
                            params.append(y[1])
                        j += 1
                    i = j
                if roots or params:
                    rows.append(("%s:%s::%s#%d" % (fname, fn["container"], fn["name"], n), sorted(set(roots)), params, scoped))
    # a nested item inherits the generics of the template it sits in: one flag per emitting function
    by_fn = {}
    for site, roots, params, scoped in rows:
        key = site.split("#")[0]
        by_fn[key] = by_fn.get(key, False) or scoped
    return [(site, roots, params, by_fn[site.split("#")[0]]) for site, roots, params, scoped in rows]


def kt(rows, val):
    return llist("(.%s, %s)" % (KINDS[k], val(v)) for k, v in rows)


def generate(dump_lines):
    d = Dump([json.loads(l) for l in dump_lines if l.strip()])
    kinds = ["MsgType"]
    T = {}
    d.problems.scope = "kinds"
    T["msgTypeNew"] = str_table(d, ("types/msg_type.rs", "MsgType", "new", r"to_string\(\)\.as_str\(\)"), kinds, KINDS, "Kind")
    d.problems.scope = "override"
    T["overrideParse"] = str_table(d, ("parser/attributes/override_entry_point.rs", "OverrideEntryPoint", "parse", r"to_string\(\)\.as_str\(\)"), kinds, KINDS, "Kind")
    d.problems.scope = "msg_attr_fwd"
    T["msgAttrFwdParse"] = str_table(d, ("parser/attributes/attr.rs", "MsgAttrForwarding", "parse", r"to_string\(\)\.as_str\(\)"), kinds, KINDS, "Kind")
    d.problems.scope = "reply_on"
    T["replyOnNew"] = str_table(d, ("parser/attributes/msg.rs", "ReplyOn", "new", r"to_string\(\)\.as_str\(\)"), ["ReplyOn"], REPLYON, "ReplyOn")
    S = {}
    d.problems.scope = "sv_attrs"
    S["svAttributes"] = str_set(d, ("parser/attributes/mod.rs", "SylviaAttribute", "match_attribute", r"to_string\(\)\.as_str\(\)"))
    d.problems.scope = "data"
    S["dataParams"] = str_set(d, ("parser/attributes/data.rs", "DataFieldParams", "parse", r"to_string\(\)\.as_str\(\)"))
    d.problems.scope = "payload"
    S["payloadParams"] = str_set(d, ("parser/attributes/payload.rs", "PayloadFieldParam", "parse", r"to_string\(\)\.as_str\(\)"))
    d.problems.scope = "features"
    S["featureParams"] = str_set(d, ("parser/attributes/features.rs", "SylviaFeatures", "parse", r"to_string\(\)\.as_str\(\)"))
    d.problems.scope = "custom"
    S["customParams"] = str_set(d, ("parser/attributes/custom.rs", "Custom", "parse", r"to_string\(\)\.as_str\(\)"))
    d.problems.scope = "msg_args"
    S["msgArgs"] = str_set(d, ("parser/attributes/msg.rs", "ArgumentParser", "parse", r"to_string\(\)\.as_str\(\)"))
    d.problems.scope = "names"
    f = "types/msg_type.rs"
    K = {}
    K["epName"] = kind_ident_table(d, (f, "MsgType", "emit_ep_name", r"^self$"))
    K["msgName"] = kind_ident_table(d, (f, "MsgType", "emit_msg_name", r"^self$"))
    K["wrapperName"] = kind_ident_table(d, (f, "MsgType", "emit_msg_wrapper_name", r"^self$"), ("emit_msg_name", K["msgName"]))
    K["accessorName"] = kind_ident_table(d, (f, "MsgType", "as_accessor_name", r"^self$"))
    K["accessorWrapperName"] = kind_ident_table(d, (f, "MsgType", "as_accessor_wrapper_name", r"^self$"), ("as_accessor_name", K["accessorName"]))
    d.problems.scope = "ctx"
    ctx_ty, ctx_vals, ctx_params = ctx_tables(d)
    d.problems.scope = "dispatch"
    res = result_table(d)
    legs = dispatch_leg_table(d)
    d.problems.scope = "data_guards"
    guards = data_guards(d)
    d.problems.scope = "casing"
    renames = rename_all_sites(d)
    casings = casing_sites(d)
    d.problems.scope = "entry_points"
    ep = entry_point_logic(d)
    d.problems.scope = "strip"
    strip_forms(d)
    d.problems.scope = "published"
    prule = published_rule(d)
    d.problems.scope = "into_response"
    conv = into_response_tables(d)
    d.problems.scope = "reply"
    later = reply_forms(d)
    d.problems.scope = "templates"
    sites = template_sites(d)
    d.problems.scope = "multitest"
    mt = mt_tables(d)
    d.problems.scope = "wrapper"
    wforms = wrapper_forms(d)

    o = []
    o.append("import Sylvia.Model.Kinds")
    o.append("import Sylvia.Model.Runtime")
    o.append("/-! REGENERATED on every run by vlib/translate.py from /repo/sylvia-derive/src — do not edit. -/")
    o.append("namespace Extracted")
    o.append("open Sylvia")
    o.append("")
    o.append("/-- what the translator could not find or classify in the current sources -/")
    o.append("def problems : List Str := %s" % llist(lstr(sc + ": " + p) for sc, p in d.problems))
    for pid in sorted(PROP_SCOPES):
        mine = [sc + ": " + p for sc, p in d.problems if sc == "dump" or sc in PROP_SCOPES[pid]]
        o.append("def problems_%s : List Str := %s" % (pid, llist(lstr(p) for p in mine)))
    for name, ty in (("msgTypeNew", "Kind"), ("overrideParse", "Kind"), ("msgAttrFwdParse", "Kind"), ("replyOnNew", "ReplyOn")):
        o.append("def %s : List (Str × %s) := %s" % (name, ty, llist("(%s, .%s)" % (lstr(s), v) for s, v in T[name])))
    for name in S:
        o.append("def %s : List Str := %s" % (name, llist(lstr(s) for s in S[name])))
    for name in K:
        o.append("def %s : List (Kind × Str) := %s" % (name, kt(K[name], lstr)))
    o.append("def ctxType : List (Kind × List Str) := %s" % kt(ctx_ty, lambda v: llist(lstr(x) for x in v)))
    o.append("def ctxValues : List (Kind × List Str) := %s" % kt(ctx_vals, lambda v: llist(lstr(x) for x in v)))
    o.append("def ctxParams : List (Kind × List (Str × Str)) := %s" % kt(ctx_params, lambda v: llist("(%s, %s)" % (lstr(a), lstr(b)) for a, b in v)))
    o.append("def resultIsBinary : List (Kind × Bool) := %s" % kt(res, lambda v: v))
    o.append("/-- 0: `contract.f(ctx.into(), args).map_err(into)`; 1: `to_json_binary(&contract.f(..)?).map_err(into)`; 2: internal error -/")
    o.append("def dispatchLeg : List (Kind × Nat) := %s" % kt(legs, str))
    o.append("/-- guard chain of the reply-data extraction in source order: flags the guard requires (raw, opt, instantiate) and the")
    o.append("template class (envelope parser 0 none / 1 execute / 2 instantiate, absent-data mode 0 untouched / 1 None / 2 error, wraps in Some) -/")
    o.append("def dataGuards : List (Bool × Bool × Bool × Nat × Nat × Bool) := %s" % llist(
        "(%s, %s, %s, %d, %d, %s)" % (str(r).lower(), str(op).lower(), str(i).lower(), cl[0], cl[1], str(cl[2]).lower()) for r, op, i, cl in guards))
    o.append("def renameAllSites : List (Str × Str) := %s" % llist("(%s, %s)" % (lstr(a), lstr(b)) for a, b in renames))
    o.append("def casingSites : List (Str × Str) := %s" % llist("(%s, %s)" % (lstr(a), lstr(b)) for a, b in casings))
    o.append("/-- 0: convert_case Snake of the variant name; 1: serde's rename rule for variants; 2: unrecognised -/")
    o.append("def publishedRule : Nat := %d" % prule)
    o.append("/-- message kinds `IntoMsg::into_msg` has a converting arm for (all cargo features of the harness enabled) -/")
    o.append("def convertible : List Sylvia.Runtime.MsgKind := %s" % llist("." + k for k in conv))
    o.append("/-- the cargo features each converting arm of `into_msg` is compiled under -/")
    o.append("def convertibleCfg : List (Sylvia.Runtime.MsgKind × List Str) := %s" % llist(
        "(.%s, %s)" % (k, llist(lstr(f) for f in fs)) for k, fs in getattr(d, "conv_cfg", [])))
    o.append("/-- does `ReplyData::merge` take the data parameter from a later method when the first one has none? -/")
    o.append("def replyDataFromLater : Bool := %s" % ("true" if later else "false"))
    o.append("/-- code templates: (site, literal identifiers in path-root position, literal identifiers declared as generic parameters,")
    o.append("    does the emitting function splice user generics into a generic-parameter list) -/")
    o.append("def templateSites : List (Str × List Str × List Str × Bool) := %s" % llist(
        "(%s, %s, %s, %s)" % (lstr(a), llist(lstr(x) for x in b), llist(lstr(x) for x in cc), "true" if e else "false") for a, b, cc, e in sites))
    o.append("/-- multitest: generated / library call sites that still `downcast().unwrap()` the chain's error -/")
    o.append("def mtUnwrapSites : List Str := %s" % llist(lstr(x) for x in mt["unwrap"]))
    o.append("def downcastErrorForm : Bool := %s" % ("true" if mt["downcast_form"] else "false"))
    o.append("/-- multitest proxy methods: (file, handler kind, constructor that builds the message, chain operation) -/")
    o.append("def mtProxyOps : List (Str × Str × Str × Str) := %s" % llist("(%s, %s, %s, %s)" % tuple(lstr(x) for x in r) for r in mt["proxy"]))
    o.append("def mtInstDefaults : List (Str × Str) := %s" % llist("(%s, %s)" % (lstr(a), lstr(b)) for a, b in mt["defaults"]))
    o.append("def mtInstSetters : List (Str × Str) := %s" % llist("(%s, %s)" % (lstr(a), lstr(b)) for a, b in mt["setters"]))
    o.append("def mtForms : List (Str × Bool) := %s" % llist("(%s, %s)" % (lstr(a), "true" if b else "false") for a, b in mt["forms"]))
    o.append("/-- `impl cw_multi_test::Contract`: (operation, message kind whose override / default dispatch is spliced into it) -/")
    o.append("def mtContractBodies : List (Str × Str) := %s" % llist("(%s, %s)" % (lstr(a), lstr(b)) for a, b in mt["bodies"]))
    o.append("/-- contract-level message: recognised source forms (value pass, single-key check, parts consulted in order, unknown-name text, overlap assertion) -/")
    o.append("def wrapperForms : List (Str × Bool) := %s" % llist("(%s, %s)" % (lstr(a), "true" if b else "false") for a, b in wforms))
    o.append("def epDefaults : List Kind := %s" % llist("." + KINDS[k] for k in (ep.get("defaults") or []) if k in KINDS))
    o.append("")
    o.append("end Extracted")
    return "\n".join(o) + "\n", d


def regenerate():
    """Run the extractor on /repo's current sources and rewrite Extracted/Tables.lean. Returns (problems, dump)."""
    os.makedirs(c.CACHE, exist_ok=True)
    outp = os.path.join(c.CACHE, "extract.jsonl")
    c.run_hook("extract", os.path.join(c.REPO, "sylvia-derive", "src"), outp)
    lines = open(outp).read().split("\n")
    outp2 = os.path.join(c.CACHE, "extract_rt.jsonl")
    c.run_hook("extract", os.path.join(c.REPO, "sylvia", "src"), outp2)
    for l in open(outp2).read().split("\n"):
        if l.strip():
            j = json.loads(l)
            j["file"] = "rt:" + j["file"]
            lines.append(json.dumps(j))
    text, d = generate(lines)
    c.write_if_changed(os.path.join(c.LEAN, "Sylvia", "Extracted", "Tables.lean"), text)
    return d.problems, d


if __name__ == "__main__":
    import sys
    probs, _ = regenerate()
    print("problems:", probs)
