"""Generates /verif/MANIFEST.json from the table below (python3 -m vlib.manifest)."""
import json
import os

ROOT = os.path.dirname(os.path.dirname(os.path.abspath(__file__)))

TB = ("Trusted: Lean 4.33 kernel; axioms propext/Classical.choice/Quot.sound only (audited by #print axioms on every run; "
      "no sorry/admit/axiom/native_decide); the hand-written model is tied to /repo by the correspondence streams named in the "
      "evidence file (model driver vs real code on the same operations) and, where used, by tables regenerated from the source.")

CHECKS = {
    "C05": dict(
        text="Machine-checked proof (Lean 4) that the k-way merge scan of assert_no_intersection accepts exactly the pairwise-disjoint "
             "tuples of sorted duplicate-free arrays, for any number/length of arrays, always terminates and never reaches its unreachable!() arm; "
             "tied to sylvia/src/utils.rs twice: (1) a function translator (vlib/rs2lean.py) regenerates Lean definitions of the five const fns from the current "
             "Rust source on every run (index-based states array, Res = value/panic/out-of-fuel) and the refinement theorems of Thm/C05Refine.lean are re-checked "
             "against that regenerated code (code_spec: it returns normally iff disjoint, panics iff not, never indexes out of bounds, never reaches unreachable!()); "
             "(2) a differential run of the real function against both the zipper model and the regenerated code on exhaustive small tuples and random ones. "
             "Generator side: the published list is strictly sorted and is exactly the set of wire names (proof over the rule regenerated from source), checked against "
             "sv::<ep>_messages() and the serialised keys of compiled generated contracts; colliding / non-colliding program twins must fail / build (cargo check).",
        design="§8 C05",
        technique="Lean 4 proof (invariant over the merge loop; refinement of Lean code regenerated from the Rust source by a translator) + differential correspondence model vs real const fn",
        note=TB + " Modelled, not verified: konst::cmp_str/eq_str as byte-wise order/equality; const-eval panic = compile error."),
    "C06": dict(
        text="Machine-checked proof that the modelled entry-point generator emits an entry point of kind k iff k is defined (4 defaults; migrate/reply iff a handler "
             "exists) and was not named in an override attribute, that overriding one kind leaves the others alone, no duplicates, and that each emitted "
             "entry point decodes the message of its own kind and forwards exactly its context values. The kind parser, default list, names and context "
             "tables are regenerated from the source on every run and the table obligations re-proved; the model is compared with the real expansion on all "
             "1024 configurations (exhaustive).",
        design="§8 C06",
        technique="Lean 4 proof over tables regenerated from source + exhaustive L1 differential (real macro expansion vs model)",
        note=TB + " Modelled, not verified: the body of msg.dispatch (C02/C03), cosmwasm_std::entry_point."),
    "C13": dict(
        text="Pass-through: machine-checked proof, on the model of the StripInput fold, that no method is dropped/reordered, bodies/visibility/generics are untouched, exactly "
             "the foreign attributes survive at item and method level, parameters of non-handler methods are untouched, handler parameters lose only their attributes, "
             "stripping is idempotent. `remove_input_attr` and the four overridden folds of `impl Fold for StripInput` are regenerated from sylvia-derive/src/fold.rs as Lean "
             "definitions on every run (function translator, syn's tree as a view with opaque rests) and proved equal to the model's strip on every item "
             "(StripFn.fold_item_impl_eq / fold_item_trait_eq / refines_model); the framework-attribute table is re-read from the source; the real expansion's first item is "
             "compared (a) with the model's prediction and (b) with an independent restatement of the rule, on generated items and on every macro-annotated item of the "
             "repository's tests and examples. Determinism is observed (twice in-process, once in a second process), not proved: partial for that clause.",
        design="§8 C13",
        technique="Lean 4 proof (refinement of the fold regenerated from source by a function translator to the fold model) + L1 differential; determinism by repeated expansion",
        note=TB + " Determinism of the real expander is exploration only. syn's parser/printer are trusted."),
    "C01": dict(
        text="Machine-checked proofs: serde's wire name of a method equals the method name for every name of the property's shape (induction over the word list, "
             "on a model of convert_case 0.8 and serde's rename rule); an enum message encodes as a single-key object whose value holds one member per argument in order; "
             "decode(encode m) = m for every variant/field list with distinct names and canonical values; a message type accepts only its variants' wire names. "
             "Model tied to the code by (L3) the real casing crates on every identifier up to the tier's length, (L2) real serde on compiled generated contracts: "
             "constructor and literal serialisation, parse of the predicted text, near-miss names.",
        design="§8 C01",
        technique="Lean 4 proof (induction, round-trip) + differential correspondence vs real macros/serde/convert_case",
        note=TB + " Modelled, not verified: serde derive, serde-json-wasm, convert_case (validated by the streams); argument types limited to Serde.VTy."),
    "C02": dict(
        text="Machine-checked proof that, for every program and canonical argument values, the document a message serialises to is routed to exactly the handler it was "
             "generated from (part and method), each value bound to the same-named parameter, context unchanged (dispatch_exact, via the wrapper theorem of C03), also for "
             "instantiate/migrate; error conversion table. Tied to the code by running every handler of every compiled generated contract through Msg::dispatch and the "
             "entry points with echo handlers (Ok, own Err, sibling Err), compared with the model and with an independent expected-output oracle. The context types of sylvia/src/ctx.rs and their From<tuple> conversions are regenerated as Lean definitions on every run (CtxFn.*: every component arrives in the field of its own name).",
        design="§8 C02",
        technique="Lean 4 proof (refinement of decode+dispatch to a single Call) + L2 differential with echo handlers",
        note=TB + " Handler bodies are a parameter; 'exactly once' is structural in the model and observed through the echo markers."),
    "C03": dict(
        text="Machine-checked proofs about the model of the hand-written wrapper Deserialize: messages of every part pass through unchanged and reach their own part "
             "(wrapper_accepts_encoded, through the sorted value pass), acceptance is sound (the chosen part publishes the key and its decoder produced the value), at most "
             "one part accepts, unknown single key lists all supported messages, non-single-key rejected; published lists = wire names by a regenerated obligation. The unrestricted "
             "iff is false of the code for three document classes (known findings with replays); on the complement of those classes — an explicit predicate InDomain: no repeated "
             "member name, no number beyond the generic value's range, no leniently read sequence — the iff is proved for arbitrary documents (wrapper_iff_on_domain); the executable "
             "form of the predicate (proved sound) is evaluated on every stream document and every difference between wrapper and parts on the real code must lie outside it. Tie: wrapper and every part decode ~25 derived documents per "
             "message on compiled generated contracts, model vs real and real vs the property's own oracle.",
        design="§8 C03",
        technique="Lean 4 proof on a model of serde derive + the wrapper's value pass, differential vs real generated types",
        note=TB + " Known findings: duplicate member names, wide numbers in ignored members, positional nested struct."),
    "C04": dict(
        text="Machine-checked proof that whatever document reaches the entry point of kind k, a handler that runs is annotated with kind k (kind_separation, all programs, "
             "all JSON, including same-named handlers in other kinds). Tie: every message of kind K1 of compiled generated contracts sent to every other entry point K2 "
             "(20 ordered pairs), through entry_points and dispatch; names deliberately shared across kinds.",
        design="§8 C04",
        technique="Lean 4 proof (filter-by-kind invariant through routing) + L2 differential over all ordered kind pairs",
        note=TB + " reply kind and multitest's Contract impl are covered under C07/C12."),
    "C11": dict(
        text="Machine-checked proof on the model of IntoMsg/IntoResponse: without a custom message the response is returned with every sub-message (order, id, payload, "
             "gas limit, trigger, content), attribute, event and data intact; the conversion fails iff some message is custom, with no partial response. The set of message "
             "kinds with a converting arm and the field-by-field forms are re-read from sylvia/src/into_response.rs on every run (obligation: every non-custom kind is covered). "
             "In addition both functions of sylvia/src/into_response.rs are regenerated as Lean definitions on every run (function translator; arms under #[cfg(feature)] become "
             "`if feat ..`), and C11B.code_ok / code_err_iff / code_total prove the property about that regenerated code for every feature set at once. "
             "Tie: real IntoResponse on thousands of generated Response<Empty> (12 message shapes) vs model, vs the regenerated code and vs field-wise equality.",
        design="§8 C11",
        technique="Lean 4 proof (list induction) about code regenerated from source by a function translator, and over a kind table regenerated from source; L3 differential",
        note=TB + " The dispatch arms that insert into_response / into_empty for `: custom(..)` interfaces are exercised on four compiled configurations (custom msg / query on or off) through the generated execute, sudo and query entry points (stream L2-custom-contracts), not proved."),
    "C20": dict(
        text="Machine-checked proof on the model of Remote: encoding is the single-member object {addr}, independent of the type index and of owned/borrowed; decode(encode r) "
             "gives the same address under any type index; schema name constant. Remote's constructors, as_ref, its hand-written JsonSchema::schema_name and the attribute lists of the "
             "struct (derives, serde attributes per field, functions of the JsonSchema impl) are regenerated from sylvia/src/types.rs on every run and the shape the derive-decoder "
             "model assumes is proved about them (HandlesFn.remote_shape, schema_name_const, json_schema_impl_fns). Tie: real to_json_string/from_json/schema_for! for six type parameters (concrete, generic, "
             "dyn Interface with associated types, unsized) x owned/borrowed x address strings with escapes and non-ASCII, vs the model's literal JSON.",
        design="§8 C20",
        technique="Lean 4 proof (definitional + derive-decoder model; code and attribute tables regenerated from source by a function translator) + L3 differential over type parameters",
        note=TB + " JSON string escaping of the model printer is validated by the stream, not proved."),
    "C07": dict(
        text="Machine-checked proofs over the model of the reply table and of dispatch_reply: every entry the macro's fold can build holds mutually compatible outcomes "
             "(invariant by induction over the fold), so for every table and declaration order a success runs the method declared success (with gas, events, message "
             "responses; data per C09) else the always method with the full result, a failure the error/always method, uncovered outcomes are passed through, unknown ids "
             "are errors. Tie: sv::dispatch_reply of compiled generated contracts with echo handlers on crafted replies, model vs real vs an independent python statement; "
             "source forms of the table construction recognised on every run. ReplyOn::excludes, ReplyCtx's From<tuple> conversion and ReplyData::{new, merge} are regenerated from the source on every run and proved equal to what the model assumes (ReplyOnFn.excludes_eq, CtxFn.reply_from, ReplyNewFn.new_spec, merge_spec).",
        design="§8 C07",
        technique="Lean 4 proof (fold invariant + position-independent lookup) + L2 differential on dispatch_reply",
        note=TB + " Reply handlers must return the contract's own error type (the generated dispatcher performs no conversion)."),
    "C08": dict(
        text="Machine-checked proofs: table ids are distinct and numeric ids injective on id strings; the id string (UPPER_SNAKE of the handler name) is injective on handler "
             "names of the C01 shape (the pieces are recovered by splitting on `_` and re-parsing letters/digits), with the counterexample outside the shape (foo1 / foo_1) proved "
             "as well; the requested trigger is always iff an always method or both success and error methods exist; builders on SubMsg keep message and gas limit, converters "
             "drop the gas limit; canonical payload values decode back to themselves (one and several values). Tie: the real SubMsgMethods on the three receiver types and the "
             "round trip builder -> reply -> handler in compiled generated contracts. ReplyData::emit_cw_reply_on is regenerated from reply.rs on every run and proved equal to the model's trigger for every handler list (ReplyDataFn.emit_cw_reply_on_eq).",
        design="§8 C08",
        technique="Lean 4 proof + L2 differential on SubMsgMethods and dispatch_reply round trips",
        note=TB + " Names outside the C01 shape can share an id string (then the generated constants collide at compile time)."),
    "C09": dict(
        text="Machine-checked proof of the documented mode table: the guard chain regenerated from reply.rs equals the documented one (obligation), and for each of the six "
             "modes and every data / envelope-parser outcome the extraction yields the documented value or error; an extraction error is returned without a handler call. "
             "Tie: success handlers over seven data modes x absent/valid/bad envelope/bad JSON in compiled generated contracts, with real cw_utils parsers.",
        design="§8 C09",
        technique="Lean 4 proof over a guard chain regenerated from source + L2 differential with crafted protobuf envelopes",
        note=TB + " cw_utils' envelope parsers are a parameter of the model (their outcome is known to the generator by construction)."),
    "C15": dict(
        text="Machine-checked proofs on the model of CheckGenerics / filter_wheres: a parameter is in a message type's list iff it occurs (visitor's notion) in an argument "
             "of a handler of that kind (or a query response), each once; used/unused partition the user's parameters; a where-predicate is kept iff every parameter it "
             "mentions is used; type, placeholder and Api alias carry the same list. Tie: generic parameter lists, where clauses, dispatch generics and Api aliases of "
             "hundreds of real expansions (generic contracts, interfaces with associated types) vs the model and vs an independent python statement. CheckGenerics (check_generics.rs) and filter_wheres (utils.rs) are regenerated as Lean definitions on every run and proved equal to the model's usedOf / filterWheres for every parameter list and every sequence of visited paths (GenericsFn.used_eq_model, used_unused_eq, filter_wheres_is_model).",
        design="§8 C15",
        technique="Lean 4 proof (membership characterisations) + L1 differential on real expansions",
        note=TB + " The 'can be named, built, encoded and dispatched with just those types' clause is exercised on nine compiled configurations of generic interfaces / generic contract (stream L2-generic-programs), not proved. Known limitation: projections T::Assoc."),
    "C17": dict(
        text="Machine-checked proofs on the model of the emitters: an attribute forwarded to a kind is on the type of exactly that kind (kind word read through the table "
             "regenerated from attr.rs, obligation: same vocabulary as sv::msg), handler-forwarded attributes are on that handler's variant in order, argument attributes are "
             "on the corresponding field, and a field is optional on the wire iff Option or forwarded serde(default). Tie: attribute lists of every type/variant/field of real "
             "expansions vs model and vs the designated placement.",
        design="§8 C17",
        technique="Lean 4 proof over a table regenerated from source + L1 differential on real expansions",
        note=TB + " The wire effect of serde(default) is exercised on compiled contracts by the missing-field documents of C03."),
    "C18": dict(
        text="Machine-checked proofs on the model of the macros' validations: one theorem per documented rule (constructor, instantiate/migrate cardinality, interface "
             "restrictions, every attribute-argument vocabulary via the regenerated tables, entry-point concrete types) that a program breaking it is rejected whatever the "
             "rest looks like; for the reply table: diagnostics are monotone over the fold, an excluding outcome under an existing name is rejected, shape errors of a method "
             "opening an entry are kept. Tie: clean/dirty of the real expansion for valid programs, ~30 kinds of one-edit-invalid programs and every small reply table "
             "(model vs real vs a declarative statement of the rule), plus a rustc batch checking that the build fails with an error inside the annotated item. The reply-related rules are additionally proved about code regenerated from reply.rs on every run: as_data_field, assert_no_redundant_params, as_variant_handlers_pair, ReplyData::new and ReplyData::merge as Lean definitions with their diagnostics (ReplyParamFn.*, ReplyNewFn.new_spec, merge_spec).",
        design="§8 C18",
        technique="Lean 4 proof over regenerated vocabularies + exhaustive/differential L1 status stream + rustc batch",
        note=TB + " Diagnostic texts are not compared; span accuracy only on the rustc batch."),
    "C14": dict(
        text="Machine-checked proofs on the model, for every reordering (List.Perm) of handler methods / override attributes / methods merged into one reply entry: "
             "routing lists identical (sorting forgets input order: proved via antisymmetry of the byte order), wire names and fields the same multiset, a message name "
             "selects the same variant, same set of entry points, same reply trigger and same method found for success/failure (position-independent lookup in every table "
             "the fold can build), same cardinalities for the structural validations. Tie: real expansions of programs (valid and invalid) against two reorderings each (L1) "
             "and compiled programs against a reordered twin on routing, dispatch, unknown-name errors, reply behaviour and builders (L2). ReplyOn::excludes and emit_cw_reply_on are regenerated from the source and proved equal to the model's functions the permutation theorems are about.",
        design="§8 C14",
        technique="Lean 4 proof (permutation invariance) + L1/L2 twin differential on the real macros",
        note=TB + " Numeric reply ids and the order of type parameters of generic message types are positional (excluded / recorded)."),
    "C19": dict(
        text="Proof over the table of ALL quote!/parse_quote! templates of sylvia-derive, regenerated from the source on every run: no template names the framework or a "
             "re-exported dependency by a literal crate path (everything goes through the #sylvia splice), and no template that has user generics in scope declares a helper "
             "type parameter with a conventional name (single letter / plain word). What rustc's resolution makes of it is observed, not proved (partial): generated programs "
             "(interfaces, replies with partial coverage, multitest helpers) are checked against a manifest importing the framework as `sv_renamed`, and one generic contract + "
             "interface is checked per candidate parameter name (26 letters + 11 words, exhaustive).",
        design="§8 C19",
        technique="Lean 4 decide over a template table regenerated from source + rustc on renamed-dependency and per-name corpora",
        note=TB + " Partial: name resolution is rustc's; the lifting from templates to emitted tokens rests on the crate producing tokens only through quote! (grepped each run)."),
    "C10": dict(
        text="Machine-checked proofs on the model of the remote helpers: the executor's message carries exactly the handle's address, the attached funds and the encoding "
             "of the message the like-named constructor builds, and that document, fed to the target's entry point, runs exactly the like-named handler with the same argument "
             "values (corollary of C02.dispatch_exact through C05Gen's parts theorem); likewise the querier; the instantiate builder's defaults, last-writer-wins and "
             "commutation of distinct setters, build2 = build + salt; admin helpers name the handle's address. The instantiate builder, Remote and ExecutorBuilder (both type states) "
             "are regenerated from sylvia/src as Lean definitions on every run and the builder / executor / admin clauses are proved about that regenerated code "
             "(C10B.*, HandlesFn.executor_msg for every sequence of with_funds calls, HandlesFn.admin_helpers). Tie: for every exec/query method of every compiled generated "
             "contract, Remote::executor / BoundQuerier (handle typed by the contract and by dyn Interface) build the message, which is then fed to the real entry point "
             "(echo handlers; recording mock querier for queries); random setter sequences on the real InstantiateBuilder; model vs real vs python expected output.",
        design="§8 C10",
        technique="Lean 4 proof (corollary of the dispatch refinement + record algebra, runtime-library code regenerated from source by a function translator) + L2 differential through the real helpers and entry points",
        note=TB + " cosmwasm_std's WasmMsg/QueryRequest encoding and the chain's delivery of the message are outside the model (the harness delivers the body itself)."),
    "C12": dict(
        text="Machine-checked refinement proof: for every well-formed program, every starting chain and every history of proxy calls (store, instantiate with any setter "
             "sequence, exec with/without funds, query, sudo, migrate), running the history with the *specification* of a proxy call (the like-named handler is called "
             "directly with those values) equals running the lowered raw-JSON history through the model of the generated decode+dispatch code: same final chain state, same "
             "result at every step (history_equiv, by C02.dispatch_exact); a failing step leaves the chain unchanged; option defaults / last-writer-wins / commutation; a "
             "handler's error is returned as that value, no proxy unwraps a downcast (table regenerated from source). The lowering, the defaults, the setters, the call forms "
             "and the kind spliced into each of the six Contract operations are re-read from contract/mt.rs, interface/mt.rs and multitest.rs on every run. Tie: random "
             "histories per compiled generated contract run through the real proxies on one cw-multi-test chain and, lowered by the model, as raw JSON bytes on a second "
             "identically seeded chain; after every step result and full chain state (contract records, storage, balances) of both chains and of the model are compared. downcast_error, ExecProxy and MigrateProxy of sylvia/src/multitest.rs are regenerated as Lean definitions on every run and proved to be the raw chain operation with the same values and the documented error conversion (MtProxyFn.exec_call_eq, migrate_call_eq, downcast_error_eq).",
        design="§8 C12",
        technique="Lean 4 proof (refinement of proxy histories to raw-JSON histories over an abstract chain) + tables regenerated from source + L2 twin-chain differential",
        note=TB + " cw-multi-test is modelled only as far as the histories exercise it (balances, contract records, atomic steps, five own errors); reply and override "
                  "attributes are not reachable through proxies; query handler errors cross cosmwasm's querier as text on both paths."),
    "C16": dict(
        text="Machine-checked proofs on the model of the QueryResponses derives: the response map of a contract's query type has exactly one entry per query variant of the "
             "contract and of every implemented interface, keyed by wire name with the declared response type (explicit resp= wins), and the wrapper's map is the union of the "
             "parts' maps; keys are distinct whenever the routing lists are disjoint (C05). Tie: response_schemas() of compiled generated contracts (own type, each interface "
             "type, wrapper) and the wrapper schema's any-of list vs the model and vs a python statement. extract_return_type (the success type read off the signature) is regenerated from sylvia-derive/src/utils.rs as a Lean definition on every run and specified for every return type written with or without a path (RetTypeFn.extract_spec).",
        design="§8 C16",
        technique="Lean 4 proof (list/map characterisation) + L2 differential on response_schemas of real generated types",
        note=TB + " cosmwasm_schema's derive and schemars' schema generation are trusted; response types are compared by schema title."),
}

ALL = ["C%02d" % i for i in range(1, 21)]

PENDING_REASON = "check not built yet in this revision of /verif (planned, see DESIGN.md §8/§13); not claimed until its theorem module and its correspondence run clean"


def main():
    m = {
        "version": 1,
        "setup_cmd": "./setup.sh",
        "hooks": {
            "guard": "cargo feature `verif-hook` on sylvia-derive (module is additionally cfg(test))",
            "enable": "SYLVIA_VERIF_HARNESS=/verif/harness/hook/hook_main.rs cargo test --offline -p sylvia-derive --features verif-hook --lib -- verif_hook::verif_entry --exact",
            "baseline_off_cmd": "cd /repo && cargo test --workspace --no-fail-fast --offline",
            "source_commits": ["f0dc71d"],
            "fix_commits": ["a51e7a3", "fead2e3", "dbb2669", "e4181bc", "dd80324", "43435f7", "3dc7e41", "b235c27", "a0acd45", "0e58e66", "ba1f417", "db582f4", "3b66a31", "7df290f", "18620eb", "52fc452", "f2bb4b0"],
            "add_only": True,
        },
        "engines": [
            {"name": "lean", "path": "lean/", "serves_properties": sorted(CHECKS), "kind_free_text": "Lean 4 model + theorems + svmodel line-protocol driver"},
            {"name": "hook", "path": "harness/hook/", "serves_properties": ["C06", "C13", "C01", "C02", "C03", "C04", "C05", "C14", "C15", "C17", "C18", "C19"], "kind_free_text": "in-process macro expansion + source translator, compiled into sylvia-derive tests via the verif-hook feature (L1)"},
            {"name": "rt", "path": "harness/rt/", "serves_properties": ["C05", "C01", "C11", "C20"], "kind_free_text": "Rust harness calling the real runtime library (L3)"},
            {"name": "corpus", "path": "harness/corpus/ + vlib/corpus.py", "serves_properties": ["C01", "C02", "C03", "C04", "C05", "C07", "C08", "C09", "C10", "C12", "C14", "C16"], "kind_free_text": "generated contracts compiled against /repo/sylvia with echo handlers (L2)"},
        ],
        "checks": [],
        "not_applicable": [],
        "notes": "Single entry point ./check <id> --tier quick|thorough. See DESIGN.md.",
    }
    for pid in ALL:
        if pid in CHECKS:
            c = CHECKS[pid]
            m["checks"].append({
                "property_id": pid,
                "quick_cmd": "./check %s --tier quick" % pid,
                "thorough_cmd": "./check %s --tier thorough" % pid,
                "evidence_file": "/verif/evidence/%s.json" % pid,
                "replay_cmd_template": "./check %s --replay {path}" % pid,
                "engine": "lean",
                "level_claimed": {"category": c.get("category", "proof"), "text": c["text"], "design_ref": c["design"]},
                "level_note": c["note"],
                "technique": c["technique"],
            })
        else:
            m["not_applicable"].append({"property_id": pid, "reason": PENDING_REASON})
    json.dump(m, open(os.path.join(ROOT, "MANIFEST.json"), "w"), indent=1)


if __name__ == "__main__":
    main()
