"""Reply operations for the compiled corpus (C07, C08, C09): crafted replies, the property's own
expected output (a Python statement of the documented behaviour, independent of the Lean model), and
protobuf envelopes for the data modes."""
import random

from . import casing, corpus, l2

ADDR = "cosmwasm1jpev2csrppg792t22rn8z8uew8h3sjcpglcd0qv9g8gj8ky922tscp8avs"


def varint(n):
    out = b""
    while True:
        b = n & 0x7F
        n >>= 7
        if n:
            out += bytes([b | 0x80])
        else:
            return out + bytes([b])


def env_exec(inner):
    """MsgExecuteContractResponse { data = 1 }"""
    if not inner:
        return b""
    return b"\x0a" + varint(len(inner)) + inner


def env_inst(addr, inner):
    """MsgInstantiateContractResponse { contract_address = 1, data = 2 }"""
    a = addr.encode()
    out = b"\x0a" + varint(len(a)) + a
    if inner:
        out += b"\x12" + varint(len(inner)) + inner
    return out


BAD_EXEC = [b"\x12\x01a", b"\x08\x01", b"\x0a\x05ab", b"\x0a\x80", b"\xff"]
BAD_INST = [b"\x12\x01a", b"\x0a\x05ab", b"\x0a\x02\xff\xfe", b"\x0a\x01a\x12\x09x", b"\x0a\x01a\x1a\x01x"]


def hx(b):
    return "x" + b.hex()


def own_payload(m):
    """the payload parameters of a method (its own names): values are bound positionally"""
    return m["args"][(0 if m["reply_role"] == "none" else 1):]


def payload_for(rng, pay, valid=True):
    """(payload bytes, argument value texts or None when the payload must be rejected)"""
    if len(pay) == 1 and pay[0].get("payload_raw"):
        b = bytes(rng.randrange(256) for _ in range(rng.choice([0, 1, 3, 8])))
        return b, ['"x%s"' % b.hex()]
    vals = [corpus.rand_value(rng, a["ty"]) for a in pay]
    if valid:
        text = corpus.jtext(vals[0]) if len(pay) == 1 else corpus.jtext(vals)
        return text.encode(), [corpus.jtext(v) for v in vals]
    bad = rng.choice(["", "nonsense", "[", corpus.jtext(vals + [1]) if len(pay) > 1 else "{\"x\":", "null" if not (len(pay) == 1 and pay[0]["ty"].get("p", [[None]])[0][0] == "Option") else "tru"])
    return bad.encode(), None


def data_cases(rng, m):
    """for a success method with a data parameter: (label, data bytes or None, envelope spec for the model, expected first-arg text or error class)"""
    a = m["args"][0]
    mode = a["data_mode"]
    opt = mode.endswith("opt")
    out = []
    if mode in ("raw", "raw_opt"):
        b = bytes(rng.randrange(256) for _ in range(rng.choice([0, 1, 5, 128, 300])))
        out.append(("present", b, "E:-", ("rawopt:" if opt else "raw:") + b.hex()))
        out.append(("absent", None, "E:-", "rawopt:none" if opt else "ERR missing"))
        return out
    if mode in ("inst", "inst_opt"):
        inner = rng.choice([None, b"", b"\x01\x02", b"{}", bytes(rng.randrange(256) for _ in range(rng.choice([128, 200, 16384])))])
        addr = rng.choice(["contract0", "a", "cosmwasm1xyz"])
        shown = "%s:%s" % (addr, inner.hex() if inner else "none")
        out.append(("present", env_inst(addr, inner), "E:inst:%s:%s" % (hx(addr.encode()), hx(inner) if inner else "-"),
                    ("instopt:" if opt else "inst:") + shown))
        out.append(("absent", None, "E:-", "instopt:none" if opt else "ERR missing"))
        out.append(("bad-envelope", rng.choice(BAD_INST), "E:bad", "ERR envelope"))
        return out
    inner_ty = a["inner"]
    v = corpus.rand_value(rng, inner_ty)
    text = corpus.jtext(v)
    out.append(("present", env_exec(text.encode()), "E:exec:" + hx(text.encode()), text))
    # the same value in a long document (JSON white space around it): the envelope's length prefix then takes two or three bytes
    padded = (" " * rng.choice([1, 40]) + text).ljust(rng.choice([127, 128, 129, 300, 16383, 16384, 20000])).encode()
    out.append(("present", env_exec(padded), "E:exec:" + hx(padded), text))
    out.append(("absent", None, "E:-", "null" if opt else "ERR missing"))
    out.append(("bad-envelope", rng.choice(BAD_EXEC), "E:bad", "ERR envelope"))
    wrong = corpus.wrong_value(rng, inner_ty)
    if wrong == "null" and opt:
        wrong = "{\"zz\":1}"
    out.append(("bad-json", env_exec(wrong.encode()), "E:exec:" + hx(wrong.encode()), "ERR json"))
    out.append(("bad-json-syntax", env_exec(b"{oops"), "E:exec:" + hx(b"{oops"), "ERR json"))
    # envelope present but without inner data: behaviour recorded, not judged (see DESIGN §8 C09)
    out.append(("envelope-without-inner", b"\x0a\x00", "E:exec:-", None))
    return out


def expected_call(prog, m, first, arg_vals, gas, events, msgr, height, seed, fail):
    hid = "ct." + m["name"]
    args_text = l2.obj_text([(a["name"], v) for a, v in zip(own_payload(m), arg_vals)])
    if fail == hid:
        return "err CE::Custom(fail:%s)" % hid if prog["contract"].get("error") else "err Generic error: fail:" + hid
    return ("ok ran=%s|first=%s|args=%s|height=%d|addr=%s|seed=%s|gas=%d|events=%d|msgr=%d events=0 data=- stored=%s"
            % (hid, first, args_text, height, ADDR, seed, gas, events, msgr, hid))


def reply_ops(rng, prog, want_modes=False):
    """[(op text, expected output or None, tags)] for one program"""
    tbl = corpus.reply_entries(prog)
    out = []
    if not tbl:
        return out
    ids = ",".join("%s_REPLY_ID=%d" % (casing.cc_upper_snake(e["handler"]), i) for i, e in enumerate(tbl))
    out.append(("rids", ids, ("ids",)))
    for i, e in enumerate(tbl):
        pay = e["order"][0]["args"][(0 if e["order"][0]["reply_role"] == "none" else 1):]
        ms = e["methods"]
        for okerr in ("ok", "err"):
            for trial in range(2):
                gas = rng.choice([0, 7, 123456])
                nev = rng.choice([0, 1, 3])
                nmsgr = rng.choice([0, 1, 1, 2])
                height = rng.choice([1, 999])
                seed = rng.choice(["sd", "q"])
                errtext = rng.choice(["boom", "out of gas", "x y"])
                pbytes, args_text = payload_for(rng, pay, valid=(trial == 0 or rng.random() < 0.5))
                if okerr == "ok":
                    m = ms.get("success") or ms.get("always")
                    role = None
                    if m is None:
                        d = rng.choice([None, b"", b"\x01\x02"])
                        exp = "ok  events=%d data=%s stored=" % (nev, d.hex() if d is not None else "-")
                        out.append(("reply %d %d ok %d %s %d x %s E:- - %d %s" % (i, gas, nev, hx(d) if d is not None else "-", nmsgr, hx(pbytes), height, seed),
                                    exp, ("passthrough-ok",)))
                        continue
                    if m["msg"]["reply_on"] == "always":
                        d = rng.choice([None, b"\x09"])
                        first = "result:ok:%d:%s:%d" % (nev, d.hex() if d is not None else "none", nmsgr)
                        cases = [("always", d, "E:-", first)]
                        ev_seen, msgr_seen = 0, 0
                    elif m["reply_role"] == "none":
                        cases = [("nodata", rng.choice([None, b"zz"]), "E:-", "-")]
                        ev_seen, msgr_seen = nev, nmsgr
                    else:
                        cases = data_cases(rng, m)
                        ev_seen, msgr_seen = nev, nmsgr
                    for label, d, envspec, first in cases:
                        for fail in (["-", "ct." + m["name"]] if label in ("present", "always", "nodata") and trial == 0 else ["-"]):
                            if first is None:
                                exp = None
                            elif first.startswith("ERR "):
                                exp = "err " + first[4:]
                            elif args_text is None:
                                exp = "err payload"
                            else:
                                exp = expected_call(prog, m, first, args_text, gas, ev_seen, msgr_seen, height, seed, fail)
                            # payload is decoded before the data: a bad payload wins over a data error
                            if args_text is None and exp is not None:
                                exp = "err payload"
                            out.append(("reply %d %d ok %d %s %d x %s %s %s %d %s" % (i, gas, nev, hx(d) if d is not None else "-", nmsgr, hx(pbytes), envspec, fail, height, seed),
                                        exp, ("success", m["reply_role"], label)))
                else:
                    m = ms.get("error") or ms.get("always")
                    if m is None:
                        out.append(("reply %d %d err %d - %d %s %s E:- - %d %s" % (i, gas, nev, nmsgr, hx(errtext.encode()), hx(pbytes), height, seed),
                                    "err pass:" + errtext, ("passthrough-err",)))
                        continue
                    first = ("error:" + errtext) if m["msg"]["reply_on"] == "error" else ("result:err:" + errtext)
                    for fail in ["-", "ct." + m["name"]][: 2 if trial == 0 else 1]:
                        exp = "err payload" if args_text is None else expected_call(prog, m, first, args_text, gas, 0, 0, height, seed, fail)
                        out.append(("reply %d %d err %d - %d %s %s E:- %s %d %s" % (i, gas, nev, nmsgr, hx(errtext.encode()), hx(pbytes), fail, height, seed),
                                    exp, ("error", m["msg"]["reply_on"])))
    for bad in (len(tbl), len(tbl) + 7, 2 ** 64 - 1):
        out.append(("reply %d 1 ok 0 - 0 x x E:- - 1 sd" % bad, "err unknown-id %d" % bad, ("unknown-id",)))
        out.append(("reply %d 1 err 0 - 0 x6f x E:- - 1 sd" % bad, "err unknown-id %d" % bad, ("unknown-id",)))
    return out


def trigger_of(e):
    ms = e["methods"]
    if "always" in ms or ("success" in ms and "error" in ms):
        return "Always"
    return "Success" if "success" in ms else "Error"


def builder_ops(rng, prog):
    """sub-message builder and round-trip operations"""
    tbl = corpus.reply_entries(prog)
    out = []
    for i, e in enumerate(tbl):
        pay = e["order"][0]["args"][(0 if e["order"][0]["reply_role"] == "none" else 1):]
        for recv in ("sub", "wasm", "cosmos"):
            if len(pay) == 1 and pay[0].get("payload_raw"):
                b = bytes(rng.randrange(256) for _ in range(rng.choice([0, 2, 9])))
                args = corpus.jtext(["x" + b.hex()])
                pbytes = b
                args_text = ['"x%s"' % b.hex()]
            else:
                vals = [corpus.rand_value(rng, a["ty"]) for a in pay]
                args = corpus.jtext(vals)
                pbytes = (corpus.jtext(vals[0]) if len(pay) == 1 else corpus.jtext(vals)).encode()
                args_text = [corpus.jtext(v) for v in vals]
            exp = "id=%d reply_on=%s gas=%s payload=%s msg_same=true" % (i, trigger_of(e), "77" if recv == "sub" else "none", pbytes.hex())
            out.append(("submsg %d %s %s" % (i, recv, args), exp, ("builder", recv)))
            for okerr in ("ok", "err"):
                gas = rng.choice([3, 99])
                height = rng.choice([5, 50])
                ms = e["methods"]
                if okerr == "ok":
                    m = ms.get("success") or ms.get("always")
                    if m is None:
                        exp2 = "ok  events=2 data=- stored="
                    elif m["msg"]["reply_on"] == "always":
                        exp2 = expected_call(prog, m, "result:ok:2:none:1", args_text, gas, 0, 0, height, "rt", "-")
                    elif m["reply_role"] == "none":
                        exp2 = expected_call(prog, m, "-", args_text, gas, 2, 1, height, "rt", "-")
                    else:
                        mode = m["args"][0]["data_mode"]
                        exp2 = {"raw_opt": None, "opt": None, "inst_opt": None}.get(mode, "err missing")
                        if exp2 is None:
                            first = {"raw_opt": "rawopt:none", "opt": "null", "inst_opt": "instopt:none"}[mode]
                            exp2 = expected_call(prog, m, first, args_text, gas, 2, 1, height, "rt", "-")
                else:
                    m = ms.get("error") or ms.get("always")
                    if m is None:
                        exp2 = "err pass:boom"
                    else:
                        first = "error:boom" if m["msg"]["reply_on"] == "error" else "result:err:boom"
                        exp2 = expected_call(prog, m, first, args_text, gas, 0, 0, height, "rt", "-")
                out.append(("rt %d %s %s %d %d rt %s" % (i, recv, okerr, gas, height, args), exp2, ("roundtrip", recv, okerr)))
    return out
