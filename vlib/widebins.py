"""a compiled contract whose handlers take 128-bit integer arguments (outside the Lean model's argument universe): the part's message
type and the contract-level message type are offered the same documents; C03 requires them to agree"""
import os
import re

from . import common as c


def build_and_run():
    d = os.path.join(c.WS, "cwide")
    toml = ("[package]\nname = \"cwide\"\nversion = \"0.0.0\"\nedition = \"2021\"\npublish = false\n\n[[bin]]\nname = \"cwide\"\npath = \"src/bin/wide.rs\"\n\n[dependencies]\n"
            "sylvia = { path = \"%s/sylvia\", features = [\"mt\", \"stargate\", \"iterator\", \"cosmwasm_1_4\", \"cosmwasm_2_0\"] }\n" % c.REPO)
    c.write_if_changed(os.path.join(d, "Cargo.toml"), toml)
    c.write_if_changed(os.path.join(d, "src", "bin", "wide.rs"), open(os.path.join(c.ROOT, "harness", "wide", "wide_bin.rs")).read())
    c.ensure_ws_members({"cwide": None})
    p = c.cargo(["build", "--offline", "-p", "cwide"], cwd=c.WS, timeout=3600)
    if p.returncode != 0:
        return None, p.stderr[-3000:]
    r = c.sh([os.path.join(c.TARGET, "debug", "cwide")])
    return r.stdout.strip().split("\n"), r.stderr[-500:]


def stream(ctx):
    lines, err = build_and_run()
    src = open(os.path.join(c.ROOT, "harness", "wide", "wide_bin.rs")).read()
    bad = 0
    agree = 0
    if lines is None:
        bad += 1
        ctx.violation("valid-program-rejected", "a contract with 128-bit integer arguments does not compile: %s" % err[-400:].replace("\n", " | "), {"program": src})
    else:
        for l in lines:
            m = re.match(r"(\w+) part=(\w+) wrapper=(\w+) doc=(.*)$", l)
            if not m:
                continue
            if m.group(2) == m.group(3):
                agree += 1
                continue
            bad += 1
            ctx.violation("int128-argument", "the %s part %s the document %s, the contract-level message %s it (a handler argument typed u128 / i128)" % (
                m.group(1), "accepts" if m.group(2) == "ok" else "rejects", m.group(4)[:120], "accepts" if m.group(3) == "ok" else "rejects"),
                {"program": src, "observed": l, "how": "cargo run of harness/wide/wide_bin.rs against the tree"})
    ctx.add_stream("L2-128-bit-arguments", len(lines or []), len(lines or []), samples=(lines or [])[:2], oracle_failures=bad, agreeing=agree,
                   note="oracle only (u128 / i128 are outside the Lean model's argument universe): wrapper accepts iff the part accepts")
    ctx.cov["traces_validated_against_impl"] += len(lines or [])
