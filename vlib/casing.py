"""Independent Python statements of the three casing routines the code uses (ASCII identifiers only):
convert_case 0.8 with its default boundaries, and serde_derive's snake_case rule for variants.
Used as oracles and by the generators; validated against the real crates by the L3 `case` stream."""


def cc_split(s):
    words, cur = [], ""
    n = len(s)
    for i, c in enumerate(s):
        if c == "_":
            words.append(cur)
            cur = ""
            continue
        cur += c
        d = s[i + 1] if i + 1 < n else ""
        e = s[i + 2] if i + 2 < n else ""
        boundary = (
            (c.islower() and d.isupper()) or (c.islower() and d.isdigit()) or (c.isupper() and d.isdigit())
            or (c.isdigit() and d.islower()) or (c.isdigit() and d.isupper())
            or (c.isupper() and d.isupper() and e.islower())
        ) if d else False
        if boundary:
            words.append(cur)
            cur = ""
    words.append(cur)
    return [w for w in words if w]


def upper_camel(s):
    return "".join(w[0].upper() + w[1:].lower() for w in cc_split(s))


def cc_snake(s):
    return "_".join(w.lower() for w in cc_split(s))


def cc_upper_snake(s):
    return "_".join(w.upper() for w in cc_split(s))


def serde_snake(variant):
    out = ""
    for i, ch in enumerate(variant):
        if i > 0 and ch.isupper():
            out += "_"
        out += ch.lower()
    return out


def wire_name(method):
    return serde_snake(upper_camel(method))


def in_shape(name):
    """lower-case words, each optionally ending in digits, joined by single underscores"""
    import re
    return re.fullmatch(r"[a-z]+[0-9]*(_[a-z]+[0-9]*)*", name) is not None
