"""Program generator: abstract programs (plain dicts, the same shape as the Lean `Program`), their
rendering as Rust source for the real macros, and as JSON for the model driver."""
import json

KINDS = ["exec", "query", "instantiate", "migrate", "reply", "sudo"]
CTX = {"exec": "ExecCtx", "query": "QueryCtx", "instantiate": "InstantiateCtx", "migrate": "MigrateCtx",
       "reply": "ReplyCtx", "sudo": "SudoCtx"}
WORDS = ["a", "b", "x", "go", "run", "get", "set", "add", "burn", "mint", "send", "vote", "admin", "owner", "count",
         "transfer", "update", "query", "exec", "msg", "list", "info", "config", "step", "v", "n", "id"]


# ---------------------------------------------------------------------------------------------
# types
# ---------------------------------------------------------------------------------------------
def P(name, *args):
    return {"p": [[name, list(args)]]}


def path(*segs):
    return {"p": [[s, []] if isinstance(s, str) else [s[0], list(s[1])] for s in segs]}


def T(*ts):
    return {"t": list(ts)}


def ty_text(t, sp=""):
    """normalised (white-space free) text; sp=' ' gives readable Rust"""
    if "q" in t:
        segs = t["p"]
        # first k segments belong to the `as` path; by convention exactly the first one
        return "<%s as %s>::%s" % (ty_text(t["q"], sp), seg_text(segs[0], sp), "::".join(seg_text(s, sp) for s in segs[1:])) if sp \
            else "<%sas%s>::%s" % (ty_text(t["q"]), seg_text(segs[0]), "::".join(seg_text(s) for s in segs[1:]))
    if "p" in t:
        return "::".join(seg_text(s, sp) for s in t["p"])
    if "t" in t:
        xs = [ty_text(x, sp) for x in t["t"]]
        if len(xs) == 1:
            return "(%s,)" % xs[0]
        return "(" + ("," + sp).join(xs) + ")"
    if "a" in t:
        return "[%s;%s%s]" % (ty_text(t["a"], sp), sp, t["n"])
    return t["o"]


def seg_text(s, sp=""):
    if s[1]:
        return "%s<%s>" % (s[0], ("," + sp).join(ty_text(a, sp) for a in s[1]))
    return s[0]


# ---------------------------------------------------------------------------------------------
# names
# ---------------------------------------------------------------------------------------------
def shape_name(rng, nwords=None):
    """lower-case words, each optionally ending in digits, joined by single underscores (C01's shape)"""
    n = nwords or rng.choice([1, 1, 2, 2, 3])
    ws = []
    for _ in range(n):
        w = rng.choice(WORDS)
        if rng.random() < 0.3:
            w += str(rng.choice([1, 2, 7, 10, 42, 256]))
        ws.append(w)
    return "_".join(ws)


def wild_name(rng):
    """identifier outside the shape: leading/doubled underscores, digits after an underscore, capitals"""
    base = shape_name(rng)
    k = rng.randrange(6)
    if k == 0:
        return "_" + base
    if k == 1:
        return base.replace("_", "__", 1) if "_" in base else base + "__x"
    if k == 2:
        return base + "_" + str(rng.choice([1, 2, 9]))
    if k == 3:
        return base + "_" + str(rng.choice([1, 2])) + "_x"
    if k == 4:
        return base + "_"
    return base + rng.choice(["X", "Abc", "_X"])


# ---------------------------------------------------------------------------------------------
# rendering
# ---------------------------------------------------------------------------------------------
RAW_KEYWORDS = {"type", "ref", "match", "move", "loop", "fn", "use", "mod", "in", "as", "box", "dyn", "impl", "let", "pub", "mut"}


def rs_ident(name):
    """an argument may be named like a keyword when written as a raw identifier; its wire name is the bare word"""
    return "r#" + name if name in RAW_KEYWORDS else name


def render_arg(a):
    s = ""
    for at in a.get("attrs", []):
        s += "#[%s] " % at
    d = a.get("data")
    if d is not None:
        fl = [k for k in ("raw", "opt", "instantiate") if d.get(k)]
        s += "#[sv::data(%s)] " % ", ".join(fl) if fl else "#[sv::data] "
    if a.get("payload_raw"):
        s += "#[sv::payload(raw)] "
    return "%s%s: %s" % (s, rs_ident(a["name"]), ty_text(a["ty"], " "))


def render_msg_attr(m):
    parts = [m["kind"]]
    if m.get("resp"):
        parts.append("resp=%s" % m["resp"])
    if m.get("handlers"):
        if m.get("handlers_split") and len(m["handlers"]) > 1:
            # the argument may be repeated: `handlers=[a], handlers=[b]` names the same handlers as `handlers=[a, b]`
            parts += ["handlers=[%s]" % h for h in m["handlers"]]
        else:
            parts.append("handlers=[%s]" % ", ".join(m["handlers"]))
    if m["kind"] == "reply" and m.get("reply_on_explicit", True) and m.get("reply_on"):
        parts.append("reply_on=%s" % m["reply_on"])
    return "#[sv::msg(%s)]" % ", ".join(parts)


def render_method(m, is_trait=False, body=None):
    out = []
    for a in m.get("pre_attrs", []):
        out.append("    #[%s]" % a)
    # the forwarded attributes may be written above or below the sv::msg attribute: their position is not part of the meaning
    fwd = ["    #[sv::attr(%s)]" % f for f in m.get("fwd", [])]
    split = len(fwd) if m.get("fwd_before_msg") == "all" else (1 if m.get("fwd_before_msg") else 0)
    out += fwd[:split]
    if m.get("msg"):
        out.append("    " + render_msg_attr(m["msg"]))
    out += fwd[split:]
    kind = m["msg"]["kind"] if m.get("msg") else None
    ctx = m.get("ctx_ty") or (CTX[kind] if kind else None)
    params = ["&self"]
    if ctx:
        params.append("ctx: " + ctx)
    params += [render_arg(a) for a in m.get("args", [])]
    vis = m.get("vis", "")
    sig = "    %sfn %s(%s) -> %s" % (vis + " " if vis else "", m["name"], ", ".join(params), ty_text(m["ret"], " "))
    if is_trait:
        out.append(sig + ";")
    else:
        out.append(sig + " { " + (body if body is not None else m.get("body", "todo!()")) + " }")
    return "\n".join(out)


def render_contract_attrs(c):
    out = []
    if c.get("error"):
        out.append("#[sv::error(%s)]" % c["error"])
    if c.get("custom_msg") or c.get("custom_query"):
        parts = []
        if c.get("custom_msg"):
            parts.append("msg=%s" % c["custom_msg"])
        if c.get("custom_query"):
            parts.append("query=%s" % c["custom_query"])
        out.append("#[sv::custom(%s)]" % ", ".join(parts))
    if c.get("replies"):
        out.append("#[sv::features(replies)]")
    # repeatable attributes keep their declared relative order
    for kind, payload in c.get("attr_order", default_attr_order(c)):
        if kind == "messages":
            i = payload
            s = i["module"]
            if i.get("alias"):
                s += " as " + i["alias"]
            cs = [k for k, f in (("msg", "custom_msg"), ("query", "custom_query")) if i.get(f)]
            if cs:
                s += ": custom(%s)" % ", ".join(cs)
            out.append("#[sv::messages(%s)]" % s)
        elif kind == "override":
            w = payload
            out.append("#[sv::override_entry_point(%s=%s)]" % (w, c.get("override_targets", {}).get(w, "crate::custom_%s(Empty)" % w)))
        elif kind == "msg_attr":
            out.append("#[sv::msg_attr(%s, %s)]" % (payload[0], payload[1]))
    return out


def default_attr_order(c):
    return [("messages", i) for i in c.get("ifaces", [])] + [("override", w) for w in c.get("overrides", [])] + \
           [("msg_attr", a) for a in c.get("msg_attrs", [])]


def render_contract(c, new_body="Self", extra_items=()):
    gens = c.get("generics", [])
    g_decl = "<%s>" % ", ".join(g["text"] for g in gens) if gens else ""
    g_use = "<%s>" % ", ".join(g["name"] for g in gens) if gens else ""
    wh = ""
    if c.get("wheres"):
        wh = " where " + ", ".join(w["text_sp"] if "text_sp" in w else w["text"] for w in c["wheres"])
    lines = render_contract_attrs(c)
    lines += list(c.get("pre_attrs", []))
    lines.append("impl%s %s%s%s {" % (g_decl, c["name"], g_use, wh))
    if c.get("has_new", True):
        lines.append("    pub const fn new(%s) -> Self { %s }" % (c.get("new_params", ""), new_body))
    for m in c["methods"]:
        lines.append(render_method(m))
    for it in extra_items:
        lines.append("    " + it)
    lines.append("}")
    return "\n".join(lines)


def render_interface(i):
    lines = []
    if i.get("custom_msg") or i.get("custom_query"):
        parts = []
        if i.get("custom_msg"):
            parts.append("msg=%s" % i["custom_msg"])
        if i.get("custom_query"):
            parts.append("query=%s" % i["custom_query"])
        lines.append("#[sv::custom(%s)]" % ", ".join(parts))
    for a in i.get("msg_attrs", []):
        lines.append("#[sv::msg_attr(%s, %s)]" % (a[0], a[1]))
    lines += list(i.get("pre_attrs", []))
    g = i.get("trait_generics", "")
    lines.append("pub trait %s%s {" % (i["name"], g))
    if i.get("has_error", True):
        lines.append("    type Error: From<StdError>;")
    for a in i.get("assoc", []):
        lines.append("    type %s%s;" % (a["name"], a.get("bounds_sp", a["bounds"])))
    for m in i["methods"]:
        lines.append(render_method(m, is_trait=True))
    lines.append("}")
    return "\n".join(lines)


# ---------------------------------------------------------------------------------------------
# JSON for the model driver (drops rendering-only keys)
# ---------------------------------------------------------------------------------------------
def method_json(m):
    j = {"name": m["name"], "msg": None, "fwd": m.get("fwd", []), "ret": m["ret"],
         "args": [{"name": a["name"], "ty": a["ty"], "attrs": [norm(x) for x in a.get("attrs", [])],
                   "data": a.get("data"), "payload_raw": bool(a.get("payload_raw"))} for a in m.get("args", [])]}
    if m.get("msg"):
        mm = m["msg"]
        j["msg"] = {"kind": mm["kind"], "resp": mm.get("resp"), "handlers": mm.get("handlers", []),
                    "reply_on": mm.get("reply_on") or "always"}
    j["fwd"] = [norm(x) for x in j["fwd"]]
    return j


def norm(s):
    return "".join(s.split())


def contract_json(c):
    return {"name": c["name"],
            "generics": [{"name": g["name"], "text": norm(g["text"])} for g in c.get("generics", [])],
            "wheres": [{"text": norm(w["text"]), "tys": w.get("tys", [])} for w in c.get("wheres", [])],
            "error": c.get("error"), "custom_msg": c.get("custom_msg"), "custom_query": c.get("custom_query"),
            "replies": bool(c.get("replies")), "overrides": c.get("overrides", []),
            "ifaces": [{"module": norm(i["module"]), "last": i["module"].split("::")[-1].strip(), "alias": i.get("alias"),
                        "custom_msg": bool(i.get("custom_msg")), "custom_query": bool(i.get("custom_query"))}
                       for i in c.get("ifaces", [])],
            "msg_attrs": [[a[0], norm(a[1])] for a in c.get("msg_attrs", [])],
            "methods": [method_json(m) for m in c["methods"]],
            "ep_generics": [norm(x) for x in c.get("ep_generics", [])]}


def interface_json(i):
    return {"name": i["name"], "module": i.get("module", ""),
            "assoc": [{"name": a["name"], "bounds": norm(a["bounds"]), "tys": a.get("tys", [])} for a in i.get("assoc", [])],
            "custom_msg": i.get("custom_msg"), "custom_query": i.get("custom_query"),
            "msg_attrs": [[a[0], norm(a[1])] for a in i.get("msg_attrs", [])],
            "methods": [method_json(m) for m in i["methods"]]}


def dumps(j):
    return json.dumps(j, separators=(",", ":"), ensure_ascii=True)


RESP = path("StdResult", ) if False else {"p": [["StdResult", [{"p": [["Response", []]]}]]]}


def std_result(inner):
    return {"p": [["StdResult", [inner]]]}


def simple_method(name, kind, args=(), ret=None, **kw):
    m = {"name": name, "msg": {"kind": kind}, "args": list(args), "ret": ret or RESP}
    if kind == "reply":
        m["msg"]["reply_on"] = kw.pop("reply_on", "always")
        m["msg"]["handlers"] = kw.pop("handlers", [])
    m.update(kw)
    return m
