"""L1: in-process expansion of generated programs through the hook harness."""
import json
import os

from . import common as c


def expand(programs, tag, level="full"):
    """programs: list of (id, macro, attr_text, source_text). Returns {id: facts}."""
    os.makedirs(c.CACHE, exist_ok=True)
    inp = os.path.join(c.CACHE, "l1_%s_in.txt" % tag)
    outp = os.path.join(c.CACHE, "l1_%s_out.jsonl" % tag)
    with open(inp, "w") as f:
        for pid, macro, attr, src in programs:
            assert "\n" not in attr and "@@ " not in src
            f.write("@@ %s %s\n%s\n%s\n" % (pid, macro, attr, src))
    if os.path.exists(outp):
        os.remove(outp)
    c.run_hook("expand", inp, outp, extra_env={"VERIF_HOOK_LEVEL": level})
    res = {}
    for line in open(outp):
        if line.strip():
            j = json.loads(line)
            res[j["id"]] = j
    return res


def find_mod(items, name):
    for it in items or []:
        if it.get("k") == "mod" and it.get("name") == name:
            return it
    return None


def items_by(items, k, name=None):
    return [it for it in items or [] if it.get("k") == k and (name is None or it.get("name") == name)]
