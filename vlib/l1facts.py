"""L1 facts: the generated message types as observed in a real expansion (hook harness output), in the
shape the model driver prints them (`facts contract` / `facts iface <module>`); and the generator of
expansion-only programs (rich in generics, bounds, forwarded attributes)."""
import json
import re

from . import casing, gen
from .gen import P, T

FIXED_ATTR = re.compile(r"^(derive\(sylvia::serde::Serialize,|schemars\(crate=|serde\(crate=|query_responses\(crate=|allow\(clippy::derive_partial_eq_without_eq\))")
MSG_NAMES = {"ExecMsg", "QueryMsg", "SudoMsg", "InstantiateMsg", "MigrateMsg"}


def _fields(fs):
    return [{"name": f["name"] or "", "ty": f["ty"], "attrs": f["attrs"]} for f in fs]


def observed(facts, trait_name=None):
    """facts: one line of hook output for a contract / interface expansion"""
    sv = None
    for it in facts.get("items") or []:
        if it.get("k") == "mod" and it.get("name") == "sv":
            sv = it
    if sv is None:
        return None
    items = sv["items"]
    want = {(trait_name + n) if trait_name else n: n for n in MSG_NAMES}
    msgs = {}
    for it in items:
        if it["k"] in ("enum", "struct") and it["name"] in want:
            m = {"name": it["name"], "generics": it["generics"], "wheres": [], "attrs": [a for a in it["attrs"] if not FIXED_ATTR.match(a)],
                 "variants": [], "dispatch_generics": []}
            if it["k"] == "enum":
                m["variants"] = [{"name": v["name"], "attrs": v["attrs"], "fields": _fields(v["fields"])} for v in it["variants"]]
            else:
                m["variants"] = [{"name": "", "attrs": [], "fields": _fields(it["fields"])}]
            msgs[it["name"]] = m
    for it in items:
        if it["k"] == "impl" and it.get("trait") is None:
            base = re.match(r"\w+", it["self_ty"]).group(0)
            if base in msgs and any(f["k"] == "fn" and f["name"] == "dispatch" for f in it["items"]):
                msgs[base]["wheres"] = it["where"]
                for f in it["items"]:
                    if f["k"] == "fn" and f["name"] == "dispatch":
                        msgs[base]["dispatch_generics"] = f["generics"]
    order = ["ExecMsg", "QueryMsg", "SudoMsg", "InstantiateMsg", "MigrateMsg"]
    out_msgs = [msgs[(trait_name or "") + n] for n in order if ((trait_name or "") + n) in msgs]
    lists = []
    for fn in ("execute_messages", "query_messages", "sudo_messages"):
        for it in items:
            if it["k"] == "fn" and it["name"] == fn:
                lists.append(re.findall(r'"([^"]*)"', it["body"]))
    out = {"msgs": out_msgs, "lists": lists}
    api = {}
    for it in items:
        if it["k"] == "impl" and it.get("trait") and it["trait"].endswith("ContractApi" if not trait_name else "InterfaceMessagesApi"):
            if trait_name and not it["self_ty"] == "Contract":
                continue
            for x in it["items"]:
                if x["k"] == "type" and x["name"] in ("Exec", "Query", "Sudo", "Instantiate", "Migrate", "ContractExec", "ContractQuery", "ContractSudo"):
                    api[x["name"]] = x["ty"]
    out["api"] = api
    if not trait_name:
        out["reply_ids"] = [it["name"] for it in items if it["k"] == "const" and it["name"].endswith("_REPLY_ID")]
    return out


def canon(j):
    return json.dumps(j, separators=(",", ":"), ensure_ascii=False, sort_keys=True)


# ---------------------------------------------------------------------------------------------
# generator of expansion-only programs
# ---------------------------------------------------------------------------------------------
GEN_NAMES = ["T", "U", "V", "MsgT", "QueryT", "ParamT", "Item", "K"]
CONCRETE = ["u32", "String", "Addr", "Uint128", "bool", "Coin", "Binary", "MyStruct"]
ATTR_POOL_TYPE = ["derive(PartialOrd)", "derive(Eq)", "cfg_attr(test, derive(Hash))", "non_exhaustive", "doc = \"fwd\""]
ATTR_POOL_VARIANT = ["serde(rename = \"zz\")", "doc = \"variant\"", "cfg_attr(test, allow(dead_code))", "serde(alias = \"al\")"]
ATTR_POOL_FIELD = ["serde(default)", "serde(rename = \"fld\")", "serde(skip_serializing_if = \"Option::is_none\")", "doc = \"field\"", "cfg_attr(test, allow(unused))"]


def rand_ty(rng, gens, depth=0, p_gen=0.45):
    r = rng.random()
    if gens and rng.random() < 0.06:
        # a *concrete* type written with a path whose last segment is spelled like a type parameter: not a use of the parameter
        g = rng.choice(gens)
        return rng.choice([gen.path("wire", g), P("Vec", gen.path("crate", "wire", g))])
    if gens and r < p_gen:
        g = rng.choice(gens)
        k = rng.random()
        if k < 0.5 or depth >= 2:
            return P(g)
        if k < 0.65:
            return gen.path("Self", g) if False else P(g)
        return rng.choice([P("Vec", P(g)), P("Option", P(g)), P("Option", P("Vec", P(g))), T(P(g), P("u32")),
                           {"a": P(g), "n": "3"}, gen.path("std", "collections", ("BTreeMap", [P("String"), P(g)]))])
    if depth < 2 and r < 0.6:
        return rng.choice([P("Vec", rand_ty(rng, gens, depth + 1)), P("Option", rand_ty(rng, gens, depth + 1)),
                           T(rand_ty(rng, gens, depth + 1), rand_ty(rng, gens, depth + 1))])
    if r < 0.7:
        return gen.path("cosmwasm_std", "Decimal")
    return P(rng.choice(CONCRETE))


def gen_l1_args(rng, gens, selfy=False):
    n = rng.choice([0, 1, 1, 2, 3])
    names = rng.sample(["a", "b", "amount", "to", "flag", "items", "memo", "x1", "y_2"], n)
    out = []
    for nm in names:
        ty = rand_ty(rng, gens)
        if selfy:
            ty = selfify(ty, gens)
        a = {"name": nm, "ty": ty}
        if rng.random() < 0.3:
            a["attrs"] = rng.sample(ATTR_POOL_FIELD, rng.choice([1, 1, 2]))
        out.append(a)
    return out


def selfify(ty, gens):
    """interfaces name their associated types through `Self::`"""
    if "p" in ty:
        segs = ty["p"]
        if len(segs) == 1 and not segs[0][1] and segs[0][0] in gens:
            return {"p": [["Self", []], [segs[0][0], []]]}
        return {"p": [[n, [selfify(a, gens) for a in args]] for n, args in segs]}
    if "t" in ty:
        return {"t": [selfify(x, gens) for x in ty["t"]]}
    if "a" in ty:
        return {"a": selfify(ty["a"], gens), "n": ty["n"]}
    return ty


def mentions(ty):
    out = []
    if "p" in ty:
        segs = ty["p"]
        if len(segs) == 1 and not segs[0][1]:
            out.append(segs[0][0])
        for n, args in segs:
            for a in args:
                out += mentions(a)
    elif "t" in ty:
        for x in ty["t"]:
            out += mentions(x)
    elif "a" in ty:
        out += mentions(ty["a"])
    return out


def gen_l1_contract(rng, idx):
    ngen = rng.choice([0, 0, 1, 2, 3, 4])
    gens = rng.sample(GEN_NAMES, ngen)
    generics = [{"name": g, "text": g} for g in gens]
    wheres = []
    for g in gens:
        if rng.random() < 0.7:
            bound = rng.choice(["Clone", "std::fmt::Debug + Clone", "sylvia::types::CustomMsg + 'static", "serde::Serialize"])
            wheres.append({"text": "%s: %s" % (g, bound), "tys": [P(g)] + [P(b.strip()) if "::" not in b else gen.path(*b.strip().split("::")) for b in bound.split("+") if "'" not in b]})
    if len(gens) >= 2 and rng.random() < 0.5:
        a, b = rng.sample(gens, 2)
        wheres.append({"text": "%s: Into<%s>" % (a, b), "tys": [P(a), P("Into", P(b))]})
    if gens and rng.random() < 0.3:
        g = rng.choice(gens)
        wheres.append({"text": "Vec<%s>: Default" % g, "tys": [P("Vec", P(g)), P("Default")]})
    used_fn = set()
    methods = [gen.simple_method("instantiate", "instantiate", gen_l1_args(rng, gens))]
    for _ in range(rng.randint(1, 6)):
        k = rng.choice(["exec", "exec", "query", "query", "sudo"])
        nm = gen.shape_name(rng) if rng.random() < 0.8 else gen.wild_name(rng)
        if nm in used_fn or nm in ("new", "instantiate", "dispatch") or not casing.upper_camel(nm)[:1].isalpha():
            continue
        if casing.upper_camel(nm) in {casing.upper_camel(x) for x in used_fn}:
            continue
        used_fn.add(nm)
        m = gen.simple_method(nm, k, gen_l1_args(rng, gens))
        if k != "query" and gens and rng.random() < 0.12:
            # `resp=` is accepted on every kind and means something for queries only: it is no use of a parameter elsewhere
            m["msg"]["resp"] = rng.choice(gens)
        if k == "query":
            r = rng.random()
            rt = rand_ty(rng, gens, depth=1, p_gen=0.5)
            if "p" not in rt:
                rt = P("MyResp")
            if r < 0.2:
                # an explicit response type: a concrete name, or one of the contract's own type parameters (it then counts as used)
                m["msg"]["resp"] = rng.choice(gens) if gens and rng.random() < 0.5 else "ExplicitResp"
                m["ret"] = P("QueryResult", P("ContractError"))
            elif r < 0.6:
                m["ret"] = gen.std_result(rt)
            elif gens and r < 0.75:
                # a parameter that occurs only in the *error* half of the result does not count as used
                m["ret"] = {"p": [["Result", [rt, P("MyErr", P(rng.choice(gens)))]]]}
            else:
                m["ret"] = {"p": [["Result", [rt, P("ContractError")]]]}
        if k != "instantiate" and rng.random() < 0.3:
            m["fwd"] = rng.sample(ATTR_POOL_VARIANT, rng.choice([1, 2]))
            m["fwd_before_msg"] = rng.choice([False, False, True, "all"])
        methods.append(m)
    if rng.random() < 0.4:
        methods.append(gen.simple_method("migrate_it", "migrate", gen_l1_args(rng, gens)))
    rng.shuffle(methods)
    msg_attrs = []
    for _ in range(rng.choice([0, 0, 1, 2, 3, 5])):
        msg_attrs.append([rng.choice(["exec", "query", "sudo", "instantiate", "migrate"]), rng.choice(ATTR_POOL_TYPE)])
    msg_attrs += interleaved_msg_attrs(rng, ["exec", "query", "sudo", "instantiate", "migrate"])
    ct = {"name": "Ct%d" % idx, "generics": generics, "wheres": wheres, "methods": methods, "msg_attrs": msg_attrs}
    if rng.random() < 0.5:
        ct["error"] = "ContractError"
    if rng.random() < 0.3:
        ct["ifaces"] = [{"module": "crate::ifc%d" % j, "alias": None} for j in range(rng.choice([1, 2]))]
    return ct


def interleaved_msg_attrs(rng, kinds):
    """now and then: attributes for one kind separated by an attribute for another kind (A, B, A) - nothing says they must be adjacent"""
    if rng.random() >= 0.25:
        return []
    a, b = rng.sample(kinds, 2)
    xs = rng.sample(ATTR_POOL_TYPE, min(3, len(ATTR_POOL_TYPE)))
    return [[a, xs[0]], [b, xs[1 % len(xs)]], [a, xs[2 % len(xs)]]]


def gen_l1_interface(rng, idx):
    assoc_names = rng.sample(["ExecC", "QueryC", "ItemT", "ParamT", "RetT"], rng.choice([0, 1, 2, 3]))
    assoc = []
    for n in assoc_names:
        b = {"ExecC": "sylvia::types::CustomMsg", "QueryC": "sylvia::types::CustomQuery"}.get(n, rng.choice(["Clone", "std::fmt::Debug", "serde::Serialize + Clone"]))
        assoc.append({"name": n, "bounds": ": " + b, "tys": [gen.path(*x.strip().split("::")) for x in b.split("+")]})
    gens = assoc_names
    methods = []
    used_fn = set()
    for _ in range(rng.randint(1, 5)):
        k = rng.choice(["exec", "query", "sudo"])
        nm = gen.shape_name(rng)
        if nm in used_fn or nm in ("new", "dispatch") or casing.upper_camel(nm) in {casing.upper_camel(x) for x in used_fn}:
            continue
        used_fn.add(nm)
        m = gen.simple_method(nm, k, gen_l1_args(rng, gens, selfy=True))
        inner = selfify(rand_ty(rng, gens, depth=1), gens) if k == "query" else P("Response")
        if "p" not in inner:
            inner = P("MyResp")
        m["ret"] = {"p": [["Result", [inner, gen.path("Self", "Error")]]]}
        if rng.random() < 0.3:
            m["fwd"] = rng.sample(ATTR_POOL_VARIANT, 1)
            m["fwd_before_msg"] = rng.choice([False, True])
        methods.append(m)
    msg_attrs = [[rng.choice(["exec", "query", "sudo"]), rng.choice(ATTR_POOL_TYPE)] for _ in range(rng.choice([0, 0, 1, 2, 4]))]
    msg_attrs += interleaved_msg_attrs(rng, ["exec", "query", "sudo"])
    it = {"name": "Ifc%d" % idx, "module": "ifc%d" % idx, "assoc": assoc, "methods": methods, "msg_attrs": msg_attrs}
    if "ExecC" not in assoc_names:
        it["custom_msg"] = "Empty"
    if "QueryC" not in assoc_names:
        it["custom_query"] = "Empty"
    return it
