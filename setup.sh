#!/bin/sh
# Offline set-up: build the Lean project (model, theorems, driver) and warm the cargo caches.
set -e
cd "$(dirname "$0")"
export CARGO_NET_OFFLINE=true
# regenerate the tables from /repo's current sources (builds the hook test binary), then build everything
python3 -m vlib.translate
python3 -m vlib.rs2lean
python3 - <<'PY'
import os
root = 'lean/Sylvia'
mods = []
for d, _, fs in os.walk(root):
    for f in sorted(fs):
        if f.endswith('.lean'):
            mods.append(os.path.relpath(os.path.join(d, f), 'lean')[:-5].replace('/', '.'))
open('lean/Sylvia.lean', 'w').write(''.join('import %s\n' % m for m in sorted(mods)))
PY
(cd lean && (lake build Sylvia svmodel svx_utils svx_bridge || echo "setup: lake build reported errors; every check builds the modules it needs itself"))
python3 - <<'PY'
import sys
sys.path.insert(0, '.')
from vlib import common as c
try:
    c.build_rt()
except c.BuildError as e:
    print(e.out[-4000:]); sys.exit(1)
try:
    from vlib import warm
    warm.main()
except ImportError:
    pass
PY
echo setup-ok
