#!/bin/sh
# Offline set-up: build the Lean project (model, theorems, driver) and warm the cargo caches.
set -e
cd "$(dirname "$0")"
export CARGO_NET_OFFLINE=true
(cd lean && lake build Sylvia svmodel)
python3 - <<'PY'
import sys
sys.path.insert(0, '.')
from vlib import common as c
try:
    c.build_rt()
except c.BuildError as e:
    print(e.out[-4000:]); sys.exit(1)
try:
    from vlib import warm
    warm.main()
except ImportError:
    pass
PY
echo setup-ok
