#!/usr/bin/env python3
"""Archive the round-6 seeded changes (/tmp/seed6/out/<Cxx>-r6: patch.diff, demo.rs, notes.md, eval.json by tools/par_eval.py) into
/verif/seeded/<Cxx>-6/."""
import json, os, shutil

SRC = "/tmp/seed6/out"
DESC = {
 "C02": ("`From<(Deps, Env)> for QueryCtx` rebuilds the environment with `transaction: None`", "a query handler reading `ctx.env.transaction`", None),
 "C03": ("one overlap guard per interface (interface vs contract only)", "two interfaces sharing a message name the contract does not use", None),
 "C04": ("multitest override dispatch looked up by position in the unfiltered attribute list (a `reply` override shifts the later ones)", "overrides declared reply, sudo, migrate in that order", None),
 "C07": ("pass-through strips event attributes whose key starts with `_`", "uncovered success with chain events (`_contract_address`)", None),
 "C08": ("dispatch arms decode the payload by the called method's own `#[sv::payload(raw)]` marker, builders by the first method's", "raw marker on one of two merged methods only", None),
 "C09": ("present-but-empty data filtered to `None` before the data modes", "raw modes with zero-length data", None),
 "C10": ("`ExecutorBuilder::with_funds` extends instead of replacing", "two `with_funds` calls on one builder", None),
 "C12": ("`InstantiateProxy::with_admin(\"\")` treated as no admin (again)", "empty admin string", None),
 "C16": ("`serde(rename = \"<fn name>\")` on variants + lists from the same name; the QueryResponses table stays keyed by the variant", "query names with a lossy round trip", None),
 "C18": ("marker validation runs only for the method that opens a reply id, not for the merged one", "misplaced `#[sv::data]` / parameter after `#[sv::payload(raw)]` on the second-declared method", None),
}
DET = json.load(open(os.path.join(os.path.dirname(__file__), "r6_detected.json"))) if os.path.exists(os.path.join(os.path.dirname(__file__), "r5_detected.json")) else {}
for pid, (what, needs, _) in sorted(DESC.items()):
    src = os.path.join(SRC, pid + "-r6")
    if not os.path.isdir(src) or not os.path.exists(os.path.join(src, "patch.diff")):
        print("missing", src)
        continue
    dst = "/verif/seeded/%s-7" % pid
    os.makedirs(os.path.join(dst, "demo"), exist_ok=True)
    shutil.copy(os.path.join(src, "patch.diff"), os.path.join(dst, "patch.diff"))
    shutil.copy(os.path.join(src, "demo.rs"), os.path.join(dst, "demo", "demo.rs"))
    if os.path.exists(os.path.join(src, "notes.md")):
        shutil.copy(os.path.join(src, "notes.md"), os.path.join(dst, "AUTHOR_NOTES.md"))
    ev = json.load(open(os.path.join(src, "eval.json"))) if os.path.exists(os.path.join(src, "eval.json")) else {}
    meta = {"id": pid + "-6", "round": 6, "property": pid, "breaks": what, "needs_to_manifest": needs,
            "author": "independent sub-agent given only the property text and a scratch worktree of /repo",
            "confirmed_in_scratch_worktree": {k: ev.get(k) for k in ("demo_passes_without_patch", "demo_fails_with_patch", "suite_with_patch")},
            "what_i_ran": ["python3 tools/par_eval.py <slot> <dir>  (own worktree of /repo: demo passes without / fails with the patch; cargo test --workspace --offline passes with it; then every quick check of the committed /verif against the patched worktree)",
                           "where a check missed it: generator / stream extended, then git -C /repo apply patch.diff; ./check %s --tier quick; git -C /repo checkout -- ." % pid],
            "checks_alarming_at_first_evaluation": ev.get("caught_by", []),
            "verif_commit_of_first_evaluation": ev.get("verif_commit"),
            "detected_by": DET.get(pid, ", ".join(ev.get("caught_by", [])))}
    json.dump(meta, open(os.path.join(dst, "meta.json"), "w"), indent=1)
    print("archived", dst)
