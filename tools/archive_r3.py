#!/usr/bin/env python3
"""Archive the round-3 seeded changes (written by sub-agents under /tmp/seed3/out) into /verif/seeded/<id>/ with meta.json
built from the evaluation that tools/par_eval.py wrote next to each (eval.json)."""
import json, os, shutil, sys

SRC = "/tmp/seed3/out"
DESC = {
 "C01-r3-1": ("message fields rebuilt with Ident::new(name.to_string()): an argument written as a raw identifier (r#type) makes the macro panic", "a handler argument named with a raw identifier"),
 "C01-r3-2": ("generics checker visits an argument type only when its outermost type is a path: a parameter used only inside a top-level tuple/array argument is dropped from the message type", "a type parameter used only through `(T, u32)` / `[T; 2]` arguments of a kind"),
 "C02-r3-1": ("IntoMsg rebuilds the SubMsg through constructors; the ReplyOn::Error arm is a copy of Success", "custom-msg contract + Empty interface whose handler returns a reply-on-error sub-message"),
 "C02-r3-2": ("IntoResponse converts messages with pop(): order reversed", "bridged handler returning two or more messages"),
 "C03-r3-1": ("contract-level Deserialize: `map.len() != 1` became `> 1`; the empty object panics in unwrap", "the document {}"),
 "C03-r3-2": ("echoed unknown document truncated with String::truncate(128): panics inside a multi-byte character", "unknown name + document longer than 128 bytes with a multi-byte character straddling byte 128"),
 "C04-r3-1": ("override_entry_point(instantiate=..) registered as an exec override: execute runs the user's instantiate entry point", "a contract overriding instantiate, on a multitest chain"),
 "C04-r3-2": ("override_entry_point(reply=..) registered as a sudo override", "a contract overriding reply, on a multitest chain"),
 "C05-r3-1": ("overlap guard emitted as an inline `const { }` block inside generic dispatch: not evaluated unless the function is instantiated", "generic contract sharing a name with an interface, never instantiated (or cargo check only)"),
 "C05-r3-2": ("one guard per interface (interface vs contract only): two interfaces sharing a name are accepted", "two interfaces with the same message name, the contract not using it"),
 "C06-r3-1": ("reply/migrate detection folded into one find_map pass: a migrate handler declared after a reply handler is never seen", "reply handler declared before the migrate handler"),
 "C06-r3-2": ("legacy reply entry point builds the contract as `Name::new()` without the concrete generics", "generic contract + legacy reply handler + entry_points(generics<..>)"),
 "C07-r3-1": ("success arm destructures the response only when the success method has a data parameter: events / msg_responses empty in the context otherwise", "success handler without #[sv::data] reading ctx events / msg_responses"),
 "C07-r3-2": ("`handlers=[..]` argument assigned instead of appended: with the argument repeated only the last one counts", "sv::msg(reply, handlers=[a], handlers=[b], ..)"),
 "C08-r3-1": ("builder binds locals `id` / `reply_on` before serialising the payload: like-named payload parameters are shadowed", "typed payload parameter named id or reply_on"),
 "C08-r3-2": ("builder on an existing SubMsg keeps its old payload when the new raw payload is empty", "existing SubMsg with payload + raw payload handler + empty Binary"),
 "C09-r3-1": ("absent data refilled from msg_responses[0].value", "reply with data None and a non-empty first msg_response"),
 "C09-r3-2": ("mandatory instantiate mode: absent data treated as an empty envelope (parses to an empty address)", "instantiate data mode with data None"),
 "C10-r3-1": ("routing lists sorted by method identifier + binary search in the contract-level Deserialize", "names whose method order differs from wire-name order (mint_1 vs mint20)"),
 "C10-r3-2": ("InstantiateBuilder::with_label trims the label", "label with leading / trailing white space"),
 "C11-r3-1": ("into_response drains messages with pop(): order reversed", "two or more sub-messages in a bridged response"),
 "C11-r3-2": ("Distribution arm of into_msg moved under cfg(feature = \"stargate\")", "sylvia built with staking but without stargate + a Distribution message"),
 "C12-r3-1": ("InstantiateProxy::with_funds resets label/admin/salt to their defaults", "with_label / with_admin called before with_funds"),
 "C12-r3-2": ("ExecProxy::call drops zero-amount coins from the funds", "exec proxy call whose funds hold a zero-amount coin"),
 "C13-r3-1": ("an impl-level allow(..) naming clippy::new_without_default together with other lints is removed whole", "#[allow(clippy::new_without_default, other_lint)] on the impl block"),
 "C13-r3-2": ("attributes on the first two parameters (self, ctx) of a handler are no longer stripped", "foreign attribute on a handler's &self or ctx parameter"),
 "C14-r3-1": ("msg_attr list grouped with chunk_by: attributes for a kind after an intervening other kind are dropped (contracts)", "sv::msg_attr lines for one kind separated by a line for another kind"),
 "C14-r3-2": ("merge slices the second method's payload with the entry's stale data field", "error method declared first, success method with #[sv::data] second"),
 "C15-r3-1": ("generic marked used when the last segment of any path has its name", "concrete type `wire::Label` in a contract generic over `Label`"),
 "C15-r3-2": ("resp= fed to the generics checker for non-query handlers too", "#[sv::msg(exec, resp=T)]"),
 "C16-r3-1": ("contract-level response table cached in a function-local static shared by all instantiations", "two instantiations of a generic contract asked for response_schemas() in one process"),
 "C16-r3-2": ("contract's own part dropped from the contract-level any_of unless it has exec handlers", "contract with own queries but no own exec handler"),
 "C17-r3-1": ("interface msg_attr list not sorted before taking the first contiguous run per kind", "interface with msg_attr(exec) after an intervening msg_attr(query)"),
 "C17-r3-2": ("forwarded derive(..) stripped of already-derived traits by substring test: Eq removed (PartialEq contains Eq)", "sv::msg_attr(kind, derive(Eq))"),
 "C18-r3-1": ("merge no longer builds a ReplyData for the second method: its markers are not validated", "invalid payload / data markers on the second-declared method of a success/error pair"),
 "C18-r3-2": ("#[sv::data] in an always handler no longer rejected", "reply_on=always (or omitted) method with #[sv::data]"),
 "C19-r3-1": ("fallback success arm emits a bare `Response::new()`", "error-only reply handler in a module that does not import Response by name"),
 "C19-r3-2": ("Deserialize helper parameter SvDeserializerT renamed to D", "generic contract whose parameter is named D"),
 "C20-r3-1": ("JsonSchema for Remote loses `?Sized`", "schema of Remote<dyn Interface<..>>"),
 "C20-r3-2": ("blank address refused on decode", "empty / white-space-only address"),
}


def main():
    nxt = {}
    for d in sorted(os.listdir("/verif/seeded")):
        p, k = d.rsplit("-", 1)
        nxt[p] = max(nxt.get(p, 0), int(k))
    for name in sorted(DESC):
        src = os.path.join(SRC, name)
        ev = os.path.join(src, "eval.json")
        if not os.path.exists(ev):
            print("no evaluation yet:", name); continue
        j = json.load(open(ev))
        prop = name[:3]
        k = int(name[-1])
        sid = "%s-%d" % (prop, 4 + k)
        dst = os.path.join("/verif/seeded", sid)
        os.makedirs(os.path.join(dst, "demo"), exist_ok=True)
        shutil.copy(os.path.join(src, "patch.diff"), os.path.join(dst, "patch.diff"))
        shutil.copy(os.path.join(src, "demo.rs"), os.path.join(dst, "demo", "seed_demo.rs"))
        if os.path.exists(os.path.join(src, "NOTES.md")):
            shutil.copy(os.path.join(src, "NOTES.md"), os.path.join(dst, "AUTHOR_NOTES.md"))
        concrete, obl = [], []
        for p, v in j["checks"].items():
            if v["caught"]:
                (obl if v.get("replay", "").startswith("obligation") else concrete).append(p)
        meta = {"id": sid, "round": 3, "property": prop, "breaks": DESC[name][0], "needs_to_manifest": DESC[name][1],
                "author": "independent sub-agent given only the property record and a scratch worktree of /repo",
                "confirmed_in_scratch_worktree": {k2: j[k2] for k2 in ("demo_passes_without_patch", "demo_fails_with_patch", "suite_with_patch")},
                "what_i_ran": ["python3 tools/par_eval.py <slot> <dir>  (own worktree of /repo + copy of the committed /verif: demo passes without / fails with the patch, "
                               "cargo test --workspace --offline passes with it; then every quick check against the patched worktree)"],
                "evaluated_at_verif_commit": j.get("verif_commit"),
                "caught_with_failing_input_by": concrete, "caught_without_failing_input_by": obl}
        json.dump(meta, open(os.path.join(dst, "meta.json"), "w"), indent=1)
        print(sid, "concrete", concrete, "obligation-only", obl)


if __name__ == "__main__":
    main()
