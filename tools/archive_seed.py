#!/usr/bin/env python3
"""archive_seed.py <Cxx> <1|2> <breaks> <detected_by>   — copy a sub-agent's seeded change from /tmp/seed/out-<Cxx> into /verif/seeded/<Cxx>-<n>/"""
import json, os, shutil, sys
pid, n, breaks, detected = sys.argv[1:5]
which = sys.argv[5] if len(sys.argv) > 5 else n      # which of the agent's two patches (1|2) when archived under another number
src = "/tmp/seed/out-%s" % pid
dst = "/verif/seeded/%s-%s" % (pid, n)
os.makedirs(dst, exist_ok=True)
shutil.copy(os.path.join(src, "patch.diff" if which == "1" else "patch2.diff"), os.path.join(dst, "patch.diff"))
d = os.path.join(src, "demo" if which == "1" else "demo2")
if os.path.isdir(os.path.join(dst, "demo")):
    shutil.rmtree(os.path.join(dst, "demo"))
os.makedirs(os.path.join(dst, "demo"))
for f in os.listdir(d):
    if f.endswith((".rs", ".sh", ".toml", ".md")):
        shutil.copy(os.path.join(d, f), os.path.join(dst, "demo", f))
if os.path.exists(os.path.join(src, "NOTES.md")):
    shutil.copy(os.path.join(src, "NOTES.md"), os.path.join(dst, "AUTHOR_NOTES.md"))
conf = None
cf = "/tmp/seed/confirm-%s-%s.txt" % (pid, which)
if os.path.exists(cf):
    try:
        conf = json.loads(open(cf).readline())
    except Exception:
        conf = None
meta = {"id": "%s-%s" % (pid, n), "property": pid, "breaks": breaks, "needs_to_manifest": breaks,
        "author": "independent sub-agent given only the property text and a scratch worktree of /repo",
        "confirmed_in_scratch_worktree": conf,
        "what_i_ran": ["python3 tools/seed_eval.py confirm <worktree> patch.diff <demo test>  (demo passes without / fails with the patch; cargo test --workspace --offline passes with it)",
                       "python3 tools/seed_eval.py run patch.diff %s  (git -C /repo apply; ./check ... --tier quick; git -C /repo checkout -- .)" % pid],
        "detected_by": detected}
json.dump(meta, open(os.path.join(dst, "meta.json"), "w"), indent=1)
print("archived", dst)
