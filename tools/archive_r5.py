#!/usr/bin/env python3
"""Archive the round-5 seeded changes (/tmp/seed5/out/<Cxx>-r5: patch.diff, demo.rs, notes.md, eval.json by tools/par_eval.py) into
/verif/seeded/<Cxx>-6/."""
import json, os, shutil

SRC = "/tmp/seed5/out"
DESC = {
 "C01": ("`serde(alias = \"<fn name>\")` on variants whose wire name differs from the method name", "handler names with a lossy round trip (`swap_2x`): the part accepts two names", None),
 "C02": ("`CosmosMsg::Distribution` arm of `into_msg` under `cfg(feature = \"stargate\")`", "sylvia built with staking but without stargate + a bridged handler returning a distribution message", None),
 "C03": ("name lists built from `serde_snake_case(function_name)` instead of the variant name", "underscore before a digit, leading / trailing / doubled underscore", None),
 "C04": ("legacy reply entry point picks the first handler taking only a `Reply`, whatever its kind", "legacy contract with a sudo / migrate handler taking just a `Reply`, declared before the reply method", None),
 "C05": ("overlap guard emitted only when the contract has a handler of that kind of its own", "two interfaces sharing a name, contract without own handler of the kind", None),
 "C06": ("migrate / reply entry points from one zipped iterator chain: overriding reply pairs migrate with the reply flag", "reply overridden + migrate handler, no reply handler (and the converse)", None),
 "C07": ("payload decoding hoisted before `match result` (third rediscovery)", "uncovered outcome + undecodable payload", None),
 "C08": ("builders bind locals `id` / `reply_on` before serialising the payload", "payload parameter named `id` or `reply_on`", None),
 "C09": ("absent data refilled from the single message response", "data None + exactly one message response with a non-empty value", None),
 "C10": ("blanket `Executor` impl for contracts forwards to a fresh `dyn` builder with empty funds", "interface method through a contract-typed handle with non-empty funds", None),
 "C11": ("`CosmosMsg::Distribution` arm under `cfg(feature = \"stargate\")`", "default features + distribution message in a bridged response", None),
 "C12": ("multitest dispatch of an overriding entry point converts its error with `anyhow!(\"{}\", err)`", "overridden entry point + handler error inspected through the proxy", None),
 "C13": ("`fold_trait_item_fn` strips parameter attributes of every trait method", "non-handler method with a parameter attribute in an interface trait", None),
 "C14": ("`used.push(gen); used.dedup()`: only consecutive duplicates removed", "generic used, another one, then the first again: accepted in one handler order only", None),
 "C15": ("`filter_wheres` scans the bounded type only", "`SeedT: Into<StoredT>` with a message using only `SeedT`", None),
 "C16": ("`resp=` only a fallback for aliased results (again)", "`resp=X` on a handler returning `StdResult<Y>`", None),
 "C17": ("`sv::attr` met before the handler's `sv::msg` is dropped", "`#[sv::attr]` above `#[sv::msg]`", None),
 "C18": ("payload comparison skipped for a method already merged under an earlier name", "one error method under two handler names, mismatching the second", None),
 "C19": ("`with_salt<S>` on the instantiate proxy", "generic contract with a parameter named `S`, `mt` feature", None),
 "C20": ("hand-written (De)Serialize of `Remote` through `&str`", "address needing a JSON escape", None),
}
DET = json.load(open(os.path.join(os.path.dirname(__file__), "r5_detected.json"))) if os.path.exists(os.path.join(os.path.dirname(__file__), "r5_detected.json")) else {}
for pid, (what, needs, _) in sorted(DESC.items()):
    src = os.path.join(SRC, pid + "-r5")
    if not os.path.isdir(src) or not os.path.exists(os.path.join(src, "patch.diff")):
        print("missing", src)
        continue
    dst = "/verif/seeded/%s-6" % pid
    os.makedirs(os.path.join(dst, "demo"), exist_ok=True)
    shutil.copy(os.path.join(src, "patch.diff"), os.path.join(dst, "patch.diff"))
    shutil.copy(os.path.join(src, "demo.rs"), os.path.join(dst, "demo", "demo.rs"))
    if os.path.exists(os.path.join(src, "notes.md")):
        shutil.copy(os.path.join(src, "notes.md"), os.path.join(dst, "AUTHOR_NOTES.md"))
    ev = json.load(open(os.path.join(src, "eval.json"))) if os.path.exists(os.path.join(src, "eval.json")) else {}
    meta = {"id": pid + "-6", "round": 5, "property": pid, "breaks": what, "needs_to_manifest": needs,
            "author": "independent sub-agent given only the property text and a scratch worktree of /repo",
            "confirmed_in_scratch_worktree": {k: ev.get(k) for k in ("demo_passes_without_patch", "demo_fails_with_patch", "suite_with_patch")},
            "what_i_ran": ["python3 tools/par_eval.py <slot> <dir>  (own worktree of /repo: demo passes without / fails with the patch; cargo test --workspace --offline passes with it; then every quick check of the committed /verif against the patched worktree)",
                           "where a check missed it: generator / stream extended, then git -C /repo apply patch.diff; ./check %s --tier quick; git -C /repo checkout -- ." % pid],
            "checks_alarming_at_first_evaluation": ev.get("caught_by", []),
            "verif_commit_of_first_evaluation": ev.get("verif_commit"),
            "detected_by": DET.get(pid, ", ".join(ev.get("caught_by", [])))}
    json.dump(meta, open(os.path.join(dst, "meta.json"), "w"), indent=1)
    print("archived", dst)
