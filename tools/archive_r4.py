#!/usr/bin/env python3
"""Archive the round-4 seeded changes (written by sub-agents under /tmp/seed4/out/<Cxx>-r4: patch.diff, demo.rs, notes.md; evaluated by
tools/par_eval.py, which wrote eval.json next to them) into /verif/seeded/<Cxx>-5/."""
import json, os, shutil

SRC = "/tmp/seed4/out"
DESC = {
 "C01": ("`skip_serializing_if = \"Option::is_none\"` on every `Option` field of the generated messages", "a handler argument of type Option<T> holding None", "C01 L2 serialisation (also C03, C10, C15, C17)"),
 "C02": ("a query handler returning `Binary` has its bytes returned un-encoded", "a query declared `-> Result<Binary, _>`", "C02 only after adding query handlers answering with `String` / `Binary` to generators, model and oracle (**strengthened**)"),
 "C03": ("the echoed unknown document is cut with `String::truncate(256)`: panics inside a multi-byte character", "unknown name + document longer than 256 bytes with a non-ASCII character straddling byte 256", "C03 long multi-byte unknown documents"),
 "C04": ("dispatch arms call the handler under the name re-derived from the variant", "handler names with a lossy round trip (`setup_2` next to an instantiate `setup2`)", "C04 / C02 (lossy names with partner handlers)"),
 "C05": ("name lists sorted by the Rust method name instead of the wire name", "`phase_2` next to `phase3` (underscore before a digit)", "C05 L2 lists (also C03, C10)"),
 "C06": ("a later `override_entry_point` whose *function path* equals an earlier one's evicts it", "two kinds overridden by one shared function", "C06 only after letting several overrides name one shared function (**strengthened**)"),
 "C07": ("uncovered success passed through with `set_data(data.unwrap_or_default())`: absent data becomes empty data", "error-only handler, successful reply without data", "C07 L2 reply stream"),
 "C08": ("`emit_cw_reply_on` as a slice pattern: (error, success) in that order requests `ReplyOn::Error` (fourth independent rediscovery)", "error method declared before the success method", "C08 L2 builder stream; `ReplyDataFn.emit_cw_reply_on_eq` no longer checks"),
 "C09": ("own protobuf reader folds the varint length most-significant group first", "typed reply data of 128 bytes or more", "C09 only after adding long reply data (two- and three-byte length prefixes) (**strengthened**)"),
 "C10": ("generated instantiate-builder method binds a local `code_id`", "an instantiate argument named `code_id` of type u64", "C10 only after giving shadow-prone argument names the type of the helper's local half of the time (**strengthened**)"),
 "C11": ("`into_msg` shortcut for id 0 rebuilds the sub-message with `SubMsg::new` (reply trigger and payload lost)", "bridged sub-message with id 0, a trigger and a payload", "C11 L3 stream; `C11B.*` no longer check"),
 "C12": ("`ExecProxy::call` normalises the funds through `Coins` (sorted, zero amounts dropped, duplicates refused)", "funds out of denom order / zero amount", "C12 twin chains"),
 "C13": ("`remove_input_attr` no longer clears attributes on the receiver", "an attribute on `&self` of a handler", "C13 L1 pass-through; `StripFn.remove_input_attr_eq` no longer checks"),
 "C14": ("name lists emitted in declaration order (sort dropped)", "an overlap that the merge scan misses in one declaration order", "C14 L1/L2 twins; C05"),
 "C15": ("`resp=` no longer visited by the generics checker", "`resp=T` naming a type parameter used nowhere else", "C15 L1 facts"),
 "C16": ("contract-level response table merged with `combine_subqueries` (panics on two generic parts)", "two generic query parts", "C16 compiled generic configurations"),
 "C17": ("forwarded `derive(..)` entries that are a textual suffix of an emitted derive are dropped (`Eq` vs `PartialEq`)", "`sv::msg_attr(kind, derive(Eq))`", "C17 L1 facts"),
 "C18": ("merged reply methods compared by the last path segment of the payload types only", "`Vec<u64>` vs `Vec<String>` payloads", "C18 L1 status stream"),
 "C19": ("`CheckGenerics` matches a user generic by the last path segment", "a concrete type `other::Msg` in a contract generic over `Msg`", "C19 only after adding a same-named concrete type behind a path to the per-name programs (**strengthened**); C15"),
 "C20": ("`schema_id()` added to `Remote`'s JsonSchema impl, built from the type parameter", "one schema document mentioning handles of two type parameters", "C20 multi-handle schema; `HandlesFn.json_schema_impl_fns` no longer checks"),
}
for pid, (what, needs, det) in sorted(DESC.items()):
    src = os.path.join(SRC, pid + "-r4")
    if not os.path.isdir(src):
        print("missing", src)
        continue
    dst = "/verif/seeded/%s-5" % pid
    os.makedirs(os.path.join(dst, "demo"), exist_ok=True)
    shutil.copy(os.path.join(src, "patch.diff"), os.path.join(dst, "patch.diff"))
    shutil.copy(os.path.join(src, "demo.rs"), os.path.join(dst, "demo", "demo.rs"))
    if os.path.exists(os.path.join(src, "notes.md")):
        shutil.copy(os.path.join(src, "notes.md"), os.path.join(dst, "AUTHOR_NOTES.md"))
    ev = json.load(open(os.path.join(src, "eval.json"))) if os.path.exists(os.path.join(src, "eval.json")) else {}
    meta = {"id": pid + "-5", "round": 4, "property": pid, "breaks": what, "needs_to_manifest": needs,
            "author": "independent sub-agent given only the property text and a scratch worktree of /repo",
            "confirmed_in_scratch_worktree": {k: ev.get(k) for k in ("demo_passes_without_patch", "demo_fails_with_patch", "suite_with_patch")},
            "what_i_ran": ["python3 tools/par_eval.py <slot> <dir>  (own worktree of /repo: demo passes without / fails with the patch; cargo test --workspace --offline passes with it; then every quick check of the committed /verif against the patched worktree)",
                           "where a check missed it: generator / stream extended, then git -C /repo apply patch.diff; ./check %s --tier quick; git -C /repo checkout -- ." % pid],
            "checks_alarming_at_first_evaluation": [p for p in ev.get("caught_by", []) if not (p == "C05" and pid not in ("C05", "C03", "C14", "C04", "C01", "C10"))],
            "verif_commit_of_first_evaluation": ev.get("verif_commit"),
            "detected_by": det}
    json.dump(meta, open(os.path.join(dst, "meta.json"), "w"), indent=1)
    print("archived", dst)
