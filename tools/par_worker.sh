#!/bin/bash
# par_worker.sh <slot>: evaluate seeded changes listed (one directory per line) in /root/par/queue.txt, forever.
slot=$1
mkdir -p /root/par; touch /root/par/queue.txt
while [ ! -e /root/par/stop ]; do
  seed=$( flock /root/par/queue.lock sh -c 'head -n1 /root/par/queue.txt; sed -i 1d /root/par/queue.txt' )
  if [ -z "$seed" ]; then sleep 20; continue; fi
  echo "== $slot $seed $(date +%T)" >> /root/par/log.txt
  PAR_REUSE_CONFIRM=1 python3 /verif/tools/par_eval.py $slot $seed >> /root/par/log.txt 2>&1
done
