#!/usr/bin/env python3
"""Evaluate a seeded change without touching /repo: a slot holds its own worktree of /repo and its own copy of /verif.

  par_eval.py <slot> <seed_dir> [<prop> ...]      (default: every claimed property)

<seed_dir> holds patch.diff and demo.rs (or demo/<name>.rs).  Steps, all inside /root/par/<slot>/:
  1. demo passes on the unchanged worktree, fails with the patch; the baseline suite passes with the patch;
  2. the quick checks of the copy of /verif run against the patched worktree (VERIF_REPO);
  3. the worktree is reset.  Prints one JSON line (also written to <seed_dir>/eval.json).
"""
import glob
import json
import os
import subprocess
import sys
import time

PAR = "/root/par"


def sh(cmd, cwd=None, env=None, timeout=5400):
    e = dict(os.environ, CARGO_NET_OFFLINE="true", CARGO_TERM_COLOR="never")
    if env:
        e.update(env)
    p = subprocess.run(cmd, cwd=cwd, shell=True, env=e, stdout=subprocess.PIPE, stderr=subprocess.STDOUT, text=True, timeout=timeout)
    return p.returncode, p.stdout


def main():
    slot, seed = sys.argv[1], os.path.abspath(sys.argv[2])
    props = sys.argv[3:]
    base = os.path.join(PAR, slot)
    repo, verif = os.path.join(base, "repo"), os.path.join(base, "verif")
    os.makedirs(base, exist_ok=True)
    if not os.path.isdir(repo):
        rc, out = sh("git -C /repo worktree add --detach %s HEAD" % repo)
        assert rc == 0, out
    sh("git checkout -q --detach $(git -C /repo rev-parse HEAD) && git checkout -- . && git clean -fdq sylvia/tests", cwd=repo)
    first = not os.path.isdir(verif)
    os.makedirs(verif, exist_ok=True)
    # the committed state of /verif (edits in progress must not leak into an evaluation)
    snap = os.path.join(base, "snap")
    sh("rm -rf %s && mkdir -p %s && git -C /verif archive HEAD | tar -x -C %s" % (snap, snap, snap))
    sh("rsync -a --delete --exclude .git --exclude .cache --exclude lean/.lake --exclude 'lean/Sylvia/Extracted/*.lean' --exclude lean/Sylvia.lean --exclude replays --exclude evidence --exclude __pycache__ %s/ %s/" % (snap, verif))
    res_commit = sh("git -C /verif rev-parse --short HEAD")[1].strip()
    if first:
        sh("cp -a /verif/lean/.lake %s/lean/.lake; mkdir -p %s/evidence %s/replays" % (verif, verif, verif))
    os.makedirs(os.path.join(verif, "evidence"), exist_ok=True)
    os.makedirs(os.path.join(verif, "replays"), exist_ok=True)
    patch = os.path.join(seed, "patch.diff")
    demo = os.path.join(seed, "demo.rs")
    if not os.path.exists(demo):
        cands = glob.glob(os.path.join(seed, "demo", "*.rs")) + glob.glob(os.path.join(seed, "*.rs"))
        demo = cands[0] if cands else None
    tenv = {"CARGO_TARGET_DIR": os.path.join(base, "target")}
    res = {"seed": os.path.basename(seed), "verif_commit": res_commit}
    t0 = time.time()
    prev = None
    if os.environ.get("PAR_REUSE_CONFIRM") and os.path.exists(os.path.join(seed, "eval.json")):
        pj = json.load(open(os.path.join(seed, "eval.json")))
        if "suite_with_patch" in pj and "demo_fails_with_patch" in pj:
            prev = pj
    if demo is None:
        # a behaviour-preserving change (no demonstration): only the checks are run; every alarm is a false alarm
        rc, out = sh("git apply %s" % patch, cwd=repo)
        if rc:
            res["error"] = "patch does not apply: " + out[-300:]
            print(json.dumps(res)); return
        res.update({"benign": True, "demo_passes_without_patch": None, "demo_fails_with_patch": None, "suite_with_patch": None})
        return finish(res, props, verif, repo, seed)
    if prev is not None:
        rc, out = sh("git apply %s" % patch, cwd=repo)
        for k in ("demo_passes_without_patch", "demo_fails_with_patch", "suite_with_patch"):
            res[k] = prev[k]
        return finish(res, props, verif, repo, seed)
    sh("cp %s sylvia/tests/seed_demo.rs" % demo, cwd=repo)
    rc0, out0 = sh("cargo test -p sylvia --offline --features mt --test seed_demo 2>&1 | tail -25", cwd=repo, env=tenv)
    res["demo_passes_without_patch"] = "test result: ok" in out0 and "FAILED" not in out0
    rc, out = sh("git apply %s" % patch, cwd=repo)
    if rc:
        res["error"] = "patch does not apply: " + out[-300:]
        print(json.dumps(res)); return
    rc1, out1 = sh("cargo test -p sylvia --offline --features mt --test seed_demo 2>&1 | tail -40", cwd=repo, env=tenv)
    res["demo_fails_with_patch"] = ("test result: FAILED" in out1) or ("could not compile" in out1)
    sh("rm -f sylvia/tests/seed_demo.rs", cwd=repo)
    rc2, out2 = sh("cargo test --workspace --no-fail-fast --offline 2>&1 | grep -E '^test result|FAILED|^error' ", cwd=repo, env=tenv)
    lines = out2.split("\n")
    res["suite_with_patch"] = {"passed": sum(int(l.split()[3]) for l in lines if l.startswith("test result")),
                               "failed": sum(int(l.split()[5]) for l in lines if l.startswith("test result")),
                               "errors": [l for l in lines if l.startswith("error")][:3]}
    res["confirm_s"] = round(time.time() - t0)
    if not res["demo_passes_without_patch"]:
        res["demo_out_without"] = out0[-1200:]
    if not res["demo_fails_with_patch"]:
        res["demo_out_with"] = out1[-1200:]
    return finish(res, props, verif, repo, seed)


def finish(res, props, verif, repo, seed):
    if not props:
        props = [c["property_id"] for c in json.load(open("/verif/MANIFEST.json"))["checks"]]
    verdicts = {}
    for p in props:
        t = time.time()
        rc, out = sh("./check %s --tier quick 2>&1 | grep -E '^VIOLATION|^KNOWN|^\\[C' " % p, cwd=verif, env={"VERIF_REPO": repo})
        ls = [l for l in out.strip().split("\n") if l]
        v = {"caught": any(l.startswith("VIOLATION") for l in ls), "s": round(time.time() - t)}
        for l in ls:
            if l.startswith("VIOLATION"):
                v["line"] = l.replace(verif, "")
                rp = l.split("replay=")[1].split()[0]
                try:
                    j = json.load(open(rp))
                    v["replay"] = ((j.get("class") or "obligation") + ": " + (j.get("what") or json.dumps(j.get("broken"))))[:400]
                except Exception as e:
                    v["replay"] = "unreadable %s" % e
        verdicts[p] = v
    res["checks"] = verdicts
    res["caught_by"] = [p for p, v in verdicts.items() if v["caught"]]
    sh("git checkout -- . && git clean -fdq sylvia/tests", cwd=repo)
    sh("rm -f %s/replays/*.json" % verif)
    json.dump(res, open(os.path.join(seed, "eval.json"), "w"), indent=1)
    brief = {k: res[k] for k in ("seed", "demo_passes_without_patch", "demo_fails_with_patch", "suite_with_patch", "caught_by")}
    print(json.dumps(brief))
    for p in res["caught_by"]:
        print("   ", p, verdicts[p].get("line", "")[-60:], "::", verdicts[p].get("replay", "")[:260])


if __name__ == "__main__":
    main()
