#!/bin/sh
# quick tier of every claimed check under other seeds (generator robustness: no alarm may come from the choice of seed);
# evidence files are restored afterwards (the committed evidence is the seed-1 run)
cd /verif
mkdir -p .cache/seeds
for seed in "$@"; do
  for id in $(python3 -c "import json; print(' '.join(c['property_id'] for c in json.load(open('MANIFEST.json'))['checks']))"); do
    cp evidence/$id.json .cache/seeds/$id.keep.json 2>/dev/null
    VERIF_SEED=$seed ./check $id --tier quick > .cache/seeds/$id.$seed.log 2>&1
    rc=$?
    cp .cache/seeds/$id.keep.json evidence/$id.json 2>/dev/null
    echo "seed=$seed $id rc=$rc $(grep -E '^\[C|^VIOLATION' .cache/seeds/$id.$seed.log | tr '\n' ' ' | cut -c1-260)"
  done
done
