#!/bin/sh
# run every claimed check in the thorough tier; evidence of thorough runs goes to .cache/thorough/ (the committed evidence stays the quick one)
cd /verif
mkdir -p .cache/thorough
for id in $(python3 -c "import json; print(' '.join(c['property_id'] for c in json.load(open('MANIFEST.json'))['checks']))"); do
  s=$(date +%s)
  cp evidence/$id.json .cache/thorough/$id.quick.json 2>/dev/null
  ./check $id --tier thorough > .cache/thorough/$id.log 2>&1
  rc=$?
  cp evidence/$id.json .cache/thorough/$id.json
  cp .cache/thorough/$id.quick.json evidence/$id.json 2>/dev/null
  echo "$id rc=$rc $(( $(date +%s) - s ))s $(grep -E '^\[C|^VIOLATION' .cache/thorough/$id.log | tr '\n' ' ' | cut -c1-300)"
done
