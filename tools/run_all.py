#!/usr/bin/env python3
"""Run every claimed check (quick tier) on the current tree and validate the evidence files."""
import json, subprocess, sys, time
m = json.load(open('/verif/MANIFEST.json'))
bad = 0
for ch in m['checks']:
    t = time.time()
    p = subprocess.run(ch['quick_cmd'], shell=True, cwd='/verif', stdout=subprocess.PIPE, stderr=subprocess.STDOUT, text=True)
    lines = [l for l in p.stdout.split('\n') if l.startswith(('VIOLATION', '[C', 'KNOWN'))]
    ev = json.load(open(ch['evidence_file']))
    cov = ev['coverage']
    ok = p.returncode == 0 and not any(l.startswith('VIOLATION') for l in lines) and cov.get('obligations', 0) >= 1 and cov.get('discharged') == cov.get('obligations')
    print(ch['property_id'], 'OK' if ok else 'PROBLEM', 'rc=%d' % p.returncode, '%.0fs' % (time.time() - t), [l[:90] for l in lines if not l.startswith('KNOWN')][-1:])
    bad += not ok
sys.exit(1 if bad else 0)
