#!/usr/bin/env python3
"""Evaluate seeded changes.
  seed_eval.py confirm <worktree> <patch> <demo test file>     - demo passes without / fails with the patch, baseline suite passes with it
  seed_eval.py run <patch> <prop> [<prop> ...]                  - apply to /repo, run the checks, undo; prints one line per check
"""
import json
import os
import subprocess
import sys

ENV = dict(os.environ, CARGO_NET_OFFLINE="true", CARGO_TERM_COLOR="never")


def sh(cmd, cwd=None, timeout=3600):
    p = subprocess.run(cmd, cwd=cwd, shell=True, env=ENV, stdout=subprocess.PIPE, stderr=subprocess.STDOUT, text=True, timeout=timeout)
    return p.returncode, p.stdout


def confirm(wt, patch, demo, features="mt"):
    name = os.path.basename(demo)[:-3]
    sh("git checkout -- . && git clean -fdq sylvia/tests", cwd=wt)
    sh("cp %s %s/sylvia/tests/" % (demo, wt))
    rc0, out0 = sh("cargo test -p sylvia --offline --features %s --test %s 2>&1 | tail -15" % (features, name), cwd=wt)
    ok_without = "test result: ok" in out0 and "FAILED" not in out0 and not any(l.startswith("error") for l in out0.split("\n"))
    rc, out = sh("git apply %s" % patch, cwd=wt)
    if rc:
        print("PATCH DOES NOT APPLY", out)
        return
    rc1, out1 = sh("cargo test -p sylvia --offline --features %s --test %s 2>&1 | tail -15" % (features, name), cwd=wt)
    fails_with = ("test result: FAILED" in out1) or ("error" in out1 and "could not compile" in out1)
    sh("rm -f sylvia/tests/%s.rs" % name, cwd=wt)
    rc2, out2 = sh("cargo test --workspace --no-fail-fast --offline 2>&1 | grep -E '^test result|FAILED|^error' ", cwd=wt)
    passed = sum(int(l.split()[3]) for l in out2.split("\n") if l.startswith("test result"))
    failed = sum(int(l.split()[5]) for l in out2.split("\n") if l.startswith("test result"))
    print(json.dumps({"demo_passes_without_patch": ok_without, "demo_fails_with_patch": fails_with,
                      "suite_with_patch": {"passed": passed, "failed": failed, "errors": [l for l in out2.split("\n") if l.startswith("error")][:3]}}))
    if not ok_without:
        print(out0[-1500:])
    if not fails_with:
        print(out1[-1500:])


def run(patch, props):
    rc, out = sh("git -C /repo status --porcelain --untracked-files=no")
    if out.strip():
        print("REPO DIRTY, refusing", out)
        return
    rc, out = sh("git -C /repo apply %s" % patch)
    if rc:
        print("PATCH DOES NOT APPLY TO /repo", out)
        return
    sh("rm -rf /verif/.cache/evidence_keep && cp -r /verif/evidence /verif/.cache/evidence_keep")
    try:
        for p in props:
            rc, out = sh("./check %s --tier quick 2>&1 | grep -E '^VIOLATION|^KNOWN|^\\[C' " % p, cwd="/verif")
            lines = [l for l in out.strip().split("\n") if l]
            verdict = "CAUGHT" if any(l.startswith("VIOLATION") for l in lines) else "missed"
            print("%s %s :: %s" % (p, verdict, " | ".join(l[:160] for l in lines if not l.startswith("KNOWN"))))
            for l in lines:
                if l.startswith("VIOLATION"):
                    rp = l.split("replay=")[1].split()[0]
                    try:
                        j = json.load(open(rp))
                        print("    replay:", (j.get("class") or "obligation"), (j.get("what") or json.dumps(j.get("broken"))[:300])[:300])
                    except Exception as e:
                        print("    (replay unreadable: %s)" % e)
    finally:
        sh("git -C /repo checkout -- .")
        sh("rm -f /verif/replays/*.json")
        # evidence is only ever kept from runs on the unchanged tree
        sh("cp /verif/.cache/evidence_keep/*.json /verif/evidence/")


if __name__ == "__main__":
    if sys.argv[1] == "confirm":
        confirm(*sys.argv[2:6])
    else:
        run(sys.argv[2], sys.argv[3:])
