//! Shared by every generated corpus crate: imports, echo handlers, context builders, canonical printers.
#![allow(dead_code, unused_imports)]
pub use sylvia::ctx::{ExecCtx, InstantiateCtx, MigrateCtx, QueryCtx, ReplyCtx, SudoCtx};
pub use sylvia::cw_std::testing::{message_info, mock_dependencies, mock_env, MockApi, MockQuerier, MockStorage};
pub use sylvia::cw_std::{
    from_json, to_json_binary, to_json_string, Addr, Attribute, Binary, Coin, CosmosMsg, Deps, DepsMut, Empty, Env, Event, MessageInfo,
    OwnedDeps, Reply, Response, StdError, StdResult, Storage, SubMsg, SubMsgResponse, SubMsgResult, Uint128, WasmMsg,
};
pub use sylvia::{contract, entry_points, interface};
use std::fmt::Write as _;

#[derive(Debug, PartialEq)]
pub enum ContractError {
    Std(StdError),
    Custom(String),
}
impl std::error::Error for ContractError {}
impl From<StdError> for ContractError {
    fn from(e: StdError) -> Self {
        ContractError::Std(e)
    }
}
impl std::fmt::Display for ContractError {
    fn fmt(&self, f: &mut std::fmt::Formatter<'_>) -> std::fmt::Result {
        match self {
            ContractError::Std(e) => write!(f, "CE::Std({})", e),
            ContractError::Custom(s) => write!(f, "CE::Custom({})", s),
        }
    }
}

/// handler-side failure in the error type the handler declares
pub trait FromFail {
    fn from_fail(s: String) -> Self;
}
impl FromFail for StdError {
    fn from_fail(s: String) -> Self {
        StdError::generic_err(s)
    }
}
impl FromFail for ContractError {
    fn from_fail(s: String) -> Self {
        ContractError::Custom(s)
    }
}

#[derive(sylvia::serde::Serialize, sylvia::serde::Deserialize, Clone, Debug, PartialEq, sylvia::schemars::JsonSchema)]
#[serde(crate = "sylvia::serde")]
#[schemars(crate = "sylvia::schemars")]
pub struct EchoResp {
    pub attrs: Vec<(String, String)>,
}

pub fn j<T: sylvia::serde::Serialize>(v: &T) -> String {
    to_json_string(v).unwrap_or_else(|e| format!("<unserialisable:{}>", e))
}

/// what every echo handler reports: who ran, with which argument values, in which context
pub fn echo<E: FromFail>(
    name: &str,
    storage: &dyn Storage,
    env: &Env,
    info: Option<&MessageInfo>,
    args: &[(&str, String)],
) -> Result<Vec<(String, String)>, E> {
    if storage.get(b"fail").as_deref() == Some(name.as_bytes()) {
        return Err(E::from_fail(format!("fail:{}", name)));
    }
    let mut a = String::from("{");
    for (i, (k, v)) in args.iter().enumerate() {
        if i > 0 {
            a.push(',');
        }
        let _ = write!(a, "{}:{}", j(k), v);
    }
    a.push('}');
    let mut out = vec![("ran".to_string(), name.to_string()), ("args".to_string(), a)];
    match info {
        Some(i) => {
            out.push(("sender".into(), i.sender.to_string()));
            out.push(("funds".into(), i.funds.iter().map(|c| format!("{}{}", c.amount, c.denom)).collect::<Vec<_>>().join("+")));
        }
        None => {}
    }
    out.push(("height".into(), env.block.height.to_string()));
    out.push(("addr".into(), env.contract.address.to_string()));
    out.push(("seed".into(), String::from_utf8_lossy(&storage.get(b"seed").unwrap_or_default()).to_string()));
    Ok(out)
}

pub fn resp_of<C>(attrs: Vec<(String, String)>) -> Response<C> {
    Response::new().add_attributes(attrs)
}

pub struct Ctx {
    pub fail: String,
    pub sender: String,
    pub amount: u128,
    pub height: u64,
    pub seed: String,
}

impl Ctx {
    /// `<fail|-> <sender> <amount> <height> <seed>`
    pub fn parse(it: &mut std::str::SplitN<'_, char>) -> Ctx {
        let fail = it.next().unwrap_or("-").to_string();
        let sender = it.next().unwrap_or("s").to_string();
        let amount = it.next().unwrap_or("0").parse().unwrap_or(0);
        let height = it.next().unwrap_or("1").parse().unwrap_or(1);
        let seed = it.next().unwrap_or("").to_string();
        Ctx { fail, sender, amount, height, seed }
    }
    pub fn deps(&self) -> OwnedDeps<MockStorage, MockApi, MockQuerier> {
        let mut d = mock_dependencies();
        d.storage.set(b"seed", self.seed.as_bytes());
        if self.fail != "-" {
            d.storage.set(b"fail", self.fail.as_bytes());
        }
        d
    }
    pub fn env(&self) -> Env {
        let mut e = mock_env();
        e.block.height = self.height;
        e
    }
    pub fn info(&self) -> MessageInfo {
        let funds = if self.amount == 0 { vec![] } else { vec![Coin::new(self.amount, "utok")] };
        message_info(&Addr::unchecked(self.sender.clone()), &funds)
    }
}

pub fn show_attrs(attrs: &[Attribute]) -> String {
    attrs.iter().map(|a| format!("{}={}", a.key, a.value)).collect::<Vec<_>>().join("|")
}

pub fn show_resp<C: std::fmt::Debug, E: std::fmt::Display>(r: Result<Response<C>, E>, storage: &dyn Storage) -> String {
    match r {
        Ok(resp) => format!(
            "ok {} msgs={} events={} data={} stored={}",
            show_attrs(&resp.attributes),
            resp.messages.len(),
            resp.events.len(),
            resp.data.as_ref().map(|d| d.to_base64()).unwrap_or_else(|| "-".into()),
            String::from_utf8_lossy(&storage.get(b"ran").unwrap_or_default())
        ),
        Err(e) => format!("err {}", e),
    }
}

pub fn show_query<E: std::fmt::Display>(r: Result<Binary, E>) -> String {
    match r {
        Ok(b) => format!("ok {}", String::from_utf8_lossy(b.as_slice())),
        Err(e) => format!("err {}", e),
    }
}

/// canonical form of a wrapper decoding error: the stable, documented part of the text
pub fn show_wrapper_err(e: &StdError) -> String {
    let s = e.to_string();
    if let Some(i) = s.find("Unsupported message received") {
        return format!("unknown {}", &s[i..]);
    }
    if s.contains("Wrong message format!") {
        return "format".into();
    }
    if let Some(i) = s.find("Expected exactly one message. Received ") {
        let t = &s[i + "Expected exactly one message. Received ".len()..];
        let n: String = t.chars().take_while(|c| c.is_ascii_digit()).collect();
        return format!("count {}", n);
    }
    "err".into()
}
