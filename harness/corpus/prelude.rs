//! Shared by every generated corpus crate: imports, echo handlers, context builders, canonical printers.
#![allow(dead_code, unused_imports)]
pub use sylvia::ctx::{ExecCtx, InstantiateCtx, MigrateCtx, QueryCtx, ReplyCtx, SudoCtx};
pub use sylvia::cw_std::testing::{message_info, mock_dependencies, mock_env, MockApi, MockQuerier, MockStorage};
pub use sylvia::cw_std::{
    from_json, to_json_binary, to_json_string, Addr, Attribute, Binary, Coin, CosmosMsg, Deps, DepsMut, Empty, Env, Event, MessageInfo,
    OwnedDeps, Reply, Response, StdError, StdResult, Storage, SubMsg, SubMsgResponse, SubMsgResult, Uint128, WasmMsg,
};
pub use sylvia::cw_std::BankMsg;
pub use sylvia::cw_utils::MsgInstantiateContractResponse;
pub use sylvia::{contract, entry_points, interface};
use std::fmt::Write as _;

#[derive(Debug, PartialEq)]
pub enum ContractError {
    Std(StdError),
    Custom(String),
}
impl std::error::Error for ContractError {}
impl From<StdError> for ContractError {
    fn from(e: StdError) -> Self {
        ContractError::Std(e)
    }
}
impl std::fmt::Display for ContractError {
    fn fmt(&self, f: &mut std::fmt::Formatter<'_>) -> std::fmt::Result {
        match self {
            ContractError::Std(e) => write!(f, "CE::Std({})", e),
            ContractError::Custom(s) => write!(f, "CE::Custom({})", s),
        }
    }
}

/// handler-side failure in the error type the handler declares
pub trait FromFail {
    fn from_fail(s: String) -> Self;
}
impl FromFail for StdError {
    fn from_fail(s: String) -> Self {
        StdError::generic_err(s)
    }
}
impl FromFail for ContractError {
    fn from_fail(s: String) -> Self {
        ContractError::Custom(s)
    }
}

#[derive(sylvia::serde::Serialize, sylvia::serde::Deserialize, Clone, Debug, PartialEq, sylvia::schemars::JsonSchema)]
#[serde(crate = "sylvia::serde")]
#[schemars(crate = "sylvia::schemars")]
pub struct EchoResp {
    pub attrs: Vec<(String, String)>,
}

macro_rules! resp_type {
    ($name:ident) => {
        #[derive(sylvia::serde::Serialize, sylvia::serde::Deserialize, Clone, Debug, PartialEq, sylvia::schemars::JsonSchema)]
        #[serde(crate = "sylvia::serde")]
        #[schemars(crate = "sylvia::schemars")]
        pub struct $name {
            pub attrs: Vec<(String, String)>,
        }
        impl From<Vec<(String, String)>> for $name {
            fn from(attrs: Vec<(String, String)>) -> Self {
                Self { attrs }
            }
        }
    };
}
resp_type!(RespB);
resp_type!(RespC);
impl From<Vec<(String, String)>> for EchoResp {
    fn from(attrs: Vec<(String, String)>) -> Self {
        Self { attrs }
    }
}
pub type QResultB<E> = Result<RespB, E>;

/// `key=<title of the schema>/<is it the schema of the type of that name>` for every entry of a query-response table
pub fn show_schemas(r: Result<std::collections::BTreeMap<String, sylvia::schemars::schema::RootSchema>, sylvia::cw_schema::IntegrityError>) -> String {
    let m = match r {
        Ok(m) => m,
        Err(e) => return format!("err {}", e),
    };
    m.iter()
        .map(|(k, s)| {
            let title = s.schema.metadata.as_ref().and_then(|m| m.title.clone()).unwrap_or_default();
            let same = match title.as_str() {
                "EchoResp" => &sylvia::cw_schema::schema_for!(EchoResp) == s,
                "RespB" => &sylvia::cw_schema::schema_for!(RespB) == s,
                "RespC" => &sylvia::cw_schema::schema_for!(RespC) == s,
                "String" => &sylvia::cw_schema::schema_for!(String) == s,
                "Binary" => &sylvia::cw_schema::schema_for!(Binary) == s,
                _ => false,
            };
            format!("{}={}/{}", k, title, same)
        })
        .collect::<Vec<_>>()
        .join(",")
}

/// names referenced by the any_of of a contract-level message schema, in order
pub fn show_any_of(root: sylvia::schemars::schema::RootSchema) -> String {
    let subs = root.schema.subschemas.as_ref().and_then(|s| s.any_of.clone()).unwrap_or_default();
    subs.iter()
        .map(|s| match s {
            sylvia::schemars::schema::Schema::Object(o) => o.reference.clone().unwrap_or_else(|| "<inline>".into()).replace("#/definitions/", ""),
            _ => "<bool>".into(),
        })
        .collect::<Vec<_>>()
        .join(",")
}

pub fn j<T: sylvia::serde::Serialize>(v: &T) -> String {
    to_json_string(v).unwrap_or_else(|e| format!("<unserialisable:{}>", e))
}

/// what every echo handler reports: who ran, with which argument values, in which context
pub fn echo<E: FromFail>(
    name: &str,
    storage: &dyn Storage,
    env: &Env,
    info: Option<&MessageInfo>,
    args: &[(&str, String)],
) -> Result<Vec<(String, String)>, E> {
    if storage.get(b"fail").as_deref() == Some(name.as_bytes()) {
        return Err(E::from_fail(format!("fail:{}", name)));
    }
    if let Some(i) = info {
        // multitest histories: the account `failer` makes the handler it calls fail
        if FAILER.with(|f| f.as_str() == i.sender.as_str()) {
            return Err(E::from_fail(format!("fail:{}", name)));
        }
    }
    let mut a = String::from("{");
    for (i, (k, v)) in args.iter().enumerate() {
        if i > 0 {
            a.push(',');
        }
        let _ = write!(a, "{}:{}", j(k), v);
    }
    a.push('}');
    let mut out = vec![("ran".to_string(), name.to_string()), ("args".to_string(), a)];
    match info {
        Some(i) => {
            out.push(("sender".into(), i.sender.to_string()));
            out.push(("funds".into(), i.funds.iter().map(|c| format!("{}{}", c.amount, c.denom)).collect::<Vec<_>>().join("+")));
        }
        None => {}
    }
    // the rest of the environment as the caller supplied it (mock_env / the test chain: a transaction is named, chain id and time are
    // the fixed test values); anything else is shown next to the height
    let untouched = env.transaction.as_ref().is_some_and(|t| t.index == 3 || t.index == 0) && env.block.chain_id == "cosmos-testnet-14002";
    out.push(("height".into(), if untouched { env.block.height.to_string() } else {
        format!("{}!env-altered(tx={:?},chain={})", env.block.height, env.transaction.as_ref().map(|t| t.index), env.block.chain_id) }));
    out.push(("addr".into(), env.contract.address.to_string()));
    out.push(("seed".into(), String::from_utf8_lossy(&storage.get(b"seed").unwrap_or_default()).to_string()));
    Ok(out)
}

thread_local! { pub static FAILER: String = MockApi::default().addr_make("failer").to_string(); }

pub fn show_pairs(attrs: &[(String, String)]) -> String {
    attrs.iter().map(|(k, v)| format!("{}={}", k, v)).collect::<Vec<_>>().join("|")
}

pub fn hex(b: &[u8]) -> String {
    b.iter().map(|x| format!("{:02x}", x)).collect()
}

pub fn unhex(s: &str) -> Vec<u8> {
    let s = s.strip_prefix('x').unwrap_or(s);
    (0..s.len() / 2).map(|i| u8::from_str_radix(&s[2 * i..2 * i + 2], 16).unwrap_or(0)).collect()
}

pub fn show_result(r: &SubMsgResult) -> String {
    #[allow(deprecated)]
    match r {
        SubMsgResult::Ok(x) => format!("result:ok:{}:{}:{}", x.events.len(), x.data.as_ref().map(|d| hex(d.as_slice())).unwrap_or_else(|| "none".into()), x.msg_responses.len()),
        SubMsgResult::Err(e) => format!("result:err:{}", e),
    }
}

pub fn show_inst(r: &sylvia::cw_utils::MsgInstantiateContractResponse) -> String {
    format!("{}:{}", r.contract_address, r.data.as_ref().map(|d| hex(d.as_slice())).unwrap_or_else(|| "none".into()))
}

/// echo of a reply handler: who ran, the first (data / error / result) argument, the payload arguments, the reply context
pub fn echo_reply<E: FromFail, Q: sylvia::cw_std::CustomQuery>(
    name: &str,
    ctx: &ReplyCtx<Q>,
    first: String,
    args: &[(&str, String)],
) -> Result<Vec<(String, String)>, E> {
    let mut out = echo::<E>(name, ctx.deps.storage, &ctx.env, None, args)?;
    out.insert(1, ("first".to_string(), first));
    out.push(("gas".into(), ctx.gas_used.to_string()));
    out.push(("events".into(), ctx.events.len().to_string()));
    out.push(("msgr".into(), ctx.msg_responses.len().to_string()));
    Ok(out)
}

/// canonical class of an error coming out of dispatch_reply
pub fn reply_err_class(s: &str) -> String {
    if s.contains("Failed deserializing protobuf data") {
        "err envelope".into()
    } else if s.contains("Invalid reply data at block height") {
        "err json".into()
    } else if s.contains("Missing reply data field.") {
        "err missing".into()
    } else if let Some(i) = s.find("Unknown reply id: ") {
        format!("err unknown-id {}", s[i + 18..].trim_end_matches(|c| c == '.' || c == ')'))
    } else if s.contains("fail:") {
        format!("err {}", s)
    } else if s.contains("Error parsing into type") {
        "err payload".into()
    } else if let Some(i) = s.find("Generic error: ") {
        format!("err pass:{}", s[i + 15..].trim_end_matches(')'))
    } else {
        format!("err other:{}", s)
    }
}

pub fn show_reply_resp<C: std::fmt::Debug, E: std::fmt::Display>(r: Result<Response<C>, E>, storage: &dyn Storage) -> String {
    match r {
        Ok(resp) => format!(
            "ok {} events={} data={} stored={}",
            show_attrs(&resp.attributes),
            // the number of events, all of them being the sub-message's own events as they came (type, attributes, reserved keys
            // included): forwarded events must be forwarded unchanged
            if resp.events.iter().enumerate().all(|(i, e)| *e == reply_event(i)) { resp.events.len().to_string() } else { format!("altered:{:?}", resp.events) },
            resp.data.as_ref().map(|d| hex(d.as_slice())).unwrap_or_else(|| "-".into()),
            String::from_utf8_lossy(&storage.get(b"ran").unwrap_or_default())
        ),
        Err(e) => reply_err_class(&e.to_string()),
    }
}

/// the i-th event of a synthetic sub-message response: like the chain's `execute` / `wasm` events it carries an attribute under a
/// reserved (underscore) key
pub fn reply_event(i: usize) -> Event {
    let mut e = Event::new(format!("ev{}", i)).add_attribute("k", "v");
    e.attributes.push(Attribute { key: "_contract_address".into(), value: format!("c{}", i) });
    e
}

pub fn mk_reply(id: u64, gas: u64, ok: bool, nevents: usize, data: Option<Vec<u8>>, nmsgr: usize, err: &str, payload: Vec<u8>) -> Reply {
    #[allow(deprecated)]
    let result = if ok {
        SubMsgResult::Ok(SubMsgResponse {
            events: (0..nevents).map(reply_event).collect(),
            data: data.map(Binary::from),
            msg_responses: (0..nmsgr).map(|i| sylvia::cw_std::MsgResponse { type_url: format!("/t{}", i), value: Binary::from(vec![i as u8]) }).collect(),
        })
    } else {
        SubMsgResult::Err(err.to_string())
    };
    Reply { id, payload: Binary::from(payload), gas_used: gas, result }
}

pub fn show_submsg<C: std::fmt::Debug + PartialEq>(r: StdResult<SubMsg<C>>, base: &CosmosMsg<C>) -> String {
    match r {
        Ok(m) => format!(
            "id={} reply_on={:?} gas={} payload={} msg_same={}",
            m.id,
            m.reply_on,
            m.gas_limit.map(|g| g.to_string()).unwrap_or_else(|| "none".into()),
            hex(m.payload.as_slice()),
            &m.msg == base
        ),
        Err(e) => format!("err {}", e),
    }
}

pub fn base_cosmos() -> CosmosMsg<Empty> {
    CosmosMsg::Bank(BankMsg::Burn { amount: vec![Coin::new(5u128, "utok")] })
}

pub fn base_wasm() -> WasmMsg {
    WasmMsg::Execute { contract_addr: "target".into(), msg: Binary::from(vec![1, 2, 3]), funds: vec![] }
}

pub fn base_sub() -> SubMsg<Empty> {
    SubMsg { id: 999, payload: Binary::from(vec![1, 2]), msg: base_cosmos(), gas_limit: Some(77), reply_on: sylvia::cw_std::ReplyOn::Never }
}

pub use sylvia::builder::instantiate::InstantiateBuilder;
pub use sylvia::types::{BoundQuerier, EmptyExecutorBuilderState, ExecutorBuilder, Remote};

pub fn show_funds(f: &[Coin]) -> String {
    f.iter().map(|c| format!("{}{}", c.amount, c.denom)).collect::<Vec<_>>().join("+")
}

/// setters spec: `l:<hex>;a:<hex>;f:<amount>` in application order
pub fn apply_setters(mut b: InstantiateBuilder, spec: &str) -> (InstantiateBuilder, Option<Vec<u8>>) {
    let mut salt = None;
    for part in spec.split(';').filter(|p| !p.is_empty()) {
        let (k, v) = part.split_once(':').unwrap_or((part, ""));
        match k {
            "l" => b = b.with_label(String::from_utf8_lossy(&unhex(v)).to_string()),
            "a" => b = b.with_admin(String::from_utf8_lossy(&unhex(v)).to_string()),
            "f" => b = b.with_funds(coins_multi(v)),
            "s" => salt = Some(unhex(v)),
            _ => {}
        }
    }
    (b, salt)
}

pub fn show_wasm(m: &WasmMsg) -> String {
    match m {
        WasmMsg::Execute { contract_addr, msg, funds } => format!("execute addr={} funds={} body={}", contract_addr, show_funds(funds), String::from_utf8_lossy(msg.as_slice())),
        WasmMsg::Instantiate { admin, code_id, msg, funds, label } => format!(
            "instantiate code={} admin={} label={} funds={} body={}", code_id, admin.clone().unwrap_or_else(|| "-".into()), hex(label.as_bytes()), show_funds(funds), String::from_utf8_lossy(msg.as_slice())),
        WasmMsg::Instantiate2 { admin, code_id, label, msg, funds, salt } => format!(
            "instantiate2 code={} admin={} label={} funds={} salt={} body={}", code_id, admin.clone().unwrap_or_else(|| "-".into()), hex(label.as_bytes()), show_funds(funds), hex(salt.as_slice()),
            String::from_utf8_lossy(msg.as_slice())),
        WasmMsg::UpdateAdmin { contract_addr, admin } => format!("update_admin addr={} admin={}", contract_addr, admin),
        WasmMsg::ClearAdmin { contract_addr } => format!("clear_admin addr={}", contract_addr),
        other => format!("other {:?}", other),
    }
}

thread_local! { pub static SEEN_QUERY: std::cell::RefCell<String> = std::cell::RefCell::new(String::new()); }

pub fn resp_of<C>(attrs: Vec<(String, String)>) -> Response<C> {
    Response::new().add_attributes(attrs)
}

pub struct Ctx {
    pub fail: String,
    pub sender: String,
    pub amount: u128,
    pub height: u64,
    pub seed: String,
}

impl Ctx {
    /// `<fail|-> <sender> <amount> <height> <seed>`
    pub fn parse(it: &mut std::str::SplitN<'_, char>) -> Ctx {
        let fail = it.next().unwrap_or("-").to_string();
        let sender = it.next().unwrap_or("s").to_string();
        let amount = it.next().unwrap_or("0").parse().unwrap_or(0);
        let height = it.next().unwrap_or("1").parse().unwrap_or(1);
        let seed = it.next().unwrap_or("").to_string();
        Ctx { fail, sender, amount, height, seed }
    }
    pub fn deps(&self) -> OwnedDeps<MockStorage, MockApi, MockQuerier> {
        let mut d = mock_dependencies();
        d.storage.set(b"seed", self.seed.as_bytes());
        if self.fail != "-" {
            d.storage.set(b"fail", self.fail.as_bytes());
        }
        d
    }
    pub fn env(&self) -> Env {
        let mut e = mock_env();
        e.block.height = self.height;
        e
    }
    pub fn info(&self) -> MessageInfo {
        let funds = if self.amount == 0 { vec![] } else { vec![Coin::new(self.amount, "utok")] };
        message_info(&Addr::unchecked(self.sender.clone()), &funds)
    }
}

pub fn show_attrs(attrs: &[Attribute]) -> String {
    attrs.iter().map(|a| format!("{}={}", a.key, a.value)).collect::<Vec<_>>().join("|")
}

pub fn show_resp<C: std::fmt::Debug, E: std::fmt::Display>(r: Result<Response<C>, E>, storage: &dyn Storage) -> String {
    match r {
        Ok(resp) => format!(
            "ok {} msgs={} events={} data={} stored={}",
            show_attrs(&resp.attributes),
            resp.messages.len(),
            resp.events.len(),
            resp.data.as_ref().map(|d| hex(d.as_slice())).unwrap_or_else(|| "-".into()),
            String::from_utf8_lossy(&storage.get(b"ran").unwrap_or_default())
        ),
        Err(e) => format!("err {}", e),
    }
}

pub fn show_query<E: std::fmt::Display>(r: Result<Binary, E>) -> String {
    match r {
        Ok(b) => format!("ok {}", String::from_utf8_lossy(b.as_slice())),
        Err(e) => format!("err {}", e),
    }
}

/// canonical form of a wrapper decoding error: the stable, documented part of the text
pub fn show_wrapper_err(e: &StdError) -> String {
    let s = e.to_string();
    if let Some(i) = s.find("Unsupported message received") {
        return format!("unknown {}", &s[i..]);
    }
    if s.contains("Wrong message format!") {
        return "format".into();
    }
    if let Some(i) = s.find("Expected exactly one message. Received ") {
        let t = &s[i + "Expected exactly one message. Received ".len()..];
        let n: String = t.chars().take_while(|c| c.is_ascii_digit()).collect();
        return format!("count {}", n);
    }
    "err".into()
}

// ---------------------------------------------------------------------------------------------
// multitest histories (C12): a chain, its accounts, and canonical observations
// ---------------------------------------------------------------------------------------------
pub use sylvia::cw_multi_test::{AppResponse, Executor as MtExecutor};
pub use sylvia::multitest::Proxy;
pub type MtApp = sylvia::cw_multi_test::App;
pub const ACCOUNTS: [&str; 4] = ["alice", "bob", "carol", "failer"];

pub fn acct(name: &str) -> Addr {
    MockApi::default().addr_make(name)
}

/// a chain seeded with 1000utok for every account
pub fn mt_app() -> sylvia::multitest::App<MtApp> {
    let app = sylvia::cw_multi_test::App::new(|router, _api, storage| {
        for a in ACCOUNTS {
            router.bank.init_balance(storage, &acct(a), vec![Coin::new(1000u128, "utok")]).unwrap();
        }
    });
    sylvia::multitest::App::new(app)
}

/// `5` = 5utok, `0` = nothing, `5utok+0refund` = the coins as written (zero amounts included)
pub fn coins_multi(spec: &str) -> Vec<Coin> {
    if spec.chars().all(|c| c.is_ascii_digit()) {
        return coins_of(spec);
    }
    spec.split('+')
        .map(|c| {
            let i = c.find(|ch: char| !ch.is_ascii_digit()).unwrap_or(c.len());
            Coin::new(c[..i].parse::<u128>().unwrap_or(0), &c[i..])
        })
        .collect()
}

pub fn coins_of(amount: &str) -> Vec<Coin> {
    if amount == "z" {
        return vec![Coin::new(0u128, "utok")];
    }
    match amount.parse::<u128>() {
        Ok(0) | Err(_) => vec![],
        Ok(n) => vec![Coin::new(n, "utok")],
    }
}

/// addresses replaced by account names / contract slots; a query answered with `Binary` carries the echo base64-encoded, so
/// the replacement is made inside the decoded text, which is then encoded again
pub fn canon_addrs(s: &str, contracts: &[Option<Addr>]) -> String {
    if let Some(rest) = s.strip_prefix("ok \"") {
        if let Some(end) = rest.find('"') {
            if let Ok(bin) = Binary::from_base64(&rest[..end]) {
                if let Ok(txt) = String::from_utf8(bin.to_vec()) {
                    if txt.starts_with("ran=") {
                        let inner = canon_plain(&txt, contracts);
                        return format!("ok \"{}\"{}", Binary::from(inner.into_bytes()).to_base64(), canon_plain(&rest[end + 1..], contracts));
                    }
                }
            }
        }
    }
    canon_plain(s, contracts)
}

fn canon_plain(s: &str, contracts: &[Option<Addr>]) -> String {
    let mut out = s.to_string();
    for (i, c) in contracts.iter().enumerate() {
        if let Some(a) = c {
            out = out.replace(a.as_str(), &format!("#{}", i));
        }
    }
    for a in ACCOUNTS {
        out = out.replace(acct(a).as_str(), a);
    }
    out
}

pub fn show_events(r: &AppResponse) -> String {
    r.events
        .iter()
        .map(|e| format!("{}[{}]", e.ty, e.attributes.iter().map(|a| format!("{}={}", a.key, a.value)).collect::<Vec<_>>().join("|")))
        .collect::<Vec<_>>()
        .join("+")
}

pub fn show_app_resp(r: &AppResponse) -> String {
    format!("ok events={} data={}", show_events(r), r.data.as_ref().map(|d| hex(d.as_slice())).unwrap_or_else(|| "-".into()))
}

/// chain state: every contract's info and storage, every balance
pub fn show_chain(app: &sylvia::multitest::App<MtApp>, contracts: &[Option<Addr>]) -> String {
    let a = app.app();
    let mut out = vec![];
    for (i, c) in contracts.iter().enumerate() {
        match c {
            None => out.push(format!("#{}:none", i)),
            Some(addr) => {
                let info = a.contract_data(addr);
                let head = match info {
                    Ok(d) => format!("code={} creator={} admin={} label={}", d.code_id, d.creator, d.admin.map(|x| x.to_string()).unwrap_or_else(|| "-".into()), hex(d.label.as_bytes())),
                    Err(_) => "noinfo".into(),
                };
                let mut recs = a.dump_wasm_raw(addr);
                recs.sort();
                let store = recs.iter().map(|(k, v)| format!("{}={}", String::from_utf8_lossy(k), String::from_utf8_lossy(v))).collect::<Vec<_>>().join(",");
                let bal = a.wrap().query_balance(addr, "utok").map(|c| c.amount.to_string()).unwrap_or_else(|_| "?".into());
                out.push(format!("#{}:{} bal={} store=[{}]", i, head, bal, store));
            }
        }
    }
    for n in ACCOUNTS {
        let bal = a.wrap().query_balance(acct(n), "utok").map(|c| c.amount.to_string()).unwrap_or_else(|_| "?".into());
        out.push(format!("{}={}", n, bal));
    }
    out.join(" ")
}

pub fn set_fail(app: &sylvia::multitest::App<MtApp>, addr: &Addr, marker: &str) {
    let mut a = app.app_mut();
    let mut st = a.contract_storage_mut(addr);
    if marker == "-" {
        st.remove(b"fail");
    } else {
        st.set(b"fail", marker.as_bytes());
    }
}

/// the raw operations of the chain, fed with JSON bytes
pub fn raw_wasm(app: &sylvia::multitest::App<MtApp>, sender: &Addr, msg: WasmMsg) -> Result<AppResponse, sylvia::anyhow::Error> {
    app.app_mut().execute(sender.clone(), msg.into())
}

pub fn raw_query(app: &sylvia::multitest::App<MtApp>, addr: &Addr, body: Vec<u8>) -> String {
    let req: sylvia::cw_std::QueryRequest<Empty> = sylvia::cw_std::QueryRequest::Wasm(sylvia::cw_std::WasmQuery::Smart { contract_addr: addr.to_string(), msg: Binary::from(body) });
    let bin = sylvia::cw_std::to_json_vec(&req).unwrap();
    use sylvia::cw_std::Querier;
    match app.raw_query(&bin) {
        sylvia::cw_std::SystemResult::Ok(sylvia::cw_std::ContractResult::Ok(b)) => format!("ok {}", String::from_utf8_lossy(b.as_slice())),
        sylvia::cw_std::SystemResult::Ok(sylvia::cw_std::ContractResult::Err(e)) => format!("err {}", e),
        sylvia::cw_std::SystemResult::Err(e) => format!("err system {}", e),
    }
}

pub fn raw_sudo(app: &sylvia::multitest::App<MtApp>, addr: &Addr, body: Vec<u8>) -> Result<AppResponse, sylvia::anyhow::Error> {
    app.app_mut().sudo(sylvia::cw_multi_test::SudoMsg::Wasm(sylvia::cw_multi_test::WasmSudo { contract_addr: addr.clone(), message: Binary::from(body) }))
}

/// `execute_contract` strips the protobuf envelope from the data; the raw path does the same
pub fn strip_exec_data(mut r: AppResponse) -> AppResponse {
    r.data = r.data.and_then(|d| sylvia::cw_utils::parse_execute_response_data(d.as_slice()).ok().and_then(|x| x.data));
    r
}

/// root cause of a chain error, canonical: the handler's own error text if there is one
pub fn show_any_err(e: &sylvia::anyhow::Error) -> String {
    format!("err {}", e.root_cause())
}
