//! Remote handles (C20): only this module names `sylvia::types::Remote`, so that a tree on which these programs no longer
//! compile breaks C20's harness and nobody else's.
#![allow(dead_code, deprecated)]
use sylvia::cw_std::{from_json, to_json_string, Addr};
use sylvia::types::Remote;

fn unhex(s: &str) -> Vec<u8> {
    let s = s.strip_prefix('x').unwrap_or(s);
    (0..s.len() / 2).map(|i| u8::from_str_radix(&s[2 * i..2 * i + 2], 16).unwrap()).collect()
}


// ------------------------------------------------------------------------------------------------
// fixtures: the kinds of type parameter a Remote can carry
// ------------------------------------------------------------------------------------------------
pub mod fx {
    use sylvia::ctx::{ExecCtx, InstantiateCtx, QueryCtx};
    use sylvia::cw_std::{Response, StdError, StdResult};
    use sylvia::{contract, interface};

    pub struct Concrete;
    #[contract]
    impl Concrete {
        pub const fn new() -> Self {
            Self
        }
        #[sv::msg(instantiate)]
        fn instantiate(&self, _ctx: InstantiateCtx) -> StdResult<Response> {
            Ok(Response::new())
        }
        #[sv::msg(exec)]
        fn poke(&self, _ctx: ExecCtx, n: u32) -> StdResult<Response> {
            Ok(Response::new().add_attribute("n", n.to_string()))
        }
    }

    pub mod iface {
        use super::*;
        #[interface]
        #[sv::custom(msg=sylvia::cw_std::Empty, query=sylvia::cw_std::Empty)]
        pub trait Counter {
            type Error: From<StdError>;
            type CountT: sylvia::serde::Serialize + sylvia::serde::de::DeserializeOwned + std::fmt::Debug;
            #[sv::msg(exec)]
            fn bump(&self, ctx: ExecCtx, by: Self::CountT) -> Result<Response, Self::Error>;
            #[sv::msg(query)]
            fn count(&self, ctx: QueryCtx) -> Result<u64, Self::Error>;
        }
    }

    pub use generic::Generic;
    pub mod generic {
    use super::*;
    pub struct Generic<T>(pub std::marker::PhantomData<T>);
    #[contract]
    impl<T> Generic<T>
    where
        T: sylvia::serde::Serialize + sylvia::serde::de::DeserializeOwned + std::fmt::Debug + Clone + sylvia::schemars::JsonSchema + 'static,
    {
        pub const fn new() -> Self {
            Self(std::marker::PhantomData)
        }
        #[sv::msg(instantiate)]
        fn instantiate(&self, _ctx: InstantiateCtx, _v: T) -> StdResult<Response> {
            Ok(Response::new())
        }
    }
    }
}

fn remote_one<T: ?Sized>(mode: &str, addr: &str) -> String {
    let a = Addr::unchecked(addr);
    let text = if mode == "owned" {
        to_json_string(&Remote::<T>::new(a.clone()))
    } else {
        to_json_string(&Remote::<T>::borrowed(&a))
    };
    let text = match text {
        Ok(t) => t,
        Err(e) => return format!("ser-err {}", e),
    };
    let back: Result<Remote<T>, _> = from_json(text.as_bytes());
    let same = match back {
        Ok(r) => r.as_ref() == &a,
        Err(_) => false,
    };
    let name = <Remote<T> as sylvia::schemars::JsonSchema>::schema_name();
    let schema = to_json_string(&sylvia::schemars::schema_for!(Remote<T>)).unwrap_or_default();
    // FNV of the schema text: it must not depend on T either
    let mut h: u64 = 0xcbf29ce484222325;
    for b in schema.bytes() {
        h ^= b as u64;
        h = h.wrapping_mul(0x100000001b3);
    }
    format!("{} back={} schema={} {:016x}", text, same, name, h)
}

/// definitions of one schema document that mentions two handles with different type parameters
fn remote_pair_one<T: ?Sized + 'static>() -> String {
    let mut g = sylvia::schemars::gen::SchemaGenerator::default();
    let _ = g.subschema_for::<Remote<'static, fx::Concrete>>();
    let _ = g.subschema_for::<Remote<'static, T>>();
    let _ = g.subschema_for::<Remote<'static, fx::Generic<u64>>>();
    let mut defs: Vec<String> = g.definitions().keys().cloned().collect();
    defs.sort();
    format!("defs={}", defs.join(","))
}

fn remote_de_one<T: ?Sized>(json: &str) -> String {
    match from_json::<Remote<T>>(json.as_bytes()) {
        Ok(r) => format!("ok {}", to_json_string(&r.as_ref().to_string()).unwrap_or_default()),
        Err(_) => "err".into(),
    }
}

macro_rules! by_type {
    ($idx:expr, $f:ident, $($arg:expr),*) => {
        match $idx {
            "0" => $f::<fx::Concrete>($($arg),*),
            "1" => $f::<fx::Generic<u64>>($($arg),*),
            "2" => $f::<fx::Generic<Vec<String>>>($($arg),*),
            "3" => $f::<dyn fx::iface::Counter<Error = sylvia::cw_std::StdError, CountT = u32>>($($arg),*),
            "4" => $f::<str>($($arg),*),
            "5" => $f::<()>($($arg),*),
            _ => "bad-op".to_string(),
        }
    };
}

pub fn run(op: &str, rest: &str) -> String {
    match op {
        "remote" => {
            let mut it = rest.splitn(3, ' ');
            let (idx, mode, addr) = (it.next().unwrap_or(""), it.next().unwrap_or(""), it.next().unwrap_or(""));
            let addr = String::from_utf8(unhex(addr)).unwrap_or_default();
            by_type!(idx, remote_one, mode, &addr)
        }
        "remote-pair" => {
            let idx = rest.trim();
            by_type!(idx, remote_pair_one, )
        }
        "remote-de" => {
            let mut it = rest.splitn(2, ' ');
            let (idx, json) = (it.next().unwrap_or(""), it.next().unwrap_or(""));
            by_type!(idx, remote_de_one, json)
        }
        _ => format!("bad-op {}", op),
    }
}
