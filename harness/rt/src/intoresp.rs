//! IntoResponse (C11)
#![allow(dead_code, deprecated)]
use sylvia::cw_std::{
    from_json, to_json_string, BankMsg, Binary, Coin, CosmosMsg, CustomMsg, DistributionMsg, Empty, Event, ReplyOn, Response, StakingMsg, SubMsg, WasmMsg,
};
#[cfg(feature = "full")]
use sylvia::cw_std::{AnyMsg, GovMsg, IbcMsg, IbcTimeout, Timestamp, VoteOption};
use sylvia::into_response::IntoResponse;

fn unhex(s: &str) -> Vec<u8> {
    let s = s.strip_prefix('x').unwrap_or(s);
    (0..s.len() / 2).map(|i| u8::from_str_radix(&s[2 * i..2 * i + 2], 16).unwrap()).collect()
}


// ------------------------------------------------------------------------------------------------
// IntoResponse
// ------------------------------------------------------------------------------------------------
#[derive(sylvia::serde::Serialize, sylvia::serde::Deserialize, Clone, Debug, PartialEq, sylvia::schemars::JsonSchema)]
#[serde(crate = "sylvia::serde")]
#[schemars(crate = "sylvia::schemars")]
pub struct MyCustom {
    pub v: u32,
}
impl CustomMsg for MyCustom {}

#[derive(sylvia::serde::Deserialize)]
#[serde(crate = "sylvia::serde")]
struct MsgSpec {
    kind: String,
    id: u64,
    gas: Option<u64>,
    reply_on: String,
    payload: String,
    n: u64,
}

#[derive(sylvia::serde::Deserialize)]
#[serde(crate = "sylvia::serde")]
struct RespSpec {
    msgs: Vec<MsgSpec>,
    attrs: Vec<(String, String)>,
    events: Vec<(String, Vec<(String, String)>)>,
    data: Option<String>,
}

fn cosmos_msg(kind: &str, n: u64) -> Option<CosmosMsg<Empty>> {
    let s = format!("a{}", n);
    Some(match kind {
        "bank" => CosmosMsg::Bank(BankMsg::Send { to_address: s, amount: vec![Coin::new(n as u128, "utok")] }),
        "burn" => CosmosMsg::Bank(BankMsg::Burn { amount: vec![Coin::new(n as u128, "utok")] }),
        "wasm" => CosmosMsg::Wasm(WasmMsg::Execute { contract_addr: s, msg: Binary::from(vec![n as u8; (n % 5) as usize]), funds: vec![] }),
        "wasm_inst" => CosmosMsg::Wasm(WasmMsg::Instantiate { admin: None, code_id: n, msg: Binary::default(), funds: vec![], label: s }),
        "custom" => CosmosMsg::Custom(Empty {}),
        "staking" => CosmosMsg::Staking(StakingMsg::Delegate { validator: s, amount: Coin::new(n as u128, "ustake") }),
        "distribution" => CosmosMsg::Distribution(DistributionMsg::SetWithdrawAddress { address: s }),
        #[cfg(feature = "full")]
        "ibc" => CosmosMsg::Ibc(IbcMsg::CloseChannel { channel_id: s }),
        #[cfg(feature = "full")]
        "ibc_transfer" => CosmosMsg::Ibc(IbcMsg::Transfer {
            channel_id: s.clone(),
            to_address: s,
            amount: Coin::new(n as u128, "utok"),
            timeout: IbcTimeout::with_timestamp(Timestamp::from_nanos(n)),
            memo: None,
        }),
        #[cfg(feature = "full")]
        "gov" => CosmosMsg::Gov(GovMsg::Vote { proposal_id: n, option: VoteOption::Yes }),
        #[cfg(feature = "full")]
        "any" => CosmosMsg::Any(AnyMsg { type_url: s, value: Binary::from(vec![1, 2, 3]) }),
        #[cfg(feature = "full")]
        "stargate" => CosmosMsg::Stargate { type_url: s, value: Binary::from(vec![9]) },
        _ => return None,
    })
}

fn reply_on(s: &str) -> ReplyOn {
    match s {
        "always" => ReplyOn::Always,
        "success" => ReplyOn::Success,
        "error" => ReplyOn::Error,
        _ => ReplyOn::Never,
    }
}

fn intoresp(json: &str) -> String {
    let spec: RespSpec = match from_json(json.as_bytes()) {
        Ok(s) => s,
        Err(e) => return format!("bad-spec {}", e),
    };
    let mut resp = Response::<Empty>::new();
    for m in &spec.msgs {
        let Some(msg) = cosmos_msg(&m.kind, m.n) else { return "bad-kind".into() };
        resp.messages.push(SubMsg { id: m.id, payload: Binary::from(unhex(&m.payload)), msg, gas_limit: m.gas, reply_on: reply_on(&m.reply_on) });
    }
    for (k, v) in &spec.attrs {
        resp = resp.add_attribute(k.clone(), v.clone());
    }
    for (ty, attrs) in &spec.events {
        let mut e = Event::new(ty.clone());
        for (k, v) in attrs {
            e = e.add_attribute(k.clone(), v.clone());
        }
        resp = resp.add_event(e);
    }
    resp.data = spec.data.as_ref().map(|d| Binary::from(unhex(d)));
    let before = to_json_string(&resp).unwrap_or_default();
    match IntoResponse::<MyCustom>::into_response(resp) {
        Ok(out) => {
            let after = to_json_string(&out).unwrap_or_default();
            format!("ok same={} msgs={}", before == after, out.messages.len())
        }
        Err(e) => format!("err {}", e),
    }
}

pub fn run(op: &str, rest: &str) -> String {
    match op {
        "intoresp" => intoresp(rest),
        _ => format!("bad-op {}", op),
    }
}
