//! Further runtime-library operations (Remote, IntoResponse, builders) are added here.
pub fn run(op: &str, _rest: &str) -> String {
    format!("bad-op {}", op)
}
