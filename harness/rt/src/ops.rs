//! Runtime-library operations, one module per property so that each can be built alone (cargo features `remote`, `intoresp`).
#[cfg(feature = "intoresp")]
#[path = "intoresp.rs"]
mod intoresp;
#[cfg(feature = "remote")]
#[path = "remote.rs"]
mod remote;

pub fn run(op: &str, rest: &str) -> String {
    match op {
        #[cfg(feature = "remote")]
        "remote" | "remote-pair" | "remote-de" => remote::run(op, rest),
        #[cfg(feature = "intoresp")]
        "intoresp" => intoresp::run(op, rest),
        _ => format!("bad-op {}", op),
    }
}
