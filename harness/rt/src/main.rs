//! L3 harness: runs the real runtime library (and the real casing crates the macros use) on
//! one operation per input line, printing one canonical line per operation.
use std::io::{self, BufRead, Write};
use std::panic::{catch_unwind, AssertUnwindSafe};

mod ops;

fn unhex(s: &str) -> String {
    let s = s.strip_prefix('x').unwrap_or(s);
    let b: Vec<u8> = (0..s.len() / 2)
        .map(|i| u8::from_str_radix(&s[2 * i..2 * i + 2], 16).unwrap())
        .collect();
    String::from_utf8(b).unwrap()
}

fn parse_lists(spec: &str) -> Vec<Vec<String>> {
    if spec == "-" {
        return vec![];
    }
    spec.split('|')
        .map(|arr| {
            if arr.is_empty() {
                vec![]
            } else {
                arr.split(',').map(unhex).collect()
            }
        })
        .collect()
}

#[cfg(not(feature = "inter"))]
fn inter(_spec: &str) -> String {
    "bad-op inter".into()
}

#[cfg(feature = "inter")]
fn inter(spec: &str) -> String {
    let lists = parse_lists(spec);
    let refs: Vec<Vec<&str>> = lists.iter().map(|l| l.iter().map(|s| s.as_str()).collect()).collect();
    let slices: Vec<&[&str]> = refs.iter().map(|l| l.as_slice()).collect();
    macro_rules! call {
        ($n:literal) => {{
            let mut arr: [&[&str]; $n] = [&[]; $n];
            for i in 0..$n {
                arr[i] = slices[i];
            }
            sylvia::utils::assert_no_intersection::<$n>(arr)
        }};
    }
    let r = catch_unwind(AssertUnwindSafe(|| match slices.len() {
        0 => call!(0),
        1 => call!(1),
        2 => call!(2),
        3 => call!(3),
        4 => call!(4),
        5 => call!(5),
        6 => call!(6),
        7 => call!(7),
        8 => call!(8),
        _ => panic!("too many arrays for the harness"),
    }));
    match r {
        Ok(()) => "ok".into(),
        Err(e) => {
            let msg = e
                .downcast_ref::<&str>()
                .map(|s| s.to_string())
                .or_else(|| e.downcast_ref::<String>().cloned())
                .unwrap_or_default();
            if msg.contains("Message overlaps") {
                "panic".into()
            } else {
                format!("crash {}", msg)
            }
        }
    }
}

fn case(name: &str) -> String {
    use convert_case::{Case, Casing};
    use serde_derive_internals::attr::RenameRule;
    let camel = name.to_case(Case::UpperCamel);
    let snake = camel.to_case(Case::Snake);
    let upper_snake = name.to_case(Case::UpperSnake);
    let wire = RenameRule::from_str("snake_case").ok().unwrap().apply_to_variant(&camel);
    format!("{} {} {} {}", camel, snake, upper_snake, wire)
}

fn main() {
    std::panic::set_hook(Box::new(|_| {}));
    let stdin = io::stdin();
    let out = io::stdout();
    let mut out = io::BufWriter::new(out.lock());
    for line in stdin.lock().lines() {
        let line = line.unwrap();
        let (op, rest) = line.split_once(' ').unwrap_or((line.as_str(), ""));
        let res = match op {
            "inter" => inter(rest),
            "case" => case(rest),
            _ => match catch_unwind(AssertUnwindSafe(|| ops::run(op, rest))) {
                Ok(s) => s,
                Err(_) => "crash".into(),
            },
        };
        writeln!(out, "{}", res).unwrap();
    }
}
