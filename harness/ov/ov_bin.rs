#![allow(unused_variables, unused_imports, dead_code, deprecated)]
// generated from harness/ov/ov_bin.rs: a contract overriding the entry points @KINDS@, run on a multitest chain
#[path = "../prelude.rs"]
mod prelude;
use prelude::*;
use sylvia::cw_std::{Deps, DepsMut, Reply, StdResult, SubMsg};

pub struct Ct;

pub mod ov {
    use super::*;
    pub fn mark(storage: &mut dyn Storage, k: &str) {
        let mut v = storage.get(b"ov").unwrap_or_default();
        v.extend_from_slice(k.as_bytes());
        v.push(b',');
        storage.set(b"ov", &v);
    }
    pub fn instantiate(deps: DepsMut, env: Env, info: MessageInfo, msg: super::sv::InstantiateMsg) -> StdResult<Response> {
        mark(deps.storage, "instantiate");
        msg.dispatch(&Ct::new(), (deps, env, info))
    }
    pub fn execute(deps: DepsMut, env: Env, info: MessageInfo, msg: super::sv::ContractExecMsg) -> StdResult<Response> {
        mark(deps.storage, "exec");
        msg.dispatch(&Ct::new(), (deps, env, info))
    }
    pub fn query(_deps: Deps, _env: Env, _msg: super::sv::ContractQueryMsg) -> StdResult<Binary> {
        sylvia::cw_std::to_json_binary("ov-query")
    }
    pub fn sudo(deps: DepsMut, env: Env, msg: super::sv::ContractSudoMsg) -> StdResult<Response> {
        mark(deps.storage, "sudo");
        msg.dispatch(&Ct::new(), (deps, env))
    }
    pub fn migrate(deps: DepsMut, env: Env, msg: super::sv::MigrateMsg) -> StdResult<Response> {
        mark(deps.storage, "migrate");
        msg.dispatch(&Ct::new(), (deps, env))
    }
    pub fn reply(deps: DepsMut, _env: Env, msg: Reply) -> StdResult<Response> {
        mark(deps.storage, &format!("reply#{}", msg.id));
        Ok(Response::new())
    }
}

fn ran(storage: &mut dyn Storage, k: &str) {
    let mut v = storage.get(b"ran").unwrap_or_default();
    v.extend_from_slice(k.as_bytes());
    v.push(b',');
    storage.set(b"ran", &v);
}

#[entry_points]
#[contract]
@ATTRS@
impl Ct {
    pub const fn new() -> Self {
        Self
    }
    #[sv::msg(instantiate)]
    fn instantiate(&self, ctx: InstantiateCtx, a: u32) -> StdResult<Response> {
        ran(ctx.deps.storage, "instantiate");
        Ok(Response::new())
    }
    #[sv::msg(exec)]
    fn go(&self, ctx: ExecCtx) -> StdResult<Response> {
        ran(ctx.deps.storage, "go");
        let inner = WasmMsg::Execute { contract_addr: ctx.env.contract.address.to_string(), msg: Binary::from(br#"{"noop":{}}"#.to_vec()), funds: vec![] };
        Ok(Response::new().add_submessage(SubMsg::reply_always(inner, 7)))
    }
    #[sv::msg(exec)]
    fn noop(&self, ctx: ExecCtx) -> StdResult<Response> {
        ran(ctx.deps.storage, "noop");
        Ok(Response::new())
    }
    #[sv::msg(query)]
    fn get(&self, ctx: QueryCtx) -> StdResult<String> {
        Ok("handler-get".to_string())
    }
    #[sv::msg(sudo)]
    fn su(&self, ctx: SudoCtx) -> StdResult<Response> {
        ran(ctx.deps.storage, "su");
        Ok(Response::new())
    }
    #[sv::msg(migrate)]
    fn mig(&self, ctx: MigrateCtx) -> StdResult<Response> {
        ran(ctx.deps.storage, "mig");
        Ok(Response::new())
    }
    #[sv::msg(reply)]
    #[allow(deprecated)]
    fn on_reply(&self, ctx: sylvia::types::ReplyCtx, msg: Reply) -> StdResult<Response> {
        ran(ctx.deps.storage, &format!("on_reply#{}", msg.id));
        Ok(Response::new())
    }
}

fn main() {
    let app = mt_app();
    let alice = acct("alice");
    let code = app.app_mut().store_code(Box::new(Ct::new()));
    let mut out = vec![];
    let addr = match app.app_mut().instantiate_contract(code, alice.clone(), &sv::InstantiateMsg { a: 1 }, &[], "ov", Some(alice.to_string())) {
        Ok(a) => a,
        Err(e) => {
            println!("instantiate-failed {}", e.root_cause());
            return;
        }
    };
    let step = |name: &str, r: Result<(), String>| match r {
        Ok(()) => format!("{}=ok", name),
        Err(e) => format!("{}=err {}", name, e),
    };
    out.push(step("exec", app.app_mut().execute_contract(alice.clone(), addr.clone(), &sv::ExecMsg::Go {}, &[]).map(|_| ()).map_err(|e| e.root_cause().to_string())));
    out.push(step("sudo", app.app_mut().wasm_sudo(addr.clone(), &sv::SudoMsg::Su {}).map(|_| ()).map_err(|e| e.root_cause().to_string())));
    out.push(step("migrate", app.app_mut().migrate_contract(alice.clone(), addr.clone(), &sv::MigrateMsg {}, code).map(|_| ()).map_err(|e| e.root_cause().to_string())));
    let q: Result<String, _> = app.app().wrap().query_wasm_smart(addr.clone(), &sv::QueryMsg::Get {});
    out.push(format!("query={}", q.unwrap_or_else(|e| format!("err {}", e))));
    let a = app.app();
    let st = a.contract_storage(&addr);
    out.push(format!("ov=[{}]", String::from_utf8_lossy(&st.get(b"ov").unwrap_or_default())));
    out.push(format!("ran=[{}]", String::from_utf8_lossy(&st.get(b"ran").unwrap_or_default())));
    println!("{}", out.join(" "));
}
