#![allow(unused_variables, unused_imports, dead_code, deprecated)]
// generated from harness/ov/ov_bin.rs: a contract overriding the entry points @KINDS@, run on a multitest chain
#[path = "../prelude.rs"]
mod prelude;
use prelude::*;
use sylvia::cw_std::{Deps, DepsMut, Reply, StdResult, SubMsg};

pub struct Ct;

pub mod ov {
    use super::*;
    pub fn mark(storage: &mut dyn Storage, k: &str) {
        let mut v = storage.get(b"ov").unwrap_or_default();
        v.extend_from_slice(k.as_bytes());
        v.push(b',');
        storage.set(b"ov", &v);
    }
    fn failing(storage: &dyn Storage, k: &str) -> StdResult<()> {
        if storage.get(b"ovfail").is_some() {
            return Err(StdError::generic_err(format!("ov-fail:{}", k)));
        }
        Ok(())
    }
    pub fn instantiate(deps: DepsMut, env: Env, info: MessageInfo, msg: super::sv::InstantiateMsg) -> StdResult<Response> {
        if msg.a == 13 {
            return Err(StdError::generic_err("ov-fail:instantiate"));
        }
        mark(deps.storage, "instantiate");
        msg.dispatch(&Ct::new(), (deps, env, info)).map_err(|e| StdError::generic_err(e.to_string()))
    }
    pub fn execute(deps: DepsMut, env: Env, info: MessageInfo, msg: super::sv::ContractExecMsg) -> StdResult<Response> {
        failing(deps.storage, "exec")?;
        mark(deps.storage, "exec");
        msg.dispatch(&Ct::new(), (deps, env, info)).map_err(|e| StdError::generic_err(e.to_string()))
    }
    pub fn query(_deps: Deps, _env: Env, _msg: super::sv::ContractQueryMsg) -> StdResult<Binary> {
        sylvia::cw_std::to_json_binary("ov-query")
    }
    pub fn sudo(deps: DepsMut, env: Env, msg: super::sv::ContractSudoMsg) -> StdResult<Response> {
        failing(deps.storage, "sudo")?;
        mark(deps.storage, "sudo");
        msg.dispatch(&Ct::new(), (deps, env)).map_err(|e| StdError::generic_err(e.to_string()))
    }
    pub fn migrate(deps: DepsMut, env: Env, msg: super::sv::MigrateMsg) -> StdResult<Response> {
        failing(deps.storage, "migrate")?;
        mark(deps.storage, "migrate");
        msg.dispatch(&Ct::new(), (deps, env)).map_err(|e| StdError::generic_err(e.to_string()))
    }
    pub fn reply(deps: DepsMut, _env: Env, msg: Reply) -> StdResult<Response> {
        mark(deps.storage, &format!("reply#{}", msg.id));
        Ok(Response::new())
    }
}

fn ran(storage: &mut dyn Storage, k: &str) {
    let mut v = storage.get(b"ran").unwrap_or_default();
    v.extend_from_slice(k.as_bytes());
    v.push(b',');
    storage.set(b"ran", &v);
}

#[entry_points]
#[contract]
#[sv::error(ContractError)]
@ATTRS@
impl Ct {
    pub const fn new() -> Self {
        Self
    }
    #[sv::msg(instantiate)]
    fn instantiate(&self, ctx: InstantiateCtx, a: u32) -> StdResult<Response> {
        ran(ctx.deps.storage, "instantiate");
        Ok(Response::new())
    }
    #[sv::msg(exec)]
    fn go(&self, ctx: ExecCtx) -> StdResult<Response> {
        ran(ctx.deps.storage, "go");
        let inner = WasmMsg::Execute { contract_addr: ctx.env.contract.address.to_string(), msg: Binary::from(br#"{"noop":{}}"#.to_vec()), funds: vec![] };
        Ok(Response::new().add_submessage(SubMsg::reply_always(inner, 7)))
    }
    #[sv::msg(exec)]
    fn noop(&self, ctx: ExecCtx) -> StdResult<Response> {
        ran(ctx.deps.storage, "noop");
        Ok(Response::new())
    }
    #[sv::msg(query)]
    fn get(&self, ctx: QueryCtx) -> StdResult<String> {
        Ok("handler-get".to_string())
    }
    #[sv::msg(sudo)]
    fn su(&self, ctx: SudoCtx) -> StdResult<Response> {
        ran(ctx.deps.storage, "su");
        Ok(Response::new())
    }
    #[sv::msg(migrate)]
    fn mig(&self, ctx: MigrateCtx) -> StdResult<Response> {
        ran(ctx.deps.storage, "mig");
        Ok(Response::new())
    }
    #[sv::msg(reply)]
    #[allow(deprecated)]
    fn on_reply2(&self, ctx: sylvia::types::ReplyCtx, msg: Reply) -> StdResult<Response> {
        ran(ctx.deps.storage, &format!("on_reply2#{}", msg.id));
        Ok(Response::new())
    }
}

fn main() {
    let app = mt_app();
    let alice = acct("alice");
    let code = app.app_mut().store_code(Box::new(Ct::new()));
    let mut out = vec![];
    let addr = match app.app_mut().instantiate_contract(code, alice.clone(), &sv::InstantiateMsg { a: 1 }, &[], "ov", Some(alice.to_string())) {
        Ok(a) => a,
        Err(e) => {
            println!("instantiate-failed {}", e.root_cause());
            return;
        }
    };
    let step = |name: &str, r: Result<(), String>| match r {
        Ok(()) => format!("{}=ok", name),
        Err(e) => format!("{}=err {}", name, e),
    };
    out.push(step("exec", app.app_mut().execute_contract(alice.clone(), addr.clone(), &sv::ExecMsg::Go {}, &[]).map(|_| ()).map_err(|e| e.root_cause().to_string())));
    out.push(step("sudo", app.app_mut().wasm_sudo(addr.clone(), &sv::SudoMsg::Su {}).map(|_| ()).map_err(|e| e.root_cause().to_string())));
    out.push(step("migrate", app.app_mut().migrate_contract(alice.clone(), addr.clone(), &sv::MigrateMsg {}, code).map(|_| ()).map_err(|e| e.root_cause().to_string())));
    let q: Result<String, _> = app.app().wrap().query_wasm_smart(addr.clone(), &sv::QueryMsg::Get {});
    out.push(format!("query={}", q.unwrap_or_else(|e| format!("err {}", e))));
    let a = app.app();
    let st = a.contract_storage(&addr);
    out.push(format!("ov=[{}]", String::from_utf8_lossy(&st.get(b"ov").unwrap_or_default())));
    out.push(format!("ran=[{}]", String::from_utf8_lossy(&st.get(b"ran").unwrap_or_default())));
    drop(st);
    drop(a);
    // the overrides now fail with a bare StdError: what do the proxies hand back?
    {
        let mut a = app.app_mut();
        a.contract_storage_mut(&addr).set(b"ovfail", b"1");
    }
    use sv::mt::CtProxy;
    let proxy: Proxy<'_, MtApp, Ct> = Proxy::new(addr.clone(), &app);
    let show = |r: Result<AppResponse, ContractError>| match r {
        Ok(_) => "ok".to_string(),
        Err(e) => format!("err {}", e),
    };
    let r = std::panic::catch_unwind(std::panic::AssertUnwindSafe(|| show(proxy.noop().call(&alice))));
    out.push(format!("p_exec={}", r.unwrap_or_else(|_| "PANIC".into())));
    let r = std::panic::catch_unwind(std::panic::AssertUnwindSafe(|| show(proxy.su())));
    out.push(format!("p_sudo={}", r.unwrap_or_else(|_| "PANIC".into())));
    let r = std::panic::catch_unwind(std::panic::AssertUnwindSafe(|| show(proxy.mig().call(&alice, code))));
    out.push(format!("p_migrate={}", r.unwrap_or_else(|_| "PANIC".into())));
    let code2 = sv::mt::CodeId::<Ct, _>::store_code(&app);
    let r = std::panic::catch_unwind(std::panic::AssertUnwindSafe(|| match code2.instantiate(13).call(&alice) {
        Ok(_) => "ok".to_string(),
        Err(e) => format!("err {}", e),
    }));
    out.push(format!("p_instantiate={}", r.unwrap_or_else(|_| "PANIC".into())));
    println!("{}", out.join("; "));
}
