//! A contract whose handlers take 128-bit integer arguments (outside the argument universe of the Lean model): every document is
//! offered to the part's message type and to the contract-level message type; C03 requires the two to agree.
use sylvia::contract;
use sylvia::ctx::{ExecCtx, InstantiateCtx, QueryCtx, SudoCtx};
use sylvia::cw_std::{from_json, to_json_string, Response, StdResult};

pub struct Ct;

#[contract]
impl Ct {
    pub const fn new() -> Self {
        Self
    }
    #[sv::msg(instantiate)]
    fn instantiate(&self, _ctx: InstantiateCtx) -> StdResult<Response> {
        Ok(Response::new())
    }
    #[sv::msg(exec)]
    fn put(&self, _ctx: ExecCtx, v: u128) -> StdResult<Response> {
        Ok(Response::new())
    }
    #[sv::msg(exec)]
    fn puti(&self, _ctx: ExecCtx, v: i128) -> StdResult<Response> {
        Ok(Response::new())
    }
    #[sv::msg(exec)]
    fn mix(&self, _ctx: ExecCtx, a: u64, b: Option<u128>) -> StdResult<Response> {
        Ok(Response::new())
    }
    #[sv::msg(exec)]
    fn small(&self, _ctx: ExecCtx, a: u64) -> StdResult<Response> {
        Ok(Response::new())
    }
    #[sv::msg(query)]
    fn get(&self, _ctx: QueryCtx, v: u128) -> StdResult<u64> {
        Ok(v as u64)
    }
    #[sv::msg(sudo)]
    fn set(&self, _ctx: SudoCtx, v: Vec<i128>) -> StdResult<Response> {
        Ok(Response::new())
    }
}

fn verdict<T>(r: StdResult<T>) -> &'static str {
    if r.is_ok() {
        "ok"
    } else {
        "err"
    }
}

fn main() {
    let mut docs: Vec<(&str, String)> = vec![];
    for v in [0u128, 5, u64::MAX as u128, u64::MAX as u128 + 1, u128::MAX] {
        docs.push(("exec", to_json_string(&sv::ExecMsg::put(v)).unwrap()));
        docs.push(("exec", to_json_string(&sv::ExecMsg::mix(1, Some(v))).unwrap()));
        docs.push(("query", to_json_string(&sv::QueryMsg::get(v)).unwrap()));
    }
    for v in [0i128, -5, i64::MIN as i128 - 1, i128::MAX] {
        docs.push(("exec", to_json_string(&sv::ExecMsg::puti(v)).unwrap()));
        docs.push(("sudo", to_json_string(&sv::SudoMsg::set(vec![v, 1])).unwrap()));
    }
    docs.push(("exec", to_json_string(&sv::ExecMsg::mix(1, None)).unwrap()));
    docs.push(("exec", to_json_string(&sv::ExecMsg::small(7)).unwrap()));
    docs.push(("exec", "{\"put\":{\"v\":\"5\"}}".to_string()));
    docs.push(("exec", "{\"put\":{\"v\":-1}}".to_string()));
    docs.push(("sudo", "{\"set\":{\"v\":[]}}".to_string()));
    for (kind, d) in docs {
        let (p, w) = match kind {
            "exec" => (verdict(from_json::<sv::ExecMsg>(d.as_bytes())), verdict(from_json::<sv::ContractExecMsg>(d.as_bytes()))),
            "query" => (verdict(from_json::<sv::QueryMsg>(d.as_bytes())), verdict(from_json::<sv::ContractQueryMsg>(d.as_bytes()))),
            _ => (verdict(from_json::<sv::SudoMsg>(d.as_bytes())), verdict(from_json::<sv::ContractSudoMsg>(d.as_bytes()))),
        };
        println!("{} part={} wrapper={} doc={}", kind, p, w, d);
    }
}
