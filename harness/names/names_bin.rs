#![allow(unused_variables, unused_imports, dead_code, deprecated, non_snake_case, uncommon_codepoints)]
// names outside ASCII: the published routing lists must still be the names serde puts on the wire (C03 / C05)
#[path = "../prelude.rs"]
mod prelude;
use prelude::*;
use sylvia::cw_std::StdResult;

pub struct Ct;

#[contract]
impl Ct {
    pub const fn new() -> Self {
        Self
    }
    #[sv::msg(instantiate)]
    fn instantiate(&self, ctx: InstantiateCtx) -> StdResult<Response> {
        Ok(Response::new())
    }
    #[sv::msg(exec)]
    fn set_ärger(&self, ctx: ExecCtx) -> StdResult<Response> {
        Ok(Response::new())
    }
    #[sv::msg(exec)]
    fn zähler_über_alles(&self, ctx: ExecCtx) -> StdResult<Response> {
        Ok(Response::new())
    }
    #[sv::msg(exec)]
    fn größe2_x(&self, ctx: ExecCtx) -> StdResult<Response> {
        Ok(Response::new())
    }
    #[sv::msg(exec)]
    fn plain_name(&self, ctx: ExecCtx) -> StdResult<Response> {
        Ok(Response::new())
    }
    #[sv::msg(query)]
    fn frage_öl(&self, ctx: QueryCtx) -> StdResult<String> {
        Ok(String::new())
    }
    #[sv::msg(sudo)]
    fn über(&self, ctx: SudoCtx) -> StdResult<Response> {
        Ok(Response::new())
    }
}

fn key_of<T: sylvia::serde::Serialize>(v: &T) -> String {
    let text = to_json_string(v).unwrap();
    let d: sylvia::serde_value::Value = from_json(text.as_bytes()).unwrap();
    match d {
        sylvia::serde_value::Value::Map(m) => match m.keys().next() {
            Some(sylvia::serde_value::Value::String(s)) => s.clone(),
            _ => "?".into(),
        },
        _ => "?".into(),
    }
}

fn main() {
    let mut exec_keys = vec![key_of(&sv::ExecMsg::set_ärger()), key_of(&sv::ExecMsg::zähler_über_alles()), key_of(&sv::ExecMsg::größe_2_x()), key_of(&sv::ExecMsg::plain_name())];
    exec_keys.sort();
    let query_keys = vec![key_of(&sv::QueryMsg::frage_öl())];
    let sudo_keys = vec![key_of(&sv::SudoMsg::über())];
    println!("exec lists={:?} keys={:?}", sv::execute_messages(), exec_keys);
    println!("query lists={:?} keys={:?}", sv::query_messages(), query_keys);
    println!("sudo lists={:?} keys={:?}", sv::sudo_messages(), sudo_keys);
    // and the contract-level message accepts what the part serialises
    for text in [to_json_string(&sv::ExecMsg::set_ärger()).unwrap(), to_json_string(&sv::ExecMsg::zähler_über_alles()).unwrap(), to_json_string(&sv::ExecMsg::größe_2_x()).unwrap()] {
        println!("wrapper {} -> {}", text, from_json::<sv::ContractExecMsg>(text.as_bytes()).map(|_| "ok".to_string()).unwrap_or_else(|e| "rejected".to_string()));
    }
}
