// Translator, source side: a generic dump of every `match` expression and every token-producing
// macro call (`quote!`, `parse_quote!`, `format!` inside `Ident::new`) of sylvia-derive's current
// sources, keyed by file / impl type / function. The Python half (vlib/translate.py) selects the
// decision tables by those keys, classifies the arms and writes Lean definitions.

use syn::visit::Visit;

fn tt_flat(ts: TS, out: &mut Vec<J>) {
    use proc_macro2::{Delimiter, TokenTree};
    for t in ts {
        match t {
            TokenTree::Ident(i) => out.push(J::A(vec![s("I"), s(i)])),
            TokenTree::Punct(p) => out.push(J::A(vec![
                s("P"),
                s(p.as_char()),
                J::B(matches!(p.spacing(), proc_macro2::Spacing::Joint)),
            ])),
            TokenTree::Literal(l) => out.push(J::A(vec![s("L"), s(l)])),
            TokenTree::Group(g) => {
                let (o, c) = match g.delimiter() {
                    Delimiter::Parenthesis => ("(", ")"),
                    Delimiter::Brace => ("{", "}"),
                    Delimiter::Bracket => ("[", "]"),
                    Delimiter::None => ("", ""),
                };
                out.push(J::A(vec![s("O"), s(o)]));
                tt_flat(g.stream(), out);
                out.push(J::A(vec![s("C"), s(c)]));
            }
        }
    }
}

struct FnDump {
    matches: Vec<J>,
    macros: Vec<J>,
}

impl<'ast> Visit<'ast> for FnDump {
    fn visit_expr_match(&mut self, m: &'ast syn::ExprMatch) {
        let arms = m
            .arms
            .iter()
            .map(|a| {
                let pats: Vec<J> = match &a.pat {
                    syn::Pat::Or(o) => o.cases.iter().map(|p| jn(p)).collect(),
                    p => vec![jn(p)],
                };
                let (bk, btoks) = match &*a.body {
                    syn::Expr::Macro(em) => {
                        let mut v = vec![];
                        tt_flat(em.mac.tokens.clone(), &mut v);
                        (norm(&em.mac.path), J::A(v))
                    }
                    _ => ("expr".to_string(), J::Null),
                };
                J::O(vec![
                    ("attrs", J::A(a.attrs.iter().map(|x| jn(&x.meta)).collect())),
                    ("pats", J::A(pats)),
                    ("guard", a.guard.as_ref().map(|(_, g)| jn(g)).unwrap_or(J::Null)),
                    ("body", jn(&a.body)),
                    ("body_kind", s(bk)),
                    ("body_tokens", btoks),
                    ("line", J::N(0)),
                ])
            })
            .collect();
        self.matches.push(J::O(vec![
            ("scrutinee", jn(&m.expr)),
            ("line", J::N(0)),
            ("arms", J::A(arms)),
        ]));
        syn::visit::visit_expr_match(self, m);
    }

    fn visit_macro(&mut self, m: &'ast syn::Macro) {
        let name = norm(&m.path);
        let mut v = vec![];
        tt_flat(m.tokens.clone(), &mut v);
        self.macros.push(J::O(vec![
            ("name", s(&name)),
            ("line", J::N(0)),
            ("tokens", J::A(v)),
        ]));
        // nested macro calls inside quote!/format! bodies are plain tokens; look for them too
        if name == "quote" || name == "parse_quote" || name == "emit_error" || name == "emit_warning" {
            return;
        }
        if let Ok(args) = m.parse_body_with(syn::punctuated::Punctuated::<syn::Expr, syn::Token![,]>::parse_terminated) {
            for a in args.iter() {
                self.visit_expr(a);
            }
        }
    }
}

fn dump_fn(container: &str, trait_: &str, sig: &syn::Signature, block: Option<&syn::Block>, out: &mut Vec<J>) {
    let mut d = FnDump { matches: vec![], macros: vec![] };
    if let Some(b) = block {
        d.visit_block(b);
    }
    out.push(J::O(vec![
        ("container", s(container)),
        ("trait", s(trait_)),
        ("name", s(&sig.ident)),
        ("line", J::N(0)),
        ("body", block.map(|b| jn(b)).unwrap_or(J::Null)),
        ("matches", J::A(d.matches)),
        ("macros", J::A(d.macros)),
    ]));
}

fn dump_items(items: &[syn::Item], out: &mut Vec<J>) {
    for it in items {
        match it {
            syn::Item::Fn(f) => dump_fn("", "", &f.sig, Some(&f.block), out),
            syn::Item::Impl(i) => {
                let cont = match &*i.self_ty {
                    syn::Type::Path(p) => p.path.segments.last().map(|s| s.ident.to_string()).unwrap_or_default(),
                    t => norm(t),
                };
                let tr = i.trait_.as_ref().map(|(_, p, _)| p.segments.last().map(|s| s.ident.to_string()).unwrap_or_default()).unwrap_or_default();
                for ii in &i.items {
                    if let syn::ImplItem::Fn(f) = ii {
                        dump_fn(&cont, &tr, &f.sig, Some(&f.block), out);
                        // nested fns (e.g. `fn inner`) are reached through the block visitor only for
                        // their matches/macros, which is what the tables need
                    }
                }
            }
            syn::Item::Trait(t) => {
                for ti in &t.items {
                    if let syn::TraitItem::Fn(f) = ti {
                        dump_fn(&t.ident.to_string(), "", &f.sig, f.default.as_ref(), out);
                    }
                }
            }
            syn::Item::Mod(m) => {
                if let Some((_, items)) = &m.content {
                    dump_items(items, out);
                }
            }
            _ => {}
        }
    }
}

fn walk(dir: &std::path::Path, files: &mut Vec<std::path::PathBuf>) {
    let mut ents: Vec<_> = std::fs::read_dir(dir).unwrap().map(|e| e.unwrap().path()).collect();
    ents.sort();
    for p in ents {
        if p.is_dir() {
            walk(&p, files);
        } else if p.extension().map(|e| e == "rs").unwrap_or(false) {
            files.push(p);
        }
    }
}

fn mode_extract(src_dir: &str, out: &mut String) {
    let root = std::path::Path::new(src_dir);
    let mut files = vec![];
    walk(root, &mut files);
    for f in files {
        let text = std::fs::read_to_string(&f).unwrap();
        let rel = f.strip_prefix(root).unwrap().to_string_lossy().to_string();
        let mut j = vec![("file", s(&rel))];
        match syn::parse_file(&text) {
            Ok(file) => {
                let mut fns = vec![];
                dump_items(&file.items, &mut fns);
                j.push(("fns", J::A(fns)));
            }
            Err(e) => j.push(("parse_error", s(e))),
        }
        J::O(j).write(out);
        out.push('\n');
    }
}
