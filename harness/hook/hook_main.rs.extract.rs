// Translator, source side: a generic dump of every `match` expression and every token-producing
// macro call (`quote!`, `parse_quote!`, `format!` inside `Ident::new`) of sylvia-derive's current
// sources, keyed by file / impl type / function. The Python half (vlib/translate.py) selects the
// decision tables by those keys, classifies the arms and writes Lean definitions.

use syn::visit::Visit;

fn tt_flat(ts: TS, out: &mut Vec<J>) {
    use proc_macro2::{Delimiter, TokenTree};
    for t in ts {
        match t {
            TokenTree::Ident(i) => out.push(J::A(vec![s("I"), s(i)])),
            TokenTree::Punct(p) => out.push(J::A(vec![
                s("P"),
                s(p.as_char()),
                J::B(matches!(p.spacing(), proc_macro2::Spacing::Joint)),
            ])),
            TokenTree::Literal(l) => out.push(J::A(vec![s("L"), s(l)])),
            TokenTree::Group(g) => {
                let (o, c) = match g.delimiter() {
                    Delimiter::Parenthesis => ("(", ")"),
                    Delimiter::Brace => ("{", "}"),
                    Delimiter::Bracket => ("[", "]"),
                    Delimiter::None => ("", ""),
                };
                out.push(J::A(vec![s("O"), s(o)]));
                tt_flat(g.stream(), out);
                out.push(J::A(vec![s("C"), s(c)]));
            }
        }
    }
}

struct FnDump {
    matches: Vec<J>,
    macros: Vec<J>,
}

impl<'ast> Visit<'ast> for FnDump {
    fn visit_expr_match(&mut self, m: &'ast syn::ExprMatch) {
        let arms = m
            .arms
            .iter()
            .map(|a| {
                let pats: Vec<J> = match &a.pat {
                    syn::Pat::Or(o) => o.cases.iter().map(|p| jn(p)).collect(),
                    p => vec![jn(p)],
                };
                let (bk, btoks) = match &*a.body {
                    syn::Expr::Macro(em) => {
                        let mut v = vec![];
                        tt_flat(em.mac.tokens.clone(), &mut v);
                        (norm(&em.mac.path), J::A(v))
                    }
                    _ => ("expr".to_string(), J::Null),
                };
                J::O(vec![
                    ("attrs", J::A(a.attrs.iter().map(|x| jn(&x.meta)).collect())),
                    ("pats", J::A(pats)),
                    ("guard", a.guard.as_ref().map(|(_, g)| jn(g)).unwrap_or(J::Null)),
                    ("body", jn(&a.body)),
                    ("body_kind", s(bk)),
                    ("body_tokens", btoks),
                    ("line", J::N(0)),
                ])
            })
            .collect();
        self.matches.push(J::O(vec![
            ("scrutinee", jn(&m.expr)),
            ("line", J::N(0)),
            ("arms", J::A(arms)),
        ]));
        syn::visit::visit_expr_match(self, m);
    }

    fn visit_macro(&mut self, m: &'ast syn::Macro) {
        let name = norm(&m.path);
        let mut v = vec![];
        tt_flat(m.tokens.clone(), &mut v);
        self.macros.push(J::O(vec![
            ("name", s(&name)),
            ("line", J::N(0)),
            ("tokens", J::A(v)),
        ]));
        // nested macro calls inside quote!/format! bodies are plain tokens; look for them too
        if name == "quote" || name == "parse_quote" || name == "emit_error" || name == "emit_warning" {
            return;
        }
        if let Ok(args) = m.parse_body_with(syn::punctuated::Punctuated::<syn::Expr, syn::Token![,]>::parse_terminated) {
            for a in args.iter() {
                self.visit_expr(a);
            }
        }
    }
}

fn dump_fn(container: &str, trait_: &str, sig: &syn::Signature, block: Option<&syn::Block>, out: &mut Vec<J>) {
    let mut d = FnDump { matches: vec![], macros: vec![] };
    if let Some(b) = block {
        d.visit_block(b);
    }
    out.push(J::O(vec![
        ("container", s(container)),
        ("trait", s(trait_)),
        ("name", s(&sig.ident)),
        ("line", J::N(0)),
        ("body", block.map(|b| jn(b)).unwrap_or(J::Null)),
        ("matches", J::A(d.matches)),
        ("macros", J::A(d.macros)),
    ]));
}

fn dump_items(items: &[syn::Item], out: &mut Vec<J>) {
    for it in items {
        match it {
            syn::Item::Fn(f) => dump_fn("", "", &f.sig, Some(&f.block), out),
            syn::Item::Impl(i) => {
                let cont = match &*i.self_ty {
                    syn::Type::Path(p) => p.path.segments.last().map(|s| s.ident.to_string()).unwrap_or_default(),
                    t => norm(t),
                };
                let tr = i.trait_.as_ref().map(|(_, p, _)| p.segments.last().map(|s| s.ident.to_string()).unwrap_or_default()).unwrap_or_default();
                for ii in &i.items {
                    if let syn::ImplItem::Fn(f) = ii {
                        dump_fn(&cont, &tr, &f.sig, Some(&f.block), out);
                        // nested fns (e.g. `fn inner`) are reached through the block visitor only for
                        // their matches/macros, which is what the tables need
                    }
                }
            }
            syn::Item::Trait(t) => {
                for ti in &t.items {
                    if let syn::TraitItem::Fn(f) = ti {
                        dump_fn(&t.ident.to_string(), "", &f.sig, f.default.as_ref(), out);
                    }
                }
            }
            syn::Item::Mod(m) => {
                if let Some((_, items)) = &m.content {
                    dump_items(items, out);
                }
            }
            _ => {}
        }
    }
}

fn walk(dir: &std::path::Path, files: &mut Vec<std::path::PathBuf>) {
    let mut ents: Vec<_> = std::fs::read_dir(dir).unwrap().map(|e| e.unwrap().path()).collect();
    ents.sort();
    for p in ents {
        if p.is_dir() {
            walk(&p, files);
        } else if p.extension().map(|e| e == "rs").unwrap_or(false) {
            files.push(p);
        }
    }
}

fn mode_extract(src_dir: &str, out: &mut String) {
    let root = std::path::Path::new(src_dir);
    let mut files = vec![];
    walk(root, &mut files);
    for f in files {
        let text = std::fs::read_to_string(&f).unwrap();
        let rel = f.strip_prefix(root).unwrap().to_string_lossy().to_string();
        let mut j = vec![("file", s(&rel))];
        match syn::parse_file(&text) {
            Ok(file) => {
                let mut fns = vec![];
                dump_items(&file.items, &mut fns);
                j.push(("fns", J::A(fns)));
            }
            Err(e) => j.push(("parse_error", s(e))),
        }
        J::O(j).write(out);
        out.push('\n');
    }
}

// ------------------------------------------------------------------------------------------------
// mode `ast`: full syntax tree (as nested JSON arrays) of the enums and functions of ONE source file,
// for the function translator (vlib/rs2lean.py). Anything outside the supported subset is dumped as
// ["unsupported", <tokens>] and reported by the translator as a problem.
// ------------------------------------------------------------------------------------------------
fn a(tag: &str, mut rest: Vec<J>) -> J {
    let mut v = vec![s(tag)];
    v.append(&mut rest);
    J::A(v)
}

fn ast_path(p: &syn::Path) -> J {
    J::A(p.segments.iter().map(|x| s(&x.ident)).collect())
}

fn ast_type(t: &syn::Type) -> J {
    match t {
        syn::Type::Reference(r) => a("ref", vec![ast_type(&r.elem)]),
        syn::Type::Array(x) => a("array", vec![ast_type(&x.elem), ast_expr(&x.len)]),
        syn::Type::Slice(x) => a("slice", vec![ast_type(&x.elem)]),
        syn::Type::Path(p) if p.qself.is_none() => {
            let last = p.path.segments.last().unwrap();
            match &last.arguments {
                syn::PathArguments::AngleBracketed(ab) => {
                    let args: Vec<J> = ab
                        .args
                        .iter()
                        .filter(|g| !matches!(g, syn::GenericArgument::Lifetime(_)))
                        .map(|g| match g {
                            syn::GenericArgument::Type(t) => ast_type(t),
                            g => a("unsupported", vec![jn(g)]),
                        })
                        .collect();
                    a("tapp", vec![ast_path(&p.path), J::A(args)])
                }
                _ => a("tpath", vec![ast_path(&p.path)]),
            }
        }
        syn::Type::ImplTrait(i) => a("timpl", vec![jn(&i.bounds)]),
        syn::Type::Tuple(t) if t.elems.is_empty() => a("tunit", vec![]),
        syn::Type::Tuple(t) => a("ttuple", vec![J::A(t.elems.iter().map(ast_type).collect())]),
        t => a("unsupported", vec![jn(t)]),
    }
}

fn ast_pat(p: &syn::Pat) -> J {
    match p {
        syn::Pat::Ident(i) if i.subpat.is_none() => a("pid", vec![s(&i.ident)]),
        syn::Pat::Wild(_) => a("wild", vec![]),
        syn::Pat::Tuple(t) => a("ptuple", vec![J::A(t.elems.iter().map(ast_pat).collect())]),
        syn::Pat::Rest(_) => a("rest", vec![]),
        syn::Pat::TupleStruct(t) => a("pts", vec![ast_path(&t.path), J::A(t.elems.iter().map(ast_pat).collect())]),
        syn::Pat::Path(pp) => a("ppath", vec![ast_path(&pp.path)]),
        syn::Pat::Or(o) => a("por", vec![J::A(o.cases.iter().map(ast_pat).collect())]),
        syn::Pat::Reference(r) => ast_pat(&r.pat),
        syn::Pat::Paren(r) => ast_pat(&r.pat),
        syn::Pat::Type(t) => ast_pat(&t.pat),
        syn::Pat::Lit(l) => a("plit", vec![ast_expr(&syn::Expr::Lit(l.clone()))]),
        syn::Pat::Struct(st) if st.qself.is_none() => a(
            "pstruct",
            vec![
                ast_path(&st.path),
                J::A(st.fields
                    .iter()
                    .map(|f| match &f.member {
                        syn::Member::Named(n) => J::A(vec![s(n), ast_pat(&f.pat)]),
                        m => a("unsupported", vec![jn(m)]),
                    })
                    .collect()),
                J::B(st.rest.is_some()),
            ],
        ),
        p => a("unsupported", vec![jn(p)]),
    }
}

fn ast_block(b: &syn::Block) -> J {
    J::A(b.stmts.iter().map(ast_stmt).collect())
}

struct ForRange {
    var: syn::Ident,
    lo: syn::Expr,
    hi: syn::Expr,
    body: Vec<syn::Stmt>,
}

impl syn::parse::Parse for ForRange {
    fn parse(input: syn::parse::ParseStream) -> syn::Result<Self> {
        let var: syn::Ident = input.parse()?;
        input.parse::<syn::Token![in]>()?;
        let range: syn::ExprRange = input.parse()?;
        input.parse::<syn::Token![=>]>()?;
        let body = syn::Block::parse_within(input)?;
        match (range.start, range.end, range.limits) {
            (Some(lo), Some(hi), syn::RangeLimits::HalfOpen(_)) => Ok(ForRange { var, lo: *lo, hi: *hi, body }),
            _ => Err(input.error("for_range!: expected lo..hi")),
        }
    }
}

fn ast_macro(m: &syn::Macro) -> J {
    let name = m.path.segments.last().map(|x| x.ident.to_string()).unwrap_or_default();
    match name.as_str() {
        "panic" | "unreachable" => a("panic", vec![s(&name)]),
        "quote" => a("quote", vec![s(norm(&m.tokens))]),
        "assert" => match m.parse_body::<syn::Expr>() {
            Ok(e) => a("assert", vec![ast_expr(&e)]),
            Err(_) => a("unsupported", vec![jn(m)]),
        },
        "emit_error" => {
            // the first string literal among the arguments is the message
            // the message and the literal notes, in order (notes built with format! are not literals and are left out)
            let mut parts: Vec<String> = vec![];
            for tt in m.tokens.clone() {
                if let proc_macro2::TokenTree::Literal(l) = &tt {
                    if let Ok(ls) = syn::parse_str::<syn::LitStr>(&l.to_string()) {
                        parts.push(ls.value());
                    }
                }
            }
            a("emit_error", vec![s(parts.join(" | "))])
        }
        "format" => {
            struct F(syn::LitStr);
            impl syn::parse::Parse for F {
                fn parse(input: syn::parse::ParseStream) -> syn::Result<Self> {
                    let l: syn::LitStr = input.parse()?;
                    let _rest: proc_macro2::TokenStream = input.parse()?;
                    Ok(F(l))
                }
            }
            match m.parse_body::<F>() {
                Ok(F(l)) => a("format", vec![s(l.value())]),
                Err(_) => a("unsupported", vec![jn(m)]),
            }
        }
        "matches" => {
            struct M(syn::Expr, syn::Pat);
            impl syn::parse::Parse for M {
                fn parse(input: syn::parse::ParseStream) -> syn::Result<Self> {
                    let e: syn::Expr = input.parse()?;
                    input.parse::<syn::Token![,]>()?;
                    let p = syn::Pat::parse_multi_with_leading_vert(input)?;
                    if !input.is_empty() {
                        return Err(input.error("matches! with a guard"));
                    }
                    Ok(M(e, p))
                }
            }
            match m.parse_body::<M>() {
                Ok(M(e, p)) => a("matches", vec![ast_expr(&e), ast_pat(&p)]),
                Err(_) => a("unsupported", vec![jn(m)]),
            }
        }
        "vec" => match m.parse_body_with(syn::punctuated::Punctuated::<syn::Expr, syn::Token![,]>::parse_terminated) {
            Ok(es) => a("vec", vec![J::A(es.iter().map(ast_expr).collect())]),
            Err(_) => a("unsupported", vec![jn(m)]),
        },
        "for_range" => match m.parse_body::<ForRange>() {
            Ok(f) => a(
                "for_range",
                vec![s(&f.var), ast_expr(&f.lo), ast_expr(&f.hi), J::A(f.body.iter().map(ast_stmt).collect())],
            ),
            Err(e) => a("unsupported", vec![s(format!("for_range!: {}", e))]),
        },
        _ => a("unsupported", vec![jn(m)]),
    }
}

fn ast_binop(op: &syn::BinOp) -> String {
    norm(op)
}

fn ast_expr(e: &syn::Expr) -> J {
    use syn::Expr as E;
    match e {
        E::Lit(l) => match &l.lit {
            syn::Lit::Int(i) => a("int", vec![s(i.base10_digits())]),
            syn::Lit::Bool(b) => a("bool", vec![J::B(b.value)]),
            syn::Lit::Str(x) => a("str", vec![s(x.value())]),
            syn::Lit::Char(x) => a("char", vec![s(x.value())]),
            l => a("unsupported", vec![jn(l)]),
        },
        E::Path(p) if p.qself.is_none() => a("path", vec![ast_path(&p.path)]),
        E::Call(c) => a("call", vec![ast_expr(&c.func), J::A(c.args.iter().map(ast_expr).collect())]),
        E::MethodCall(c) => a(
            "mcall",
            vec![
                ast_expr(&c.receiver),
                s(&c.method),
                J::A(c.args.iter().map(ast_expr).collect()),
                c.turbofish.as_ref().map(|t| jn(&t.args)).unwrap_or(J::Null),
            ],
        ),
        E::Index(i) => a("index", vec![ast_expr(&i.expr), ast_expr(&i.index)]),
        E::Binary(b) => a("bin", vec![s(ast_binop(&b.op)), ast_expr(&b.left), ast_expr(&b.right)]),
        E::Unary(u) => a("un", vec![s(norm(&u.op)), ast_expr(&u.expr)]),
        E::Reference(r) => a("ref", vec![ast_expr(&r.expr)]),
        E::Paren(p) => ast_expr(&p.expr),
        E::Group(p) => ast_expr(&p.expr),
        E::Let(l) => a("let", vec![ast_pat(&l.pat), ast_expr(&l.expr)]),
        E::If(i) => a(
            "if",
            vec![
                ast_expr(&i.cond),
                ast_block(&i.then_branch),
                i.else_branch.as_ref().map(|(_, e)| ast_expr(e)).unwrap_or(J::Null),
            ],
        ),
        E::Match(m) => a(
            "match",
            vec![
                ast_expr(&m.expr),
                J::A(m.arms
                    .iter()
                    .map(|arm| {
                        J::A(vec![
                            ast_pat(&arm.pat),
                            arm.guard.as_ref().map(|(_, g)| ast_expr(g)).unwrap_or(J::Null),
                            ast_expr(&arm.body),
                            J::A(arm.attrs.iter().filter(|x| !x.path().is_ident("doc")).map(|x| jn(&x.meta)).collect()),
                        ])
                    })
                    .collect()),
            ],
        ),
        E::Block(b) if b.label.is_none() => a("block", vec![ast_block(&b.block)]),
        E::While(w) if w.label.is_none() => a("while", vec![ast_expr(&w.cond), ast_block(&w.body)]),
        E::ForLoop(f) if f.label.is_none() => a("for", vec![ast_pat(&f.pat), ast_expr(&f.expr), ast_block(&f.body)]),
        E::Assign(x) => a("assign", vec![ast_expr(&x.left), ast_expr(&x.right)]),
        E::Repeat(r) => a("repeat", vec![ast_expr(&r.expr), ast_expr(&r.len)]),
        E::Array(x) => a("array", vec![J::A(x.elems.iter().map(ast_expr).collect())]),
        E::Return(r) => a("return", vec![r.expr.as_ref().map(|e| ast_expr(e)).unwrap_or(J::Null)]),
        E::Continue(c) if c.label.is_none() => a("continue", vec![]),
        E::Break(b) if b.label.is_none() && b.expr.is_none() => a("break", vec![]),
        E::Tuple(t) if t.elems.is_empty() => a("unit", vec![]),
        E::Tuple(t) => a("tuple", vec![J::A(t.elems.iter().map(ast_expr).collect())]),
        E::Field(f) => match &f.member {
            syn::Member::Named(n) => a("field", vec![ast_expr(&f.base), s(n)]),
            m => a("unsupported", vec![jn(m)]),
        },
        E::Struct(st) if st.qself.is_none() => a(
            "struct",
            vec![
                ast_path(&st.path),
                J::A(st.fields
                    .iter()
                    .map(|f| match &f.member {
                        syn::Member::Named(n) => J::A(vec![s(n), ast_expr(&f.expr)]),
                        m => a("unsupported", vec![jn(m)]),
                    })
                    .collect()),
                st.rest.as_ref().map(|r| ast_expr(r)).unwrap_or(J::Null),
            ],
        ),
        E::Macro(m) => ast_macro(&m.mac),
        E::Try(t) => a("try", vec![ast_expr(&t.expr)]),
        E::Closure(c) if c.capture.is_none() && c.asyncness.is_none() => {
            a("closure", vec![J::A(c.inputs.iter().map(ast_pat).collect()), ast_expr(&c.body)])
        }
        e => a("unsupported", vec![jn(e)]),
    }
}

fn ast_stmt(st: &syn::Stmt) -> J {
    match st {
        syn::Stmt::Local(l) => {
            let (init, has_else) = match &l.init {
                Some(i) => (ast_expr(&i.expr), i.diverge.is_some()),
                None => (J::Null, false),
            };
            if has_else {
                let els = l.init.as_ref().and_then(|i| i.diverge.as_ref()).map(|(_, e)| ast_expr(e)).unwrap_or(J::Null);
                a("sletelse", vec![ast_pat(&l.pat), init, els])
            } else {
                a("slet", vec![ast_pat(&l.pat), init])
            }
        }
        syn::Stmt::Expr(e, semi) => a("sexpr", vec![ast_expr(e), J::B(semi.is_some())]),
        syn::Stmt::Macro(m) => a("sexpr", vec![ast_macro(&m.mac), J::B(m.semi_token.is_some())]),
        syn::Stmt::Item(i) => a("unsupported", vec![jn(i)]),
    }
}

fn mode_ast(path: &str, out: &mut String) {
    let text = std::fs::read_to_string(path).unwrap();
    let file = match syn::parse_file(&text) {
        Ok(f) => f,
        Err(e) => {
            J::O(vec![("parse_error", s(e))]).write(out);
            return;
        }
    };
    let mut enums = vec![];
    let mut fns = vec![];
    let mut structs = vec![];
    let mut methods = vec![];
    let mut trait_methods = vec![];
    for it in &file.items {
        match it {
            syn::Item::Struct(st) => {
                let fields: Vec<J> = match &st.fields {
                    syn::Fields::Named(n) => n
                        .named
                        .iter()
                        .map(|f| {
                            J::A(vec![
                                s(f.ident.as_ref().unwrap()),
                                ast_type(&f.ty),
                                J::A(f.attrs.iter().filter(|x| !x.path().is_ident("doc")).map(|x| jn(&x.meta)).collect()),
                            ])
                        })
                        .collect(),
                    syn::Fields::Unit => vec![],
                    f => vec![a("unsupported", vec![jn(f)])],
                };
                structs.push(J::O(vec![
                    ("name", s(&st.ident)),
                    ("generics", jn(&st.generics)),
                    ("attrs", J::A(st.attrs.iter().filter(|x| !x.path().is_ident("doc")).map(|x| jn(&x.meta)).collect())),
                    ("fields", J::A(fields)),
                ]));
            }
            syn::Item::Impl(im) if im.trait_.is_none() => {
                let owner = match &*im.self_ty {
                    syn::Type::Path(p) => p.path.segments.last().map(|x| x.ident.to_string()).unwrap_or_default(),
                    t => norm(t),
                };
                for ii in &im.items {
                    if let syn::ImplItem::Fn(f) = ii {
                        let params: Vec<J> = f
                            .sig
                            .inputs
                            .iter()
                            .map(|x| match x {
                                syn::FnArg::Receiver(r) => J::A(vec![a("self", vec![J::B(r.reference.is_some()), J::B(r.mutability.is_some())]), a("tself", vec![])]),
                                syn::FnArg::Typed(t) => J::A(vec![ast_pat(&t.pat), ast_type(&t.ty)]),
                            })
                            .collect();
                        let ret = match &f.sig.output {
                            syn::ReturnType::Default => a("tunit", vec![]),
                            syn::ReturnType::Type(_, t) => ast_type(t),
                        };
                        methods.push(J::O(vec![
                            ("self_ty", jn(&im.self_ty)),
                            ("owner", s(&owner)),
                            ("name", s(&f.sig.ident)),
                            ("attrs", J::A(f.attrs.iter().filter(|x| !x.path().is_ident("doc")).map(|x| jn(&x.meta)).collect())),
                            ("generics", jn(&f.sig.generics)),
                            ("params", J::A(params)),
                            ("ret", ret),
                            ("body", ast_block(&f.block)),
                        ]));
                    }
                }
            }
            syn::Item::Impl(im) if im.trait_.is_some() => {
                let owner = match &*im.self_ty {
                    syn::Type::Path(p) => p.path.segments.last().map(|x| x.ident.to_string()).unwrap_or_default(),
                    t => norm(t),
                };
                let tr = im.trait_.as_ref().map(|(_, p, _)| p.segments.last().map(|x| x.ident.to_string()).unwrap_or_default()).unwrap_or_default();
                for ii in &im.items {
                    if let syn::ImplItem::Fn(f) = ii {
                        let params: Vec<J> = f
                            .sig
                            .inputs
                            .iter()
                            .map(|x| match x {
                                syn::FnArg::Receiver(r) => J::A(vec![a("self", vec![J::B(r.reference.is_some()), J::B(r.mutability.is_some())]), ast_type(&im.self_ty)]),
                                syn::FnArg::Typed(t) => J::A(vec![ast_pat(&t.pat), ast_type(&t.ty)]),
                            })
                            .collect();
                        let ret = match &f.sig.output {
                            syn::ReturnType::Default => a("tunit", vec![]),
                            syn::ReturnType::Type(_, t) => ast_type(t),
                        };
                        trait_methods.push(J::O(vec![
                            ("impl_fns", J::A(im.items.iter().filter_map(|x| if let syn::ImplItem::Fn(f) = x { Some(s(&f.sig.ident)) } else { None }).collect())),
                            ("owner", s(&owner)),
                            ("trait", s(&tr)),
                            ("self_ty", ast_type(&im.self_ty)),
                            ("name", s(&f.sig.ident)),
                            ("attrs", J::A(f.attrs.iter().chain(im.attrs.iter()).filter(|x| !x.path().is_ident("doc")).map(|x| jn(&x.meta)).collect())),
                            ("impl_generics", jn(&im.generics)),
                            ("generics", jn(&f.sig.generics)),
                            ("params", J::A(params)),
                            ("ret", ret),
                            ("body", ast_block(&f.block)),
                        ]));
                    }
                }
            }
            syn::Item::Enum(e) => {
                let vars = e
                    .variants
                    .iter()
                    .map(|v| {
                        let fields: Vec<J> = match &v.fields {
                            syn::Fields::Unnamed(u) => u.unnamed.iter().map(|f| ast_type(&f.ty)).collect(),
                            syn::Fields::Unit => vec![],
                            syn::Fields::Named(_) => vec![a("unsupported", vec![jn(&v.fields)])],
                        };
                        J::A(vec![s(&v.ident), J::A(fields)])
                    })
                    .collect();
                enums.push(J::O(vec![("name", s(&e.ident)), ("variants", J::A(vars))]));
            }
            syn::Item::Fn(f) => {
                let consts: Vec<J> = f
                    .sig
                    .generics
                    .params
                    .iter()
                    .map(|g| match g {
                        syn::GenericParam::Const(c) => J::A(vec![s("const"), s(&c.ident), ast_type(&c.ty)]),
                        g => a("unsupported", vec![jn(g)]),
                    })
                    .collect();
                let params: Vec<J> = f
                    .sig
                    .inputs
                    .iter()
                    .map(|x| match x {
                        syn::FnArg::Typed(t) => J::A(vec![ast_pat(&t.pat), ast_type(&t.ty)]),
                        x => a("unsupported", vec![jn(x)]),
                    })
                    .collect();
                let ret = match &f.sig.output {
                    syn::ReturnType::Default => a("tunit", vec![]),
                    syn::ReturnType::Type(_, t) => ast_type(t),
                };
                fns.push(J::O(vec![
                    ("name", s(&f.sig.ident)),
                    ("is_const", J::B(f.sig.constness.is_some())),
                    ("generics", J::A(consts)),
                    ("params", J::A(params)),
                    ("ret", ret),
                    ("body", ast_block(&f.block)),
                ]));
            }
            _ => {}
        }
    }
    J::O(vec![("enums", J::A(enums)), ("fns", J::A(fns)), ("structs", J::A(structs)), ("methods", J::A(methods)), ("trait_methods", J::A(trait_methods))]).write(out);
    out.push('\n');
}
