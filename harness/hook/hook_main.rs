// Verification harness compiled *into* sylvia-derive's test build through the `verif-hook` feature
// (see sylvia-derive/src/lib.rs, mod verif_hook). It can therefore call the private expanders
// `contract_impl`, `interface_impl`, `entry_points_impl` on proc_macro2 token streams in-process.
//
// Modes (env VERIF_HOOK_MODE), input VERIF_HOOK_IN, output VERIF_HOOK_OUT:
//   expand   - expand every program of the input file, print one JSON line of semantic facts each
//   extract  - translator: parse sylvia-derive/src/**/*.rs and print the decision tables / templates
//
// Input format of `expand` (plain text, no JSON parser needed here):
//   @@ <id> <contract|interface|entry_points>
//   <macro attribute tokens, one line, may be empty>
//   <item source, any number of lines>
use proc_macro2::TokenStream as TS;
use quote::ToTokens;
use std::cell::RefCell;
use std::fmt::Write as _;
use std::panic::{catch_unwind, panic_any, AssertUnwindSafe};

// ------------------------------------------------------------------------------------------------
// tiny JSON writer
// ------------------------------------------------------------------------------------------------
#[derive(Clone)]
enum J {
    S(String),
    B(bool),
    N(i64),
    A(Vec<J>),
    O(Vec<(&'static str, J)>),
    Null,
}

impl J {
    fn write(&self, out: &mut String) {
        match self {
            J::S(s) => {
                out.push('"');
                for c in s.chars() {
                    match c {
                        '"' => out.push_str("\\\""),
                        '\\' => out.push_str("\\\\"),
                        '\n' => out.push_str("\\n"),
                        '\r' => out.push_str("\\r"),
                        '\t' => out.push_str("\\t"),
                        c if (c as u32) < 0x20 => {
                            let _ = write!(out, "\\u{:04x}", c as u32);
                        }
                        c => out.push(c),
                    }
                }
                out.push('"');
            }
            J::B(b) => out.push_str(if *b { "true" } else { "false" }),
            J::N(n) => {
                let _ = write!(out, "{}", n);
            }
            J::Null => out.push_str("null"),
            J::A(v) => {
                out.push('[');
                for (i, x) in v.iter().enumerate() {
                    if i > 0 {
                        out.push(',');
                    }
                    x.write(out);
                }
                out.push(']');
            }
            J::O(v) => {
                out.push('{');
                for (i, (k, x)) in v.iter().enumerate() {
                    if i > 0 {
                        out.push(',');
                    }
                    J::S(k.to_string()).write(out);
                    out.push(':');
                    x.write(out);
                }
                out.push('}');
            }
        }
    }
}

fn s(x: impl ToString) -> J {
    J::S(x.to_string())
}

/// token string with all white space removed (both sides of every comparison use this form)
fn norm(t: &impl ToTokens) -> String {
    t.to_token_stream().to_string().chars().filter(|c| !c.is_whitespace()).collect()
}

fn jn(t: &impl ToTokens) -> J {
    J::S(norm(t))
}

// ------------------------------------------------------------------------------------------------
// running an expander under proc_macro_error's entry point
// ------------------------------------------------------------------------------------------------
thread_local! { static STASH: RefCell<Option<TS>> = RefCell::new(None); }
struct Done;

/// returns (output tokens if the expander returned, status) with status clean | dirty | panic:<msg>
fn run(f: impl FnOnce() -> TS) -> (Option<TS>, String) {
    STASH.with(|s| *s.borrow_mut() = None);
    let r = catch_unwind(AssertUnwindSafe(|| {
        proc_macro_error::entry_point(
            AssertUnwindSafe(|| {
                let ts = f();
                STASH.with(|s| *s.borrow_mut() = Some(ts));
                proc_macro_error::abort_if_dirty();
                panic_any(Done)
            }),
            false,
        )
    }));
    let ts = STASH.with(|s| s.borrow_mut().take());
    let status = match r {
        Ok(_) => "dirty".to_string(),
        Err(b) => {
            if b.is::<Done>() {
                "clean".to_string()
            } else {
                let msg = b
                    .downcast_ref::<&str>()
                    .map(|s| s.to_string())
                    .or_else(|| b.downcast_ref::<String>().cloned())
                    .unwrap_or_else(|| "?".into());
                if msg.contains("outside of a procedural macro") {
                    "dirty".to_string()
                } else {
                    format!("panic:{}", msg)
                }
            }
        }
    };
    (ts, status)
}

// ------------------------------------------------------------------------------------------------
// semantic facts of an expansion
// ------------------------------------------------------------------------------------------------
fn attrs_j(attrs: &[syn::Attribute]) -> J {
    J::A(attrs.iter().map(|a| jn(&a.meta)).collect())
}

fn generics_j(g: &syn::Generics) -> (J, J) {
    let params = J::A(g.params.iter().map(|p| jn(p)).collect());
    let wh = J::A(
        g.where_clause
            .as_ref()
            .map(|w| w.predicates.iter().map(|p| jn(p)).collect())
            .unwrap_or_default(),
    );
    (params, wh)
}

fn fields_j(f: &syn::Fields) -> J {
    J::A(f.iter()
        .map(|f| {
            J::O(vec![
                ("name", f.ident.as_ref().map(|i| s(i)).unwrap_or(J::Null)),
                ("ty", jn(&f.ty)),
                ("vis", jn(&f.vis)),
                ("attrs", attrs_j(&f.attrs)),
            ])
        })
        .collect())
}

fn sig_j(sig: &syn::Signature) -> Vec<(&'static str, J)> {
    let (gp, gw) = generics_j(&sig.generics);
    let inputs = J::A(sig
        .inputs
        .iter()
        .map(|a| match a {
            syn::FnArg::Receiver(r) => J::O(vec![("name", s("self")), ("ty", jn(r)), ("attrs", attrs_j(&r.attrs))]),
            syn::FnArg::Typed(t) => J::O(vec![("name", jn(&t.pat)), ("ty", jn(&t.ty)), ("attrs", attrs_j(&t.attrs))]),
        })
        .collect());
    vec![
        ("name", s(&sig.ident)),
        ("constness", J::B(sig.constness.is_some())),
        ("generics", gp),
        ("where", gw),
        ("inputs", inputs),
        ("output", match &sig.output {
            syn::ReturnType::Default => J::Null,
            syn::ReturnType::Type(_, t) => jn(t),
        }),
    ]
}

fn item_j(it: &syn::Item) -> J {
    use syn::Item::*;
    match it {
        Mod(m) => J::O(vec![
            ("k", s("mod")),
            ("name", s(&m.ident)),
            ("attrs", attrs_j(&m.attrs)),
            ("items", J::A(m.content.as_ref().map(|(_, v)| v.iter().map(item_j).collect()).unwrap_or_default())),
        ]),
        Enum(e) => {
            let (gp, gw) = generics_j(&e.generics);
            J::O(vec![
                ("k", s("enum")),
                ("name", s(&e.ident)),
                ("vis", jn(&e.vis)),
                ("attrs", attrs_j(&e.attrs)),
                ("generics", gp),
                ("where", gw),
                ("variants", J::A(e.variants.iter().map(|v| {
                    J::O(vec![
                        ("name", s(&v.ident)),
                        ("attrs", attrs_j(&v.attrs)),
                        ("shape", s(match v.fields { syn::Fields::Named(_) => "named", syn::Fields::Unnamed(_) => "tuple", syn::Fields::Unit => "unit" })),
                        ("fields", fields_j(&v.fields)),
                    ])
                }).collect())),
            ])
        }
        Struct(st) => {
            let (gp, gw) = generics_j(&st.generics);
            J::O(vec![
                ("k", s("struct")),
                ("name", s(&st.ident)),
                ("vis", jn(&st.vis)),
                ("attrs", attrs_j(&st.attrs)),
                ("generics", gp),
                ("where", gw),
                ("fields", fields_j(&st.fields)),
            ])
        }
        Fn(f) => {
            let mut v = vec![("k", s("fn")), ("vis", jn(&f.vis)), ("attrs", attrs_j(&f.attrs))];
            v.extend(sig_j(&f.sig));
            v.push(("body", jn(&f.block)));
            J::O(v)
        }
        Const(c) => J::O(vec![
            ("k", s("const")),
            ("name", s(&c.ident)),
            ("ty", jn(&c.ty)),
            ("value", jn(&c.expr)),
        ]),
        Trait(t) => {
            let (gp, gw) = generics_j(&t.generics);
            J::O(vec![
                ("k", s("trait")),
                ("name", s(&t.ident)),
                ("attrs", attrs_j(&t.attrs)),
                ("generics", gp),
                ("where", gw),
                ("items", J::A(t.items.iter().map(|ti| match ti {
                    syn::TraitItem::Fn(f) => {
                        let mut v = vec![("k", s("fn")), ("attrs", attrs_j(&f.attrs))];
                        v.extend(sig_j(&f.sig));
                        v.push(("body", f.default.as_ref().map(|b| jn(b)).unwrap_or(J::Null)));
                        J::O(v)
                    }
                    syn::TraitItem::Type(ty) => J::O(vec![("k", s("type")), ("name", s(&ty.ident)), ("tokens", jn(ty))]),
                    other => J::O(vec![("k", s("other")), ("tokens", jn(other))]),
                }).collect())),
            ])
        }
        Impl(i) => {
            let (gp, gw) = generics_j(&i.generics);
            J::O(vec![
                ("k", s("impl")),
                ("attrs", attrs_j(&i.attrs)),
                ("generics", gp),
                ("where", gw),
                ("trait", i.trait_.as_ref().map(|(_, p, _)| jn(p)).unwrap_or(J::Null)),
                ("self_ty", jn(&i.self_ty)),
                ("items", J::A(i.items.iter().map(|ii| match ii {
                    syn::ImplItem::Fn(f) => {
                        let mut v = vec![("k", s("fn")), ("vis", jn(&f.vis)), ("attrs", attrs_j(&f.attrs))];
                        v.extend(sig_j(&f.sig));
                        v.push(("body", jn(&f.block)));
                        J::O(v)
                    }
                    syn::ImplItem::Type(ty) => J::O(vec![("k", s("type")), ("name", s(&ty.ident)), ("ty", jn(&ty.ty)), ("generics", generics_j(&ty.generics).0)]),
                    syn::ImplItem::Const(c) => J::O(vec![("k", s("const")), ("name", s(&c.ident)), ("value", jn(&c.expr))]),
                    other => J::O(vec![("k", s("other")), ("tokens", jn(other))]),
                }).collect())),
            ])
        }
        Type(t) => J::O(vec![
            ("k", s("type")),
            ("name", s(&t.ident)),
            ("generics", generics_j(&t.generics).0),
            ("ty", jn(&t.ty)),
        ]),
        Use(u) => J::O(vec![("k", s("use")), ("tokens", jn(u))]),
        other => J::O(vec![("k", s("other")), ("tokens", jn(other))]),
    }
}

// ------------------------------------------------------------------------------------------------
// independent statement of the pass-through rule (C13): what the first emitted item must be
// ------------------------------------------------------------------------------------------------
const SV_ATTRS: [&str; 10] = [
    "custom", "error", "messages", "msg", "override_entry_point", "attr", "msg_attr", "payload", "data", "features",
];

fn is_sv(a: &syn::Attribute) -> bool {
    let segs = &a.path().segments;
    segs.len() == 2 && segs[0].ident == "sv" && SV_ATTRS.iter().any(|n| segs[1].ident == n)
}

fn spec_strip_sig(attrs: &mut Vec<syn::Attribute>, sig: &mut syn::Signature) {
    let handler = attrs.iter().any(|a| {
        let segs = &a.path().segments;
        segs.len() == 2 && segs[0].ident == "sv" && segs[1].ident == "msg"
    });
    attrs.retain(|a| !is_sv(a));
    if handler {
        for inp in sig.inputs.iter_mut() {
            match inp {
                syn::FnArg::Receiver(r) => r.attrs.clear(),
                syn::FnArg::Typed(t) => t.attrs.clear(),
            }
        }
    }
}

fn spec_strip_impl(mut i: syn::ItemImpl) -> syn::ItemImpl {
    i.attrs.retain(|a| !is_sv(a));
    for it in i.items.iter_mut() {
        if let syn::ImplItem::Fn(f) = it {
            spec_strip_sig(&mut f.attrs, &mut f.sig);
        }
    }
    i
}

fn spec_strip_trait(mut t: syn::ItemTrait) -> syn::ItemTrait {
    t.attrs.retain(|a| !is_sv(a));
    for it in t.items.iter_mut() {
        if let syn::TraitItem::Fn(f) = it {
            spec_strip_sig(&mut f.attrs, &mut f.sig);
        }
    }
    t
}

/// a trailing comma after the last parameter is not part of "the item as written": drop it on both sides
fn no_trailing_comma_impl(mut i: syn::ItemImpl) -> syn::ItemImpl {
    for it in i.items.iter_mut() {
        if let syn::ImplItem::Fn(f) = it {
            f.sig.inputs.pop_punct();
        }
    }
    i
}

fn no_trailing_comma_trait(mut t: syn::ItemTrait) -> syn::ItemTrait {
    for it in t.items.iter_mut() {
        if let syn::TraitItem::Fn(f) = it {
            f.sig.inputs.pop_punct();
        }
    }
    t
}

/// first difference between the emitted first item and the required one, as text
fn passthrough(kind: &str, input: &TS, first: Option<&syn::Item>) -> J {
    let Some(first) = first else { return s("no-first-item") };
    let want: String;
    let got: String;
    match kind {
        "contract" => {
            let Ok(inp) = syn::parse2::<syn::ItemImpl>(input.clone()) else { return s("input-unparsable") };
            want = norm(&no_trailing_comma_impl(spec_strip_impl(inp)));
            let syn::Item::Impl(out) = first else { return s("first-item-not-impl") };
            let mut out = out.clone();
            // the macro prepends exactly one lint attribute of its own
            if let Some(a) = out.attrs.first() {
                if norm(&a.meta) == "allow(clippy::new_without_default)" {
                    out.attrs.remove(0);
                }
            }
            got = norm(&no_trailing_comma_impl(out));
        }
        "interface" => {
            let Ok(inp) = syn::parse2::<syn::ItemTrait>(input.clone()) else { return s("input-unparsable") };
            want = norm(&no_trailing_comma_trait(spec_strip_trait(inp)));
            let syn::Item::Trait(out) = first else { return s("first-item-not-trait") };
            got = norm(&no_trailing_comma_trait(out.clone()));
        }
        _ => {
            let Ok(inp) = syn::parse2::<syn::ItemImpl>(input.clone()) else { return s("input-unparsable") };
            want = norm(&inp);
            got = norm(first);
        }
    }
    if want == got {
        return s("eq");
    }
    let w: Vec<char> = want.chars().collect();
    let g: Vec<char> = got.chars().collect();
    let mut i = 0;
    while i < w.len() && i < g.len() && w[i] == g[i] {
        i += 1;
    }
    let lo = i.saturating_sub(40);
    let wv: String = w[lo..(i + 60).min(w.len())].iter().collect();
    let gv: String = g[lo..(i + 60).min(g.len())].iter().collect();
    s(format!("diff want=...{} got=...{}", wv, gv))
}

fn expand_one(kind: &str, attr: &str, src: &str) -> J {
    let attr_ts: TS = match attr.parse() {
        Ok(t) => t,
        Err(e) => return J::O(vec![("status", s(format!("attr-lex-error:{}", e)))]),
    };
    let item_ts: TS = match src.parse() {
        Ok(t) => t,
        Err(e) => return J::O(vec![("status", s(format!("src-lex-error:{}", e)))]),
    };
    let call = |a: TS, i: TS| -> TS {
        match kind {
            "contract" => crate::contract_impl(a, i),
            "interface" => crate::interface_impl(a, i),
            _ => crate::entry_points_impl(a, i),
        }
    };
    let (ts, mut status) = run(|| call(attr_ts.clone(), item_ts.clone()));
    // a syn::Error returned by the front end comes back as `compile_error!{..}`: that is a rejection too
    if status == "clean" {
        if let Some(t) = &ts {
            let text: String = t.to_string().chars().filter(|c| !c.is_whitespace()).collect();
            if text.starts_with("::core::compile_error!") {
                status = "dirty".to_string();
            }
        }
    }
    let mut o = vec![("status", s(&status))];
    let level = std::env::var("VERIF_HOOK_LEVEL").unwrap_or_default();
    if level == "status" {
        return J::O(o);
    }
    if let Some(ts) = ts {
        // determinism inside one process: expand again, compare token strings
        let (ts2, status2) = run(|| call(attr_ts.clone(), item_ts.clone()));
        let same = status2 == status && ts2.map(|t| t.to_string()) == Some(ts.to_string());
        o.push(("deterministic", J::B(same)));
        let mut h: u64 = 0xcbf29ce484222325;
        for b in ts.to_string().bytes() {
            h ^= b as u64;
            h = h.wrapping_mul(0x100000001b3);
        }
        o.push(("hash", s(format!("{:016x}", h))));
        match syn::parse2::<syn::File>(ts.clone()) {
            Ok(f) => {
                o.push(("parsed", J::B(true)));
                o.push(("passthrough", passthrough(kind, &item_ts, f.items.first())));
                o.push(("first", f.items.first().map(item_j).unwrap_or(J::Null)));
                if level != "first" {
                    o.push(("items", J::A(f.items.iter().skip(1).map(item_j).collect())));
                }
            }
            Err(e) => {
                o.push(("parsed", J::B(false)));
                o.push(("parse_error", s(e)));
                o.push(("tokens", s(ts.to_string().chars().take(400).collect::<String>())));
            }
        }
    }
    J::O(o)
}

fn mode_expand(input: &str, out: &mut String) {
    let mut cur: Option<(String, String)> = None;
    let mut attr: Option<String> = None;
    let mut src = String::new();
    let flush = |cur: &Option<(String, String)>, attr: &Option<String>, src: &str, out: &mut String| {
        if let Some((id, kind)) = cur {
            let mut j = vec![("id", s(id)), ("kind", s(kind))];
            if let J::O(v) = expand_one(kind, attr.as_deref().unwrap_or(""), src) {
                j.extend(v);
            }
            J::O(j).write(out);
            out.push('\n');
        }
    };
    for line in input.lines() {
        if let Some(rest) = line.strip_prefix("@@ ") {
            flush(&cur, &attr, &src, out);
            let mut it = rest.split_whitespace();
            cur = Some((it.next().unwrap_or("").to_string(), it.next().unwrap_or("contract").to_string()));
            attr = None;
            src.clear();
        } else if cur.is_some() && attr.is_none() {
            attr = Some(line.to_string());
        } else {
            src.push_str(line);
            src.push('\n');
        }
    }
    flush(&cur, &attr, &src, out);
}

// ------------------------------------------------------------------------------------------------
// scan mode: every macro-annotated item of real source files (tests, examples)
// ------------------------------------------------------------------------------------------------
fn macro_kind(a: &syn::Attribute) -> Option<&'static str> {
    let last = a.path().segments.last()?.ident.to_string();
    match last.as_str() {
        "contract" => Some("contract"),
        "interface" => Some("interface"),
        "entry_points" => Some("entry_points"),
        _ => None,
    }
}

fn macro_args(a: &syn::Attribute) -> TS {
    match &a.meta {
        syn::Meta::List(l) => l.tokens.clone(),
        _ => TS::new(),
    }
}

fn scan_items(file: &str, items: &[syn::Item], n: &mut usize, out: &mut String) {
    for it in items {
        let (attrs, is_impl): (&Vec<syn::Attribute>, bool) = match it {
            syn::Item::Impl(i) => (&i.attrs, true),
            syn::Item::Trait(t) => (&t.attrs, false),
            syn::Item::Mod(m) => {
                if let Some((_, items)) = &m.content {
                    scan_items(file, items, n, out);
                }
                continue;
            }
            _ => continue,
        };
        for (idx, a) in attrs.iter().enumerate() {
            let Some(kind) = macro_kind(a) else { continue };
            if (kind == "interface") == is_impl {
                continue;
            }
            // the item as this macro receives it: attributes after this one stay attached
            let rest: Vec<syn::Attribute> = attrs.iter().skip(idx + 1).cloned().collect();
            let item_ts = match it {
                syn::Item::Impl(i) => {
                    let mut i = i.clone();
                    i.attrs = rest;
                    if kind == "contract" {
                        i.attrs.retain(|a| macro_kind(a).is_none());
                    }
                    i.to_token_stream()
                }
                syn::Item::Trait(t) => {
                    let mut t = t.clone();
                    t.attrs = rest;
                    t.to_token_stream()
                }
                _ => unreachable!(),
            };
            *n += 1;
            let mut j = vec![("id", s(format!("{}#{}", file, n))), ("kind", s(kind))];
            if let J::O(v) = expand_one(kind, &macro_args(a).to_string(), &item_ts.to_string()) {
                // keep the verdict fields only (the full facts of real sources are large)
                j.extend(v.into_iter().filter(|(k, _)| matches!(*k, "status" | "deterministic" | "hash" | "parsed" | "passthrough")));
            }
            J::O(j).write(out);
            out.push('\n');
        }
    }
}

fn mode_scan(list: &str, out: &mut String) {
    for path in list.lines().filter(|l| !l.trim().is_empty()) {
        let Ok(text) = std::fs::read_to_string(path) else { continue };
        match syn::parse_file(&text) {
            Ok(f) => {
                let mut n = 0;
                scan_items(path, &f.items, &mut n, out);
            }
            Err(e) => {
                J::O(vec![("id", s(path)), ("status", s(format!("file-unparsable:{}", e)))]).write(out);
                out.push('\n');
            }
        }
    }
}

include!(concat!(env!("SYLVIA_VERIF_HARNESS"), ".extract.rs"));

#[test]
fn verif_entry() {
    let mode = std::env::var("VERIF_HOOK_MODE").unwrap_or_default();
    let inp = std::env::var("VERIF_HOOK_IN").unwrap_or_default();
    let outp = std::env::var("VERIF_HOOK_OUT").unwrap_or_default();
    let prev = std::panic::take_hook();
    std::panic::set_hook(Box::new(|_| {}));
    let mut out = String::new();
    match mode.as_str() {
        "expand" => mode_expand(&std::fs::read_to_string(&inp).expect("input file"), &mut out),
        "extract" => mode_extract(&inp, &mut out),
        "ast" => mode_ast(&inp, &mut out),
        "scan" => mode_scan(&std::fs::read_to_string(&inp).expect("input file"), &mut out),
        "" => {}
        m => panic!("unknown VERIF_HOOK_MODE {}", m),
    }
    std::panic::set_hook(prev);
    if !outp.is_empty() {
        std::fs::write(&outp, out).expect("write output");
    }
}
