import Sylvia.Model.Inter
import Sylvia.Model.Casing
import Sylvia.Lemmas.Inter1
import Sylvia.Lemmas.Inter2
import Sylvia.Lemmas.Inter3
import Sylvia.Lemmas.Casing
