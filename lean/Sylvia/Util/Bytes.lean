import Lean
/-! `bytes! "text"` elaborates to the literal list of the text's UTF-8 bytes (`List Nat`), so that
specification constants written by hand can be compared with regenerated tables by `decide`. -/
open Lean in
macro "bytes!" s:str : term => do
  let bs := s.getString.toUTF8.toList.map (·.toNat)
  let elems := bs.toArray.map fun n => Syntax.mkNumLit (toString n)
  `(([$elems,*] : List Nat))
