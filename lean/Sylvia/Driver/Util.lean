import Sylvia.Model.Casing
/-! Text helpers for the line-protocol driver (not part of the verified model). -/
namespace Driver

def hexVal (c : Char) : Nat :=
  if c.isDigit then c.toNat - 48 else if 'a' ≤ c && c ≤ 'f' then c.toNat - 87 else c.toNat - 55

def unhexBytes (s : String) : List Nat :=
  let rec go : List Char → List Nat
    | a :: b :: t => (hexVal a * 16 + hexVal b) :: go t
    | _ => []
  go (match s.toList with | 'x' :: t => t | l => l)

def words (line : String) : List String := line.trimAscii.toString.splitOn " "

/-- split "op rest" at the first blank -/
def splitOp (line : String) : String × String :=
  let cs := line.toList
  let op := cs.takeWhile (· != ' ')
  let rest := (cs.dropWhile (· != ' ')).drop 1
  (String.ofList op, String.ofList rest)

open Casing Ch in
def chOfChar (c : Char) : Option Ch :=
  if 'a' ≤ c && c ≤ 'z' then some (lower ⟨(c.toNat - 97) % 26, by omega⟩)
  else if 'A' ≤ c && c ≤ 'Z' then some (upper ⟨(c.toNat - 65) % 26, by omega⟩)
  else if '0' ≤ c && c ≤ '9' then some (digit ⟨(c.toNat - 48) % 10, by omega⟩)
  else if c = '_' then some us else none

open Casing in
def identOfString (s : String) : Option (List Ch) := s.toList.mapM chOfChar

open Casing in
def identToString (s : List Ch) : String := Casing.toString s

end Driver
