import Sylvia.Driver.Ops
import Sylvia.Extracted.BridgeFns
/-! `intorespx`: the functions regenerated from sylvia/src/into_response.rs by the function translator, run on the same response
specifications as the real `IntoResponse` (L3 stream of C11) — validates the translator and the hand-written declarations of
the cosmwasm_std types in `RustExtern` on every run. Payloads are strings. -/
namespace Driver
open RustExtern

abbrev XS : Ext := ⟨String, String, String, String, String, String, String, String, String × String, String × List (String × String)⟩

def cosmosOf (kind content : String) : Option (CosmosMsg XS CwEmpty) :=
  match kind with
  | "bank" | "burn" => some (.Bank (kind ++ content)) | "wasm" | "wasm_inst" => some (.Wasm (kind ++ content))
  | "custom" => some (.Custom .mk) | "staking" => some (.Staking content) | "distribution" => some (.Distribution content)
  | "ibc" | "ibc_transfer" => some (.Ibc (kind ++ content)) | "gov" => some (.Gov content) | "any" => some (.Any content)
  | "stargate" => some (.Stargate "/t" content) | _ => none

def showCosmos {T : Type} : CosmosMsg XS T → String
  | .Bank a => "bank:" ++ a | .Custom _ => "custom" | .Staking a => "staking:" ++ a | .Distribution a => "distribution:" ++ a
  | .Stargate u v => "stargate:" ++ u ++ ":" ++ v | .Ibc a => "ibc:" ++ a | .Wasm a => "wasm:" ++ a | .Gov a => "gov:" ++ a
  | .Any a => "any:" ++ a

def showReplyOn : ReplyOn → String
  | .Always => "always" | .Error => "error" | .Success => "success" | .Never => "never"

def showSubX {T : Type} (m : SubMsg XS T) : String :=
  s!"{m.id}|{m.payload}|{showCosmos m.msg}|{m.gas_limit}|{showReplyOn m.reply_on}"

def showRespX {T : Type} (r : Response XS T) : String :=
  s!"{r.messages.map showSubX}#{r.attributes}#{r.events}#{r.data}"

/-- `intorespx <comma separated features> <spec>` -/
def opIntoRespX (rest : String) : String :=
  match splitN rest 2 with
  | [feats, spec] =>
    match parseJson spec with
    | none => "bad-spec"
    | some j =>
      let fs := feats.splitOn ","
      let feat : String → Bool := fun f => fs.contains f
      let msgs := (jarr (jget j "msgs")).filterMap fun m =>
        (cosmosOf (jstr (jget m "kind")) (jstr (jget m "n"))).map fun cm =>
          ({ id := jnat (jget m "id"), payload := jstr (jget m "payload"), msg := cm,
             gas_limit := match jget m "gas" with | .num t => t.toNat? | _ => none,
             reply_on := match jstr (jget m "reply_on") with
               | "always" => .Always | "success" => .Success | "error" => .Error | _ => .Never } : SubMsg XS CwEmpty)
      let r : Response XS CwEmpty :=
        { messages := msgs,
          attributes := (jarr (jget j "attrs")).map fun a => match a with | .arr [k, v] => (jstr k, jstr v) | _ => ("", ""),
          events := (jarr (jget j "events")).map fun e => match e with
            | .arr [t, .arr as] => (jstr t, as.map fun a => match a with | .arr [k, v] => (jstr k, jstr v) | _ => ("", ""))
            | _ => ("", []),
          data := match jget j "data" with | .str s => some s | _ => none }
      match Extracted.Bridge.Response.into_response (T := Nat) feat r with
      | .ok (.ok out) => "ok same=" ++ toString (showRespX out == showRespX r) ++ " msgs=" ++ toString out.messages.length
      | .ok (.error (.generic_err m)) =>
        if m.startsWith "Unknown message variant" then "err unknown-variant" else "err Generic error: " ++ m
      | .panic => "panic"
      | .oof => "fuel"
  | _ => "bad-op"

end Driver
