import Sylvia.Driver.ProgParse
import Sylvia.Model.EntryPoints
import Sylvia.Model.Strip
import Sylvia.Model.Dispatch
import Sylvia.Model.Runtime
/-! Driver operations over the current program. -/
namespace Driver
open Sylvia Gen

structure State where
  contract : Contract := default
  ifaces : List (String × Interface) := []   -- by module name
  deriving Inhabited

def jsonStrList (xs : List String) : Json := .arr (xs.map .str)

def opEp (st : State) : String :=
  let c := st.contract
  let replyFn := identToString ((firstReplyFn c).getD [])
  let fns := (entryPoints c).map fun k =>
    Json.obj [("name", .str (strOfBytes (epFn k).fnName)),
              ("params", jsonStrList ((epFn k).params.map strOfBytes)),
              ("msg", .str (epMsgText c k)),
              ("body", .str (epBodyText c k replyFn))]
  (Json.arr fns).render

def attrSOf (j : Json) : Strip.AttrS := { path := (jarr (jget j "path")).map jstr, text := jstr (jget j "text") }

def itemSOf (j : Json) : Strip.ItemS :=
  { attrs := (jarr (jget j "attrs")).map attrSOf,
    methods := (jarr (jget j "methods")).map fun m =>
      { attrs := (jarr (jget m "attrs")).map attrSOf,
        params := (jarr (jget m "params")).map fun p => { attrs := (jarr (jget p "attrs")).map attrSOf, text := jstr (jget p "text") },
        rest := jstr (jget m "rest") },
    rest := "" }

def opStrip (rest : String) : String :=
  match parseJson rest with
  | none => "bad-json"
  | some j =>
    let i := Strip.strip (itemSOf j)
    (Json.obj [("attrs", jsonStrList (i.attrs.map (·.text))),
      ("methods", .arr (i.methods.map fun m => Json.obj [
        ("name", .str m.rest), ("attrs", jsonStrList (m.attrs.map (·.text))),
        ("params", .arr (m.params.map fun p => Json.obj [("text", .str p.text), ("attrs", jsonStrList (p.attrs.map (·.text)))]))]))]).render

def progOf (st : State) : Gen.Program := { contract := st.contract, ifaces := st.ifaces }

/-- first n-1 blank-separated words, then the rest of the line -/
def splitNGo : Nat → String → List String
  | 0, _ => []
  | 1, s => [s]
  | n + 1, s => let (a, r) := splitOp s; a :: splitNGo n r

def splitN (s : String) (n : Nat) : List String := splitNGo n s

def opLists (st : State) (kind : String) : String :=
  match kindOfWord kind with
  | some k => "|".intercalate ((Gen.parts k (progOf st)).map fun p => ",".intercalate p.published)
  | none => "bad-op"

/-- message type of part `i` for kind `k` (struct kinds only exist on the contract part) -/
def opDe (st : State) (rest : String) : String :=
  match splitN rest 3 with
  | [part, kind, json] =>
    match kindOfWord kind, parseJsonPrefix json with
    | some k, some (d, trailing) =>
      if trailing then "err" else
      let p := progOf st
      let i := part.toNat?.getD 0
      if k = .instantiate ∨ k = .migrate then
        match Gen.variantsOf k p.contract.methods with
        | m :: _ =>
          match Serde.decodeStruct false (m.args.map Gen.fieldSpec) d with
          | some fs => "ok " ++ (Json.obj fs).render
          | none => "err"
        | [] => "bad-op"
      else
        match (Gen.parts k p)[i]? with
        | some ps =>
          match Serde.decodeEnum false ps.variants d with
          | some (v, fs) => "ok " ++ (Serde.encodeEnum ps.variants v fs).render
          | none => "err"
        | none => "bad-op"
    | some _, none => "err"
    | _, _ => "bad-op"
  | _ => "bad-op"

def opDew (st : State) (rest : String) : String :=
  match splitN rest 2 with
  | [kind, json] =>
    match kindOfWord kind, parseJsonPrefix json with
    | some k, some (d, trailing) =>
      let ps := Gen.parts k (progOf st)
      match Serde.wrapperDecode ps d with
      | .ok i v fs => if trailing then "err" else "ok " ++ ((ps[i]?.map (·.label)).getD "?") ++ " " ++ (Serde.encodeEnum ((ps[i]?.map (·.variants)).getD []) v fs).render
      | r => Dispatch.wrapErrText r
    | some _, none => "err"
    | _, _ => "bad-op"
  | _ => "bad-op"

def opDisp (st : State) (rest : String) : String :=
  match splitN rest 7 with
  | [kind, fail, sender, amount, height, seed, json] =>
    match kindOfWord kind with
    | some k =>
      let p := progOf st
      let c : Dispatch.CtxIn := { sender := sender, funds := amount, height := height, seed := seed, fail := fail }
      match parseJsonPrefix json with
      | some (d, trailing) =>
        match Dispatch.route p k d c with
        | .ran call m i => if trailing then "de-err" else Dispatch.showOutcome p (.ran call m i)
        | o => Dispatch.showOutcome p o
      | none => "de-err"
    | none => "bad-op"
  | _ => "bad-op"

/-- `ser <part> <kind> <method> <args array>`: the value a constructor builds, printed -/
def opSer (st : State) (rest : String) : String :=
  match splitN rest 4 with
  | [part, kind, method, json] =>
    match kindOfWord kind, parseJson json with
    | some k, some (.arr vals) =>
      let p := progOf st
      let i := part.toNat?.getD 0
      let ms := if k = .instantiate ∨ k = .migrate then Gen.variantsOf k p.contract.methods
                else ((Gen.partMethods k p)[i]?).getD []
      match ms.find? (fun m => Casing.toString m.name == method) with
      | some m =>
        let specs := m.args.map Gen.fieldSpec
        if specs.length != vals.length then "bad-args" else
        match (specs.zip vals).mapM (fun (f, v) => (Serde.decodeVal false f.ty v).map fun v' => (f.name, v')) with
        | some fs =>
          if k = .instantiate ∨ k = .migrate then "ok " ++ (Json.obj fs).render ++ " true"
          else "ok " ++ (Json.obj [(Gen.wireName m, .obj fs)]).render ++ " true"
        | none => "bad-args"
      | none => "bad-op"
    | _, _ => "bad-op"
  | _ => "bad-op"

def utf8OfHex (s : String) : String :=
  (String.fromUTF8? (ByteArray.mk ((unhexBytes s).map (·.toUInt8)).toArray)).getD ""

def opRemote (rest : String) : String :=
  match splitN rest 3 with
  | [_idx, mode, addr] =>
    let r : Runtime.Remote Unit := { addr := utf8OfHex addr, own := if mode == "owned" then .owned else .borrowed }
    let back := ((Runtime.Remote.decode Unit r.encode).map (·.addr)) == some r.addr
    r.encode.render ++ " back=" ++ toString back ++ " schema=" ++ Runtime.Remote.schemaName Unit
  | _ => "bad-op"

def opRemoteDe (rest : String) : String :=
  match splitN rest 2 with
  | [_idx, json] =>
    match parseJsonPrefix json with
    | some (d, false) =>
      match Runtime.Remote.decode Unit d with
      | some r => "ok " ++ (Json.str r.addr).render
      | none => "err"
    | _ => "err"
  | _ => "bad-op"

def msgKindOf : String → Option Runtime.MsgKind
  | "bank" | "burn" => some .bank | "wasm" | "wasm_inst" => some .wasm | "custom" => some .custom
  | "staking" => some .staking | "distribution" => some .distribution | "ibc" | "ibc_transfer" => some .ibc
  | "gov" => some .gov | "any" => some .any | "stargate" => some .stargate | _ => none

def opIntoResp (rest : String) : String :=
  match parseJson rest with
  | none => "bad-spec"
  | some j =>
    let msgs := (jarr (jget j "msgs")).filterMap fun m =>
      (msgKindOf (jstr (jget m "kind"))).map fun k =>
        ({ id := jnat (jget m "id"), payload := jstr (jget m "payload"), kind := k, content := jstr (jget m "n"),
           gasLimit := match jget m "gas" with | .num t => t.toNat? | _ => none,
           replyOn := match jstr (jget m "reply_on") with
             | "always" => .always | "success" => .success | "error" => .error | _ => .never } : Runtime.SubMsg)
    let r : Runtime.Response :=
      { messages := msgs,
        attributes := (jarr (jget j "attrs")).map fun a => match a with | .arr [k, v] => (jstr k, jstr v) | _ => ("", ""),
        events := (jarr (jget j "events")).map fun e => match e with
          | .arr [t, .arr as] => (jstr t, as.map fun a => match a with | .arr [k, v] => (jstr k, jstr v) | _ => ("", ""))
          | _ => ("", []),
        data := match jget j "data" with | .str s => some s | _ => none }
    match Runtime.intoResponse Extracted.convertible r with
    | .ok out => "ok same=" ++ toString (decide (out = r)) ++ " msgs=" ++ toString out.messages.length
    | .error .customEmpty => "err Generic error: Custom Empty message should not be sent"
    | .error .unknownVariant => "err unknown-variant"

def step (st : State) (line : String) : State × Option String :=
  let (op, rest) := splitOp line
  match op with
  | "contract" =>
    match parseJson rest with
    | some j => ({ st with contract := contractOf j }, some "ok")
    | none => (st, some "bad-json")
  | "iface" =>
    match parseJson rest with
    | some j => ({ st with ifaces := (jstr (jget j "module"), interfaceOf j) :: st.ifaces.filter (·.1 != jstr (jget j "module")) }, some "ok")
    | none => (st, some "bad-json")
  | "reset" => ({}, some "ok")
  | "ep" => (st, some (opEp st))
  | "strip" => (st, some (opStrip rest))
  | "remote" => (st, some (opRemote rest))
  | "remote-de" => (st, some (opRemoteDe rest))
  | "intoresp" => (st, some (opIntoResp rest))
  | "lists" => (st, some (opLists st rest))
  | "de" => (st, some (opDe st rest))
  | "dew" => (st, some (opDew st rest))
  | "disp" => (st, some (opDisp st rest))
  | "entry" => (st, some (opDisp st rest))
  | "ser" => (st, some (opSer st rest))
  | _ => (st, none)

end Driver
