import Sylvia.Driver.ProgParse
import Sylvia.Model.EntryPoints
import Sylvia.Model.Strip
/-! Driver operations over the current program. -/
namespace Driver
open Sylvia Gen

structure State where
  contract : Contract := default
  ifaces : List (String × Interface) := []   -- by module name
  deriving Inhabited

def jsonStrList (xs : List String) : Json := .arr (xs.map .str)

def opEp (st : State) : String :=
  let c := st.contract
  let replyFn := identToString ((firstReplyFn c).getD [])
  let fns := (entryPoints c).map fun k =>
    Json.obj [("name", .str (strOfBytes (epFn k).fnName)),
              ("params", jsonStrList ((epFn k).params.map strOfBytes)),
              ("msg", .str (epMsgText c k)),
              ("body", .str (epBodyText c k replyFn))]
  (Json.arr fns).render

def attrSOf (j : Json) : Strip.AttrS := { path := (jarr (jget j "path")).map jstr, text := jstr (jget j "text") }

def itemSOf (j : Json) : Strip.ItemS :=
  { attrs := (jarr (jget j "attrs")).map attrSOf,
    methods := (jarr (jget j "methods")).map fun m =>
      { attrs := (jarr (jget m "attrs")).map attrSOf,
        params := (jarr (jget m "params")).map fun p => { attrs := (jarr (jget p "attrs")).map attrSOf, text := jstr (jget p "text") },
        rest := jstr (jget m "rest") },
    rest := "" }

def opStrip (rest : String) : String :=
  match parseJson rest with
  | none => "bad-json"
  | some j =>
    let i := Strip.strip (itemSOf j)
    (Json.obj [("attrs", jsonStrList (i.attrs.map (·.text))),
      ("methods", .arr (i.methods.map fun m => Json.obj [
        ("name", .str m.rest), ("attrs", jsonStrList (m.attrs.map (·.text))),
        ("params", .arr (m.params.map fun p => Json.obj [("text", .str p.text), ("attrs", jsonStrList (p.attrs.map (·.text)))]))]))]).render

def step (st : State) (line : String) : State × Option String :=
  let (op, rest) := splitOp line
  match op with
  | "contract" =>
    match parseJson rest with
    | some j => ({ st with contract := contractOf j }, some "ok")
    | none => (st, some "bad-json")
  | "iface" =>
    match parseJson rest with
    | some j => ({ st with ifaces := (jstr (jget j "module"), interfaceOf j) :: st.ifaces.filter (·.1 != jstr (jget j "module")) }, some "ok")
    | none => (st, some "bad-json")
  | "reset" => ({}, some "ok")
  | "ep" => (st, some (opEp st))
  | "strip" => (st, some (opStrip rest))
  | _ => (st, none)

end Driver
