import Sylvia.Driver.ProgParse
import Sylvia.Model.EntryPoints
import Sylvia.Model.Strip
import Sylvia.Model.Dispatch
import Sylvia.Model.Runtime
import Sylvia.Model.Reply
import Sylvia.Model.Facts
import Sylvia.Model.Validate
import Sylvia.Model.QueryResponses
import Sylvia.Model.Domain
/-! Driver operations over the current program. -/
namespace Driver
open Sylvia Gen

structure State where
  contract : Contract := default
  ifaces : List (String × Interface) := []   -- by module name
  deriving Inhabited

def jsonStrList (xs : List String) : Json := .arr (xs.map .str)

def opEp (st : State) : String :=
  let c := st.contract
  let replyFn := identToString ((firstReplyFn c).getD [])
  let fns := (entryPoints c).map fun k =>
    Json.obj [("name", .str (strOfBytes (epFn k).fnName)),
              ("params", jsonStrList ((epFn k).params.map strOfBytes)),
              ("msg", .str (epMsgText c k)),
              ("body", .str (epBodyText c k replyFn))]
  (Json.arr fns).render

def attrSOf (j : Json) : Strip.AttrS := { path := (jarr (jget j "path")).map jstr, text := jstr (jget j "text") }

def itemSOf (j : Json) : Strip.ItemS :=
  { attrs := (jarr (jget j "attrs")).map attrSOf,
    methods := (jarr (jget j "methods")).map fun m =>
      { attrs := (jarr (jget m "attrs")).map attrSOf,
        params := (jarr (jget m "params")).map fun p => { attrs := (jarr (jget p "attrs")).map attrSOf, text := jstr (jget p "text") },
        rest := jstr (jget m "rest") },
    rest := "" }

def opStrip (rest : String) : String :=
  match parseJson rest with
  | none => "bad-json"
  | some j =>
    let i := Strip.strip (itemSOf j)
    (Json.obj [("attrs", jsonStrList (i.attrs.map (·.text))),
      ("methods", .arr (i.methods.map fun m => Json.obj [
        ("name", .str m.rest), ("attrs", jsonStrList (m.attrs.map (·.text))),
        ("params", .arr (m.params.map fun p => Json.obj [("text", .str p.text), ("attrs", jsonStrList (p.attrs.map (·.text)))]))]))]).render

def progOf (st : State) : Gen.Program := { contract := st.contract, ifaces := st.ifaces }

/-- first n-1 blank-separated words, then the rest of the line -/
def splitNGo : Nat → String → List String
  | 0, _ => []
  | 1, s => [s]
  | n + 1, s => let (a, r) := splitOp s; a :: splitNGo n r

def splitN (s : String) (n : Nat) : List String := splitNGo n s

def opLists (st : State) (kind : String) : String :=
  match kindOfWord kind with
  | some k => "|".intercalate ((Gen.parts k (progOf st)).map fun p => ",".intercalate p.published)
  | none => "bad-op"

/-- message type of part `i` for kind `k` (struct kinds only exist on the contract part) -/
def opDe (st : State) (rest : String) : String :=
  match splitN rest 3 with
  | [part, kind, json] =>
    match kindOfWord kind, parseJsonPrefix json with
    | some k, some (d, trailing) =>
      if trailing then "err" else
      let p := progOf st
      let i := part.toNat?.getD 0
      if k = .instantiate ∨ k = .migrate then
        match Gen.variantsOf k p.contract.methods with
        | m :: _ =>
          match Serde.decodeStruct false (m.args.map Gen.fieldSpec) d with
          | some fs => "ok " ++ (Json.obj fs).render
          | none => "err"
        | [] => "bad-op"
      else
        match (Gen.parts k p)[i]? with
        | some ps =>
          match Serde.decodeEnum false ps.variants d with
          | some (v, fs) => "ok " ++ (Serde.encodeEnum ps.variants v fs).render
          | none => "err"
        | none => "bad-op"
    | some _, none => "err"
    | _, _ => "bad-op"
  | _ => "bad-op"

def opDew (st : State) (rest : String) : String :=
  match splitN rest 2 with
  | [kind, json] =>
    match kindOfWord kind, parseJsonPrefix json with
    | some k, some (d, trailing) =>
      let ps := Gen.parts k (progOf st)
      match Serde.wrapperDecode ps d with
      | .ok i v fs => if trailing then "err" else "ok " ++ ((ps[i]?.map (·.label)).getD "?") ++ " " ++ (Serde.encodeEnum ((ps[i]?.map (·.variants)).getD []) v fs).render
      | r => Dispatch.wrapErrText r
    | some _, none => "err"
    | _, _ => "bad-op"
  | _ => "bad-op"

/-- is the document in the domain of `C03.wrapper_iff_on_domain`? (trailing characters: the text is not one document) -/
def opDom (st : State) (rest : String) : String :=
  match splitN rest 2 with
  | [kind, json] =>
    match kindOfWord kind, parseJsonPrefix json with
    | some k, some (d, trailing) => if trailing then "out" else if Serde.inDomainB (Gen.parts k (progOf st)) d then "in" else "out"
    | some _, none => "out"
    | _, _ => "bad-op"
  | _ => "bad-op"

def opDisp (st : State) (rest : String) : String :=
  match splitN rest 7 with
  | [kind, fail, sender, amount, height, seed, json] =>
    match kindOfWord kind with
    | some k =>
      let p := progOf st
      let c : Dispatch.CtxIn := { sender := sender, funds := amount, height := height, seed := seed, fail := fail }
      match parseJsonPrefix json with
      | some (d, trailing) =>
        match Dispatch.route p k d c with
        | .ran call m i => if trailing then "de-err" else Dispatch.showOutcome p (.ran call m i)
        | o => Dispatch.showOutcome p o
      | none => "de-err"
    | none => "bad-op"
  | _ => "bad-op"

/-- `ser <part> <kind> <method> <args array>`: the value a constructor builds, printed -/
def opSer (st : State) (rest : String) : String :=
  match splitN rest 4 with
  | [part, kind, method, json] =>
    match kindOfWord kind, parseJson json with
    | some k, some (.arr vals) =>
      let p := progOf st
      let i := part.toNat?.getD 0
      let ms := if k = .instantiate ∨ k = .migrate then Gen.variantsOf k p.contract.methods
                else ((Gen.partMethods k p)[i]?).getD []
      match ms.find? (fun m => Casing.toString m.name == method) with
      | some m =>
        let specs := m.args.map Gen.fieldSpec
        if specs.length != vals.length then "bad-args" else
        match (specs.zip vals).mapM (fun (f, v) => (Serde.decodeVal false f.ty v).map fun v' => (f.name, v')) with
        | some fs =>
          if k = .instantiate ∨ k = .migrate then "ok " ++ (Json.obj fs).render ++ " true"
          else "ok " ++ (Json.obj [(Gen.wireName m, .obj fs)]).render ++ " true"
        | none => "bad-args"
      | none => "bad-op"
    | _, _ => "bad-op"
  | _ => "bad-op"

def utf8OfHex (s : String) : String :=
  (String.fromUTF8? (ByteArray.mk ((unhexBytes s).map (·.toUInt8)).toArray)).getD ""

def opRemote (rest : String) : String :=
  match splitN rest 3 with
  | [_idx, mode, addr] =>
    let r : Runtime.Remote Unit := { addr := utf8OfHex addr, own := if mode == "owned" then .owned else .borrowed }
    let back := ((Runtime.Remote.decode Unit r.encode).map (·.addr)) == some r.addr
    r.encode.render ++ " back=" ++ toString back ++ " schema=" ++ Runtime.Remote.schemaName Unit
  | _ => "bad-op"

def opRemoteDe (rest : String) : String :=
  match splitN rest 2 with
  | [_idx, json] =>
    match parseJsonPrefix json with
    | some (d, false) =>
      match Runtime.Remote.decode Unit d with
      | some r => "ok " ++ (Json.str r.addr).render
      | none => "err"
    | _ => "err"
  | _ => "bad-op"

def msgKindOf : String → Option Runtime.MsgKind
  | "bank" | "burn" => some .bank | "wasm" | "wasm_inst" => some .wasm | "custom" => some .custom
  | "staking" => some .staking | "distribution" => some .distribution | "ibc" | "ibc_transfer" => some .ibc
  | "gov" => some .gov | "any" => some .any | "stargate" => some .stargate | _ => none

def opIntoResp (rest : String) : String :=
  match parseJson rest with
  | none => "bad-spec"
  | some j =>
    let msgs := (jarr (jget j "msgs")).filterMap fun m =>
      (msgKindOf (jstr (jget m "kind"))).map fun k =>
        ({ id := jnat (jget m "id"), payload := jstr (jget m "payload"), kind := k, content := jstr (jget m "n"),
           gasLimit := match jget m "gas" with | .num t => t.toNat? | _ => none,
           replyOn := match jstr (jget m "reply_on") with
             | "always" => .always | "success" => .success | "error" => .error | _ => .never } : Runtime.SubMsg)
    let r : Runtime.Response :=
      { messages := msgs,
        attributes := (jarr (jget j "attrs")).map fun a => match a with | .arr [k, v] => (jstr k, jstr v) | _ => ("", ""),
        events := (jarr (jget j "events")).map fun e => match e with
          | .arr [t, .arr as] => (jstr t, as.map fun a => match a with | .arr [k, v] => (jstr k, jstr v) | _ => ("", ""))
          | _ => ("", []),
        data := match jget j "data" with | .str s => some s | _ => none }
    match Runtime.intoResponse Extracted.convertible r with
    | .ok out => "ok same=" ++ toString (decide (out = r)) ++ " msgs=" ++ toString out.messages.length
    | .error .customEmpty => "err Generic error: Custom Empty message should not be sent"
    | .error .unknownVariant => "err unknown-variant"

-- ------------------------------------------------------------------------------------------------
-- replies
-- ------------------------------------------------------------------------------------------------
def hexOfBytes (bs : List Nat) : String :=
  String.ofList ((bs.flatMap fun b => [Json.hexDigit (b / 16), Json.hexDigit (b % 16)]).map Char.toLower)

def hexOfString (s : String) : String := hexOfBytes (Gen.bytesOf s)

def tyEqText (a b : Ty) : Bool := Gen.tyRender a == Gen.tyRender b

def replyTbl (st : State) : List Reply.Entry × List Reply.Diag :=
  Reply.replyTable Extracted.replyDataFromLater tyEqText st.contract.methods

def opRids (st : State) : String :=
  let tbl := (replyTbl st).1
  ",".intercalate ((List.range tbl.length).zip tbl |>.map fun (i, e) => e.id ++ "=" ++ toString i)

def hexOpt (s : String) : Option String := if s == "-" then none else some ((if s.startsWith "x" then (s.drop 1).toString else s))

def envOf (spec : String) : Reply.Envelope :=
  match spec.splitOn ":" with
  | ["E", "exec", i] => .exec (hexOpt i)
  | ["E", "inst", a, i] => .inst (utf8OfHex a) (hexOpt i)
  | _ => .bad

/-- decode the payload bytes for the entry's payload parameters; `none` = the payload does not parse -/
def payloadArgs (pay : List Arg) (payloadHex : String) : Option (List (String × Json)) :=
  match pay with
  | [a] =>
    if a.payloadRaw then some [(a.name, .str ("x" ++ payloadHex))]
    else
      match parseJsonPrefix (utf8OfHex payloadHex) with
      | some (d, false) => (Serde.decodeVal false (Gen.fieldSpec a).ty d).map fun v => [(a.name, v)]
      | _ => none
  | _ =>
    match parseJsonPrefix (utf8OfHex payloadHex) with
    | some (.arr vs, false) =>
      if vs.length != pay.length then none else
      (pay.zip vs).mapM fun (a, v) => (Serde.decodeVal false (Gen.fieldSpec a).ty v).map fun v' => (a.name, v')
    | _ => none

def hexOrNone (o : Option String) : String := o.getD "none"

def showSub : Reply.SubResult → String
  | .ok ev d m => "result:ok:" ++ toString ev ++ ":" ++ hexOrNone d ++ ":" ++ toString m
  | .err t => "result:err:" ++ t

/-- text of the first argument as the echo handler prints it; `none` = the JSON inside the envelope does not fit the data type -/
def showFirst (dataTy : Option Ty) : Reply.FirstArg → Option String
  | .none => some "-"
  | .rawOpt d => some ("rawopt:" ++ hexOrNone d)
  | .raw d => some ("raw:" ++ d)
  | .instOpt none => some "instopt:none"
  | .instOpt (some (a, i)) => some ("instopt:" ++ a ++ ":" ++ hexOrNone i)
  | .inst a i => some ("inst:" ++ a ++ ":" ++ hexOrNone i)
  | .typedOpt none => some "null"
  | .typedOpt (some j) =>
    -- `opt`: the parameter is `Option<T>`, the JSON is decoded as `T`
    match dataTy, parseJsonPrefix (utf8OfHex j) with
    | some t, some (d, false) =>
      let inner := match t with | .path (.cons "Option" (.cons i .nil) .nil) => i | x => x
      ((Gen.vtyOf inner).bind fun vt => Serde.decodeVal false vt d).map (·.render)
    | _, _ => none
  | .typed j =>
    -- mandatory: the JSON is decoded as the declared type itself (which may be nullable)
    match dataTy, parseJsonPrefix (utf8OfHex j) with
    | some t, some (d, false) => ((Gen.vtyOf t).bind fun vt => Serde.decodeVal false vt d).map (·.render)
    | _, _ => none
  | .errorText t => some ("error:" ++ t)
  | .fullResult r => some (showSub r)

def methodByName (st : State) (fn : Name) : Option Method := st.contract.methods.find? (·.name == fn)

def showReplyOutcome (st : State) (e? : Option Reply.Entry) (c : Dispatch.CtxIn) : Reply.Outcome → String
  | .unknownId i => "err unknown-id " ++ toString i
  | .missingData => "err missing"
  | .badEnvelope => "err envelope"
  | .badPayload => "err payload"
  | .passErr t => "err pass:" ++ t
  | .passOk ev d => "ok  events=" ++ toString ev ++ " data=" ++ (d.getD "-") ++ " stored="
  | .call fn gas ev msgr first payload =>
    match e? with
    | none => "internal"
    | some e =>
      -- values are decoded with the entry's payload types and bound positionally to the called method's own parameters
      let own := match methodByName st fn with
        | some m => (if e.payload.length < m.args.length then m.args.drop (m.args.length - e.payload.length) else m.args).map (·.name)
        | none => []
      match (payloadArgs e.payload payload).map (fun as => (as.zip own).map fun (p, n) => (n, p.2)) with
      | none => "err payload"
      | some args =>
        match showFirst (e.data.map (·.ty)) first with
        | none => "err json"
        | some f =>
          let hid := "ct." ++ Casing.toString fn
          if c.fail == hid then
            let m := methodByName st fn
            "err " ++ Dispatch.failText st.contract.error.isSome ((m.map fun m => Dispatch.retErrTy m.ret).getD .std) hid
          else
            "ok ran=" ++ hid ++ "|first=" ++ f ++ "|args=" ++ (Json.obj args).render ++ "|height=" ++ c.height
              ++ "|addr=" ++ Dispatch.mockContractAddr ++ "|seed=" ++ c.seed ++ "|gas=" ++ toString gas
              ++ "|events=" ++ toString ev ++ "|msgr=" ++ toString msgr ++ " events=0 data=- stored=" ++ hid

def opReply (st : State) (rest : String) : String :=
  match rest.splitOn " " with
  | [id, gas, okerr, nev, data, nmsgr, errhex, payload, envspec, fail, height, seed] =>
    let tbl := (replyTbl st).1
    let result : Reply.SubResult := if okerr == "ok" then .ok nev.toNat! (hexOpt data) nmsgr.toNat! else .err (utf8OfHex errhex)
    let r : Reply.ReplyIn := { id := id.toNat!, payload := (hexOpt payload).getD "", gasUsed := gas.toNat!, result := result }
    let c : Dispatch.CtxIn := { sender := "s", funds := "0", height := height, seed := seed, fail := fail }
    let pok := match tbl[r.id]? with | some e => (payloadArgs e.payload r.payload).isSome | none => true
    showReplyOutcome st tbl[r.id]? c (Reply.dispatchReply Extracted.dataGuards tbl r (envOf envspec) pok)
  | _ => "bad-op"

def showTrigger : ReplyOn → String | .always => "Always" | .success => "Success" | .error => "Error"

/-- payload bytes (hex) a builder produces for canonical argument values -/
def encodePayload (pay : List Arg) (vals : List Json) : Option String :=
  match pay, vals with
  | [a], [v] =>
    if a.payloadRaw then (match v with | .str s => some ((if s.startsWith "x" then (s.drop 1).toString else s)) | _ => none)
    else (Serde.decodeVal false (Gen.fieldSpec a).ty v).map fun c => hexOfString c.render
  | _, _ =>
    if pay.length != vals.length then none else
    ((pay.zip vals).mapM fun (a, v) => Serde.decodeVal false (Gen.fieldSpec a).ty v).map fun cs => hexOfString (Json.arr cs).render

def opSubmsg (st : State) (rest : String) : String :=
  match splitN rest 3 with
  | [entry, recv, json] =>
    let tbl := (replyTbl st).1
    match tbl[entry.toNat!]?, parseJson json with
    | some e, some (.arr vals) =>
      match encodePayload e.payload vals with
      | some p => "id=" ++ toString entry.toNat! ++ " reply_on=" ++ showTrigger (Reply.cwReplyOn e) ++ " gas=" ++ (if recv == "sub" then "77" else "none")
          ++ " payload=" ++ p ++ " msg_same=true"
      | none => "bad-args"
    | _, _ => "bad-op"
  | _ => "bad-op"

def opRt (st : State) (rest : String) : String :=
  match splitN rest 7 with
  | [entry, _recv, okerr, gas, height, seed, json] =>
    let tbl := (replyTbl st).1
    match tbl[entry.toNat!]?, parseJson json with
    | some e, some (.arr vals) =>
      match encodePayload e.payload vals with
      | some p =>
        let result : Reply.SubResult := if okerr == "ok" then .ok 2 none 1 else .err "boom"
        let r : Reply.ReplyIn := { id := entry.toNat!, payload := p, gasUsed := gas.toNat!, result := result }
        let c : Dispatch.CtxIn := { sender := "s", funds := "0", height := height, seed := seed, fail := "-" }
        showReplyOutcome st (some e) c (Reply.dispatchReply Extracted.dataGuards tbl r (.bad) true)
      | none => "bad-args"
    | _, _ => "bad-op"
  | _ => "bad-op"

-- ------------------------------------------------------------------------------------------------
-- expansion facts (L1)
-- ------------------------------------------------------------------------------------------------
def fieldJ (f : Facts.FieldFact) : Json := .obj [("name", .str f.name), ("ty", .str f.ty), ("attrs", jsonStrList f.attrs)]
def variantJ (v : Facts.VariantFact) : Json :=
  .obj [("name", .str v.name), ("attrs", jsonStrList v.attrs), ("fields", .arr (v.fields.map fieldJ))]
def msgJ (m : Facts.MsgFact) : Json :=
  .obj [("name", .str m.name), ("generics", jsonStrList m.generics), ("wheres", jsonStrList m.wheres), ("attrs", jsonStrList m.attrs),
        ("variants", .arr (m.variants.map variantJ)), ("dispatch_generics", jsonStrList m.dispatchGenerics)]

/-- `facts contract` / `facts iface <module>` -/
def opFacts (st : State) (rest : String) : String :=
  match splitN rest 2 with
  | ["contract"] | ["contract", _] =>
    let c := st.contract
    let enums := [Kind.exec, .query, .sudo].map fun k => msgJ (Facts.contractEnum k c)
    let structs := [Kind.instantiate, .migrate].filterMap fun k => (Facts.contractStruct k c).map msgJ
    let lists := [Kind.exec, .query, .sudo].map fun k => jsonStrList (Gen.nameList k c.methods)
    let (tbl, diags) := replyTbl st
    let rids := if c.replies then tbl.map (fun e => Json.str e.id) else []
    (Json.obj [("msgs", .arr (enums ++ structs)), ("lists", .arr lists), ("reply_ids", .arr rids),
               ("api", .obj ((Facts.contractApi c).map fun (k, v) => (k, Json.str v))),
               ("reply_diags", .num (toString (if c.replies then diags.length else 0)))]).render
  | ["iface", m] =>
    match st.ifaces.find? (·.1 == m) with
    | some (_, i) =>
      let enums := [Kind.exec, .query, .sudo].map fun k => msgJ (Facts.interfaceEnum k i)
      let lists := [Kind.exec, .query, .sudo].map fun k => jsonStrList (Gen.nameList k i.methods)
      (Json.obj [("msgs", .arr enums), ("lists", .arr lists),
                 ("api", .obj ((Facts.interfaceApi i).map fun (k, v) => (k, Json.str v)))]).render
    | none => "bad-op"
  | _ => "bad-op"

def wordsOf (j : Json) : List Validate.AttrWord :=
  (jarr j).map fun w => match w with
    | .arr [p, x] => { parser := jstr p, word := Str.ofString (jstr x) }
    | _ => { parser := "", word := [] }

def opValidate (rest : String) : String :=
  match splitN rest 2 with
  | [what, json] =>
    match parseJson json with
    | none => "bad-json"
    | some j =>
      let rules :=
        if what == "contract" then
          Validate.validateContract { contract := contractOf (jget j "contract"), hasNew := jbool (jget j "has_new"), newParams := jnat (jget j "new_params"),
                                      words := wordsOf (jget j "words"), redefined := (jarr (jget j "redefined")).map jstr }
        else if what == "iface" then
          Validate.validateInterface { iface := interfaceOf (jget j "iface"), generics := jnat (jget j "generics"), hasError := jbool (jget j "has_error"),
                                       words := wordsOf (jget j "words"), redefined := (jarr (jget j "redefined")).map jstr }
        else Validate.validateEntryPoints (contractOf (jget j "contract")) (jnat (jget j "given")) (wordsOf (jget j "words"))
      if rules.isEmpty then "clean" else "dirty"
  | _ => "bad-op"

def lastSeg (t : String) : String := ((t.splitOn "::").getLast?).getD t

/-- BTreeMap<String, _>: sorted by key, a later entry replaces an earlier one -/
def collectSorted (es : List (String × String)) : List (String × String) :=
  (es.foldl (fun acc e => Serde.insertSorted e.1 (.str e.2) acc) []).map fun (k, v) => (k, match v with | .str s => s | _ => "")

def showTable (es : List (String × String)) : String :=
  ",".intercalate ((collectSorted es).map fun (k, t) => k ++ "=" ++ lastSeg t ++ "/true")

def opQresp (st : State) (rest : String) : String :=
  let p := progOf st
  if rest == "w" then showTable (QueryResponses.contractTable p)
  else
    let i := rest.toNat?.getD 0
    match (Gen.partMethods .query p)[i]? with
    | some ms => showTable (ms.map fun m => (Gen.wireName m, QueryResponses.respText m))
    | none => "bad-op"

def opAnyOf (st : State) (rest : String) : String :=
  match kindOfWord rest with
  | some k => ",".intercalate (QueryResponses.anyOf k (progOf st))
  | none => "bad-op"

-- ------------------------------------------------------------------------------------------------
-- remote helpers
-- ------------------------------------------------------------------------------------------------
/-- the document a constructor call serialises to (canonical argument values), with the method it belongs to -/
def docOf (st : State) (k : Kind) (part : Nat) (method : String) (vals : List Json) : Option (Json × Method) :=
  let p := progOf st
  let ms := ((Gen.partMethods k p)[part]?).getD []
  match ms.find? (fun m => Casing.toString m.name == method) with
  | some m =>
    let specs := m.args.map Gen.fieldSpec
    if specs.length != vals.length then none else
    ((specs.zip vals).mapM fun ((f : Serde.FieldSpec), v) => (Serde.decodeVal false f.ty v).map fun v' => (f.name, v')).map fun fs =>
      (Json.obj [(Gen.wireName m, .obj fs)], m)
  | none => none

def fundsText (amount : String) : String :=
  if amount.all Char.isDigit then (if amount == "0" then "" else amount ++ "utok") else amount

def opXh (st : State) (rest : String) : String :=
  match splitN rest 10 with
  | [part, _via, method, addr, amount, fail, sender, height, seed, json] =>
    match parseJson json with
    | some (.arr vals) =>
      match docOf st .exec part.toNat! method vals with
      | some (doc, _) =>
        let r : Runtime.Remote Unit := { addr := utf8OfHex addr }
        let m := Runtime.executorBuild r [fundsText amount] doc.render
        let c : Dispatch.CtxIn := { sender := sender, funds := if amount.all Char.isDigit then amount else "0", height := height, seed := seed, fail := fail }
        "execute addr=" ++ m.contractAddr ++ " funds=" ++ m.funds ++ " body=" ++ m.body ++ " => "
          ++ Dispatch.showOutcome (progOf st) (Dispatch.route (progOf st) .exec doc c)
      | none => "err bad-args"
    | _ => "bad-op"
  | _ => "bad-op"

def opQh (st : State) (rest : String) : String :=
  match splitN rest 7 with
  | [part, _via, method, addr, height, seed, json] =>
    match parseJson json with
    | some (.arr vals) =>
      match docOf st .query part.toNat! method vals with
      | some (doc, _) =>
        let c : Dispatch.CtxIn := { sender := "s", funds := "0", height := height, seed := seed, fail := "-" }
        "addr=" ++ utf8OfHex addr ++ " body=" ++ doc.render ++ " => "
          ++ Dispatch.showOutcome (progOf st) (Dispatch.route (progOf st) .query doc c)
      | none => "err bad-args"
    | _ => "bad-op"
  | _ => "bad-op"

def settersOf (spec : String) : List Runtime.Setter × Option String :=
  (spec.splitOn ";").foldl (fun (acc : List Runtime.Setter × Option String) part =>
    match part.splitOn ":" with
    | ["l", v] => (acc.1 ++ [.label (utf8OfHex v)], acc.2)
    | ["a", v] => (acc.1 ++ [.admin (utf8OfHex v)], acc.2)
    | ["f", v] => (acc.1 ++ [.funds (fundsText v)], acc.2)
    | ["s", v] => (acc.1, some v)
    | _ => acc) ([], none)

def opIb (st : State) (rest : String) : String :=
  match splitN rest 3 with
  | [code, spec, json] =>
    let p := progOf st
    match Gen.variantsOf .instantiate p.contract.methods, parseJson json with
    | m :: _, some (.arr vals) =>
      let specs := m.args.map Gen.fieldSpec
      if specs.length != vals.length then "bad-args" else
      match (specs.zip vals).mapM fun ((f : Serde.FieldSpec), v) => (Serde.decodeVal false f.ty v).map fun v' => (f.name, v') with
      | some fs =>
        let (ss, salt) := settersOf spec
        let b := ss.foldl Runtime.InstBuilder.set { msg := (Json.obj fs).render, codeId := code.toNat! }
        let out := match salt with | some s => b.build2 s | none => b.build
        (match out.salt with | some _ => "instantiate2" | none => "instantiate") ++ " code=" ++ toString out.codeId
          ++ " admin=" ++ out.admin.getD "-" ++ " label=" ++ hexOfString out.label ++ " funds=" ++ out.funds
          ++ (match out.salt with | some s => " salt=" ++ s | none => "") ++ " body=" ++ out.msg
      | none => "bad-args"
    | _, _ => "bad-op"
  | _ => "bad-op"

def opAdm (rest : String) : String :=
  match splitN rest 2 with
  | [addr, new] =>
    let r : Runtime.Remote Unit := { addr := utf8OfHex addr }
    let one := if new == "-" then (match r.clearAdmin with | .clear a => "clear_admin addr=" ++ a | _ => "")
               else (match r.updateAdmin (utf8OfHex new) with | .update a n => "update_admin addr=" ++ a ++ " admin=" ++ n | _ => "")
    one ++ " | " ++ one
  | _ => "bad-op"

def step (st : State) (line : String) : State × Option String :=
  let (op, rest) := splitOp line
  match op with
  | "contract" =>
    match parseJson rest with
    | some j => ({ st with contract := contractOf j }, some "ok")
    | none => (st, some "bad-json")
  | "iface" =>
    match parseJson rest with
    | some j => ({ st with ifaces := (jstr (jget j "module"), interfaceOf j) :: st.ifaces.filter (·.1 != jstr (jget j "module")) }, some "ok")
    | none => (st, some "bad-json")
  | "reset" => ({}, some "ok")
  | "ep" => (st, some (opEp st))
  | "strip" => (st, some (opStrip rest))
  | "xh" => (st, some (opXh st rest))
  | "qh" => (st, some (opQh st rest))
  | "ib" => (st, some (opIb st rest))
  | "adm" => (st, some (opAdm rest))
  | "qresp" => (st, some (opQresp st rest))
  | "anyof" => (st, some (opAnyOf st rest))
  | "facts" => (st, some (opFacts st rest))
  | "validate" => (st, some (opValidate rest))
  | "rids" => (st, some (opRids st))
  | "reply" => (st, some (opReply st rest))
  | "submsg" => (st, some (opSubmsg st rest))
  | "rt" => (st, some (opRt st rest))
  | "remote" => (st, some (opRemote rest))
  | "remote-de" => (st, some (opRemoteDe rest))
  | "intoresp" => (st, some (opIntoResp rest))
  | "lists" => (st, some (opLists st rest))
  | "de" => (st, some (opDe st rest))
  | "dew" => (st, some (opDew st rest))
  | "dom" => (st, some (opDom st rest))
  | "disp" => (st, some (opDisp st rest))
  | "entry" => (st, some (opDisp st rest))
  | "ser" => (st, some (opSer st rest))
  | _ => (st, none)

end Driver
