import Sylvia.Driver.ProgParse
import Sylvia.Model.EntryPoints
/-! Driver operations over the current program. -/
namespace Driver
open Sylvia Gen

structure State where
  contract : Contract := default
  ifaces : List (String × Interface) := []   -- by module name
  deriving Inhabited

def jsonStrList (xs : List String) : Json := .arr (xs.map .str)

def opEp (st : State) : String :=
  let c := st.contract
  let replyFn := identToString ((firstReplyFn c).getD [])
  let fns := (entryPoints c).map fun k =>
    Json.obj [("name", .str (strOfBytes (epFn k).fnName)),
              ("params", jsonStrList ((epFn k).params.map strOfBytes)),
              ("msg", .str (epMsgText c k)),
              ("body", .str (epBodyText c k replyFn))]
  (Json.arr fns).render

def step (st : State) (line : String) : State × Option String :=
  let (op, rest) := splitOp line
  match op with
  | "contract" =>
    match parseJson rest with
    | some j => ({ st with contract := contractOf j }, some "ok")
    | none => (st, some "bad-json")
  | "iface" =>
    match parseJson rest with
    | some j => ({ st with ifaces := (jstr (jget j "module"), interfaceOf j) :: st.ifaces.filter (·.1 != jstr (jget j "module")) }, some "ok")
    | none => (st, some "bad-json")
  | "reset" => ({}, some "ok")
  | "ep" => (st, some (opEp st))
  | _ => (st, none)

end Driver
