import Sylvia.Driver.Ops
import Sylvia.Model.Multitest
/-! Driver operations for multitest histories: `mtp <proxy history>`, `mtr <raw history>`, `mtlower <proxy history>`. -/
namespace Driver
open Sylvia
open Sylvia.Mt

def optOfDash (s : String) : Option String := if s == "-" then none else some s

/-- admin field: `-` none, `~` the empty string, else an account name -/
def adminOf (s : String) : Option String := if s == "-" then none else if s == "~" then some "" else some s

def showAdmin : Option String → String
  | none => "-" | some "" => "~" | some a => a

/-- exec funds: a number of `utok` (0 = no coins), or `z` = a coin list holding one zero-amount coin -/
def fundsOf (s : String) : Mt.Funds := if s == "z" then .zeroCoin else .amount (s.toNat?.getD 0)

def showFunds : Mt.Funds → String
  | .zeroCoin => "z" | .amount n => toString n

def jsonOfHex (s : String) : Option Json := parseJson (utf8OfHex s)

def argsOfHex (s : String) : List Json := match jsonOfHex s with | some (.arr xs) => xs | _ => []

def parseSetter (s : String) : Option MtSetter :=
  match s.splitOn "=" with
  | ["l", v] => some (.label (utf8OfHex v))
  | ["a", v] => some (.admin (adminOf v))
  | ["f", v] => some (.funds (v.toNat?.getD 0))
  | ["s", v] => some (.salt (optOfDash v))
  | _ => none

def markerOf (s : String) : Option String := optOfDash (utf8OfHex s)

def parseProxyStep (s : String) : Option ProxyOp :=
  match s.splitOn ":" with
  | ["store"] => some .store
  | ["setfail", slot, m] => some (.setfail slot.toNat! (markerOf m))
  | ["inst", code, sender, setters, args] =>
    some (.inst code.toNat! sender ((setters.splitOn "/").filterMap parseSetter) (argsOfHex args))
  | ["exec", slot, part, method, sender, funds, args] =>
    some (.exec slot.toNat! sender (if funds == "-" then none else some (fundsOf funds)) { part := part.toNat!, method := method, args := argsOfHex args })
  | ["query", slot, part, method, args] => some (.query slot.toNat! { part := part.toNat!, method := method, args := argsOfHex args })
  | ["sudo", slot, part, method, args] => some (.sudo slot.toNat! { part := part.toNat!, method := method, args := argsOfHex args })
  | ["mig", slot, sender, nc, args] => some (.mig slot.toNat! sender nc.toNat! (argsOfHex args))
  | _ => none

def parseRawStep (s : String) : Option RawOp :=
  match s.splitOn ":" with
  | ["store"] => some { shape := .store, body := .null }
  | ["setfail", slot, m] => some { shape := .setfail slot.toNat! (markerOf m), body := .null }
  | ["inst", code, sender, funds, label, admin, salt, body] =>
    (jsonOfHex body).map fun b => { shape := .inst code.toNat! sender (funds.toNat?.getD 0) (utf8OfHex label) (adminOf admin) (optOfDash salt), body := b }
  | ["exec", slot, sender, funds, body] => (jsonOfHex body).map fun b => { shape := .exec slot.toNat! sender (fundsOf funds), body := b }
  | ["query", slot, body] => (jsonOfHex body).map fun b => { shape := .query slot.toNat!, body := b }
  | ["sudo", slot, body] => (jsonOfHex body).map fun b => { shape := .sudo slot.toNat!, body := b }
  | ["mig", slot, sender, nc, body] => (jsonOfHex body).map fun b => { shape := .mig slot.toNat! sender nc.toNat!, body := b }
  | _ => none

def showRawStep (op : RawOp) : String :=
  let body := "x" ++ hexOfString op.body.render
  match op.shape with
  | .store => "store"
  | .setfail slot m => "setfail:" ++ toString slot ++ ":x" ++ hexOfString (m.getD "-")
  | .inst code sender funds label admin salt =>
    ":".intercalate ["inst", toString code, sender, toString funds, hexOfString label, showAdmin admin, salt.getD "-", body]
  | .exec slot sender funds => ":".intercalate ["exec", toString slot, sender, showFunds funds, body]
  | .query slot => ":".intercalate ["query", toString slot, body]
  | .sudo slot => ":".intercalate ["sudo", toString slot, body]
  | .mig slot sender nc => ":".intercalate ["mig", toString slot, sender, toString nc, body]

def showChainErr : ChainErr → String
  | .emptyCoins => "empty-coins" | .funds => "funds" | .duplicate => "duplicate" | .notAdmin => "not-admin" | .badCode => "bad-code" | .noLabel => "no-label"

def showRes : Res → String
  | .code id => "code=" ++ toString id
  | .done => "ok"
  | .addr s => "ok addr=#" ++ toString s
  | .resp e => "ok events=" ++ e
  | .answer j => "ok " ++ j
  | .handlerErr t => "err handler " ++ t
  | .chainErr e => "err chain " ++ showChainErr e
  | .decodeErr t => if t == "bad-args" || t == "bad-op" then t else "err decode"
  | .missing w => w
  | .panic => "PANIC"

def showInst (i : Nat) : Option Inst → String
  | none => "#" ++ toString i ++ ":none"
  | some x =>
    let store := (match x.fail with | some f => ["fail=" ++ f] | none => [])
      ++ (match x.last with | some (h, e) => ["last=" ++ e, "ran=" ++ h] | none => [])
    "#" ++ toString i ++ ":code=" ++ toString x.codeId ++ " creator=" ++ x.creator ++ " admin=" ++ x.admin.getD "-"
      ++ " label=" ++ hexOfString x.label ++ " bal=" ++ toString x.bal ++ " store=[" ++ ",".intercalate store ++ "]"

def showChain (ch : Chain) : String :=
  " ".intercalate (((List.range ch.slots.length).zip ch.slots).map (fun (i, s) => showInst i s)
    ++ ch.accounts.map fun (a, b) => a ++ "=" ++ toString b)

def runShow {Op : Type} (step : Chain → Op → Chain × Res) : Chain → List (Option Op) → List String
  | _, [] => []
  | ch, none :: rest => ("bad-op @@ " ++ showChain ch) :: runShow step ch rest
  | ch, some op :: rest =>
    let (ch', r) := step ch op
    (showRes r ++ " @@ " ++ showChain ch') :: runShow step ch' rest

def opMtp (st : State) (rest : String) : String :=
  " ;; ".intercalate (runShow (proxyStep (progOf st)) Chain.init ((rest.splitOn ";").map parseProxyStep))

def opMtr (st : State) (rest : String) : String :=
  " ;; ".intercalate (runShow (rawStep (progOf st)) Chain.init ((rest.splitOn ";").map parseRawStep))

def opMtlower (st : State) (rest : String) : String :=
  ";".intercalate ((rest.splitOn ";").map fun s =>
    match (parseProxyStep s).bind (lower (progOf st)) with
    | some r => showRawStep r
    | none => "unlowerable")

end Driver
