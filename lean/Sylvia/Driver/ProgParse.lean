import Sylvia.Model.Program
import Sylvia.Driver.JsonParse
import Sylvia.Driver.Util
/-! Reads the JSON rendering of a generated program (vlib/gen.py) into the model's `Program`. -/
namespace Driver
open Sylvia

def nameOf (s : String) : Name := (identOfString s).getD []

def kindOfWord : String → Option Kind
  | "exec" => some .exec | "query" => some .query | "instantiate" => some .instantiate
  | "migrate" => some .migrate | "reply" => some .reply | "sudo" => some .sudo | _ => none

def replyOnOfWord : String → ReplyOn
  | "success" => .success | "error" => .error | _ => .always

mutual
partial def tyOf (j : Json) : Ty :=
  match j with
  | .obj ms =>
    match Json.get? ms "q", Json.get? ms "p", Json.get? ms "t", Json.get? ms "a" with
    | some q, some p, _, _ => .qpath (tyOf q) (segsOf (jarr p))
    | none, some p, _, _ => .path (segsOf (jarr p))
    | _, _, some t, _ => .tuple (tysOf (jarr t))
    | _, _, _, some a => .array (tyOf a) (jstr (jget j "n"))
    | _, _, _, _ => .opaque (jstr (jget j "o"))
  | _ => .opaque "?"
partial def tysOf : List Json → Tys
  | [] => .nil
  | x :: xs => .cons (tyOf x) (tysOf xs)
partial def segsOf : List Json → Segs
  | [] => .nil
  | x :: xs =>
    match x with
    | .arr [n, .arr args] => .cons (jstr n) (tysOf args) (segsOf xs)
    | _ => .cons (jstr x) .nil (segsOf xs)
end

def strOpt (j : Json) : Option String := match j with | .str s => some s | _ => none

def argOf (j : Json) : Arg :=
  { name := jstr (jget j "name"), ty := tyOf (jget j "ty"), attrs := (jarr (jget j "attrs")).map jstr,
    data := match jget j "data" with
      | .obj _ => some { raw := jbool (jget (jget j "data") "raw"), opt := jbool (jget (jget j "data") "opt"),
                         instantiate := jbool (jget (jget j "data") "instantiate") }
      | _ => none,
    payloadRaw := jbool (jget j "payload_raw") }

def msgAttrOf (j : Json) : Option MsgAttr :=
  match j with
  | .obj _ =>
    (kindOfWord (jstr (jget j "kind"))).map fun k =>
      { kind := k, resp := strOpt (jget j "resp"), handlers := (jarr (jget j "handlers")).map (nameOf ∘ jstr),
        replyOn := replyOnOfWord (jstr (jget j "reply_on")) }
  | _ => none

def methodOf (j : Json) : Method :=
  { name := nameOf (jstr (jget j "name")), msg := msgAttrOf (jget j "msg"), fwd := (jarr (jget j "fwd")).map jstr,
    args := (jarr (jget j "args")).map argOf, ret := tyOf (jget j "ret") }

def msgAttrsOf (j : Json) : List (Str × String) :=
  (jarr j).map fun r => match r with
    | .arr [w, t] => (Str.ofString (jstr w), jstr t)
    | _ => ([], "")

def contractOf (j : Json) : Contract :=
  { name := jstr (jget j "name"),
    generics := (jarr (jget j "generics")).map fun g => { name := jstr (jget g "name"), text := jstr (jget g "text") },
    wheres := (jarr (jget j "wheres")).map fun w => { text := jstr (jget w "text"), tys := (jarr (jget w "tys")).map tyOf },
    error := strOpt (jget j "error"), customMsg := strOpt (jget j "custom_msg"), customQuery := strOpt (jget j "custom_query"),
    replies := jbool (jget j "replies"),
    overrides := (jarr (jget j "overrides")).map (Str.ofString ∘ jstr),
    ifaces := (jarr (jget j "ifaces")).map fun i =>
      { module := jstr (jget i "module"), last := nameOf (jstr (jget i "last")), alias := strOpt (jget i "alias"),
        customMsg := jbool (jget i "custom_msg"), customQuery := jbool (jget i "custom_query") },
    msgAttrs := msgAttrsOf (jget j "msg_attrs"),
    methods := (jarr (jget j "methods")).map methodOf,
    epGenerics := (jarr (jget j "ep_generics")).map jstr }

def interfaceOf (j : Json) : Interface :=
  { name := jstr (jget j "name"),
    assoc := (jarr (jget j "assoc")).map fun a => { name := jstr (jget a "name"), bounds := jstr (jget a "bounds"), tys := (jarr (jget a "tys")).map tyOf },
    customMsg := strOpt (jget j "custom_msg"), customQuery := strOpt (jget j "custom_query"),
    msgAttrs := msgAttrsOf (jget j "msg_attrs"),
    methods := (jarr (jget j "methods")).map methodOf }

end Driver
