import Sylvia.Model.Json
/-! A plain recursive-descent JSON reader for the driver (fuelled; not part of the verified model). -/
namespace Driver
open Sylvia

abbrev P := List Char

def skipWs : P → P
  | c :: t => if c = ' ' || c = '\n' || c = '\t' || c = '\r' then skipWs t else c :: t
  | [] => []

def hexv (c : Char) : Option Nat :=
  if c.isDigit then some (c.toNat - 48)
  else if 'a' ≤ c && c ≤ 'f' then some (c.toNat - 87)
  else if 'A' ≤ c && c ≤ 'F' then some (c.toNat - 55) else none

def parseHex4 : P → Option (Nat × P)
  | a :: b :: c :: d :: t => do
    let a ← hexv a; let b ← hexv b; let c ← hexv c; let d ← hexv d
    some (((a * 16 + b) * 16 + c) * 16 + d, t)
  | _ => none

/-- after the opening quote -/
def parseStrBody : Nat → P → List Char → Option (String × P)
  | 0, _, _ => none
  | _, [], _ => none
  | fuel + 1, c :: t, acc =>
    if c = '"' then some (String.ofList acc.reverse, t)
    else if c = '\\' then
      match t with
      | 'n' :: t => parseStrBody fuel t ('\n' :: acc)
      | 't' :: t => parseStrBody fuel t ('\t' :: acc)
      | 'r' :: t => parseStrBody fuel t ('\r' :: acc)
      | 'b' :: t => parseStrBody fuel t (Char.ofNat 8 :: acc)
      | 'f' :: t => parseStrBody fuel t (Char.ofNat 12 :: acc)
      | '/' :: t => parseStrBody fuel t ('/' :: acc)
      | '"' :: t => parseStrBody fuel t ('"' :: acc)
      | '\\' :: t => parseStrBody fuel t ('\\' :: acc)
      | 'u' :: t =>
        match parseHex4 t with
        | some (n, t) =>
          if 0xD800 ≤ n && n < 0xDC00 then
            match t with
            | '\\' :: 'u' :: t2 =>
              match parseHex4 t2 with
              | some (m, t3) => parseStrBody fuel t3 (Char.ofNat (0x10000 + (n - 0xD800) * 1024 + (m - 0xDC00)) :: acc)
              | none => none
            | _ => none
          else parseStrBody fuel t (Char.ofNat n :: acc)
        | none => none
      | _ => none
    else parseStrBody fuel t (c :: acc)

def isNumChar (c : Char) : Bool := c.isDigit || c = '-' || c = '+' || c = '.' || c = 'e' || c = 'E'

mutual
def parseVal : Nat → P → Option (Json × P)
  | 0, _ => none
  | fuel + 1, p =>
    match skipWs p with
    | 'n' :: 'u' :: 'l' :: 'l' :: t => some (.null, t)
    | 't' :: 'r' :: 'u' :: 'e' :: t => some (.bool true, t)
    | 'f' :: 'a' :: 'l' :: 's' :: 'e' :: t => some (.bool false, t)
    | '"' :: t => (parseStrBody (t.length + 1) t []).map fun (s, t) => (.str s, t)
    | '[' :: t =>
      match skipWs t with
      | ']' :: t => some (.arr [], t)
      | t => (parseElems fuel t []).map fun (xs, t) => (.arr xs, t)
    | '{' :: t =>
      match skipWs t with
      | '}' :: t => some (.obj [], t)
      | t => (parseMembers fuel t []).map fun (ms, t) => (.obj ms, t)
    | c :: t =>
      if c.isDigit || c = '-' then
        let numCs := (c :: t).takeWhile isNumChar
        some (.num (String.ofList numCs), (c :: t).dropWhile isNumChar)
      else none
    | [] => none
def parseElems : Nat → P → List Json → Option (List Json × P)
  | 0, _, _ => none
  | fuel + 1, p, acc =>
    match parseVal fuel p with
    | none => none
    | some (v, t) =>
      match skipWs t with
      | ',' :: t => parseElems fuel t (v :: acc)
      | ']' :: t => some ((v :: acc).reverse, t)
      | _ => none
def parseMembers : Nat → P → List (String × Json) → Option (List (String × Json) × P)
  | 0, _, _ => none
  | fuel + 1, p, acc =>
    match skipWs p with
    | '"' :: t =>
      match parseStrBody (t.length + 1) t [] with
      | none => none
      | some (k, t) =>
        match skipWs t with
        | ':' :: t =>
          match parseVal fuel t with
          | none => none
          | some (v, t) =>
            match skipWs t with
            | ',' :: t => parseMembers fuel t ((k, v) :: acc)
            | '}' :: t => some (((k, v) :: acc).reverse, t)
            | _ => none
        | _ => none
    | _ => none
end

/-- whole-document parse: trailing non-blank characters are an error -/
def parseJson (s : String) : Option Json :=
  let cs := s.toList
  match parseVal (cs.length + 2) cs with
  | some (v, rest) => if (skipWs rest).isEmpty then some v else none
  | none => none

/-- first JSON value of the text and whether non-blank characters follow it (`from_slice` decodes the
value first and only then complains about trailing characters) -/
def parseJsonPrefix (s : String) : Option (Json × Bool) :=
  let cs := s.toList
  match parseVal (cs.length + 2) cs with
  | some (v, rest) => some (v, !(skipWs rest).isEmpty)
  | none => none

open Json in
def jget (j : Json) (k : String) : Json :=
  match j with
  | .obj ms => (Json.get? ms k).getD .null
  | _ => .null

def jstr : Json → String | .str s => s | .num t => t | _ => ""
def jstr? : Json → Option String | .str s => some s | _ => none
def jbool : Json → Bool | .bool b => b | _ => false
def jarr : Json → List Json | .arr xs => xs | _ => []
def jnat : Json → Nat | .num t => t.toNat?.getD 0 | _ => 0

end Driver
