import Sylvia.Model.Inter
import Sylvia.Model.Lex
import Sylvia.Model.Casing
import Sylvia.Driver.Util
import Sylvia.Driver.Ops
import Sylvia.Driver.MtOps
import Sylvia.Model.WF
/-! The driver loop shared by `svmodel` (Main.lean) and its fallback `svmodel_core` (MainCore.lean). `svmodel`: one operation per input line, one canonical line of output per operation.
The same operation files are fed to the Rust harnesses; the streams are diffed by ./check. -/
namespace DriverLoop
open Driver

def parseLists (s : String) : List (List (List Nat)) :=
  if s == "-" then [] else
  (s.splitOn "|").map fun arr => if arr.isEmpty then [] else (arr.splitOn ",").map unhexBytes

def opInter (rest : String) : String :=
  match Inter.assertNoIntersection Lex.lexLt (parseLists rest) with
  | some true => "ok" | some false => "panic" | none => "fuel"

open Casing in
def opCase (rest : String) : String :=
  match identOfString rest with
  | none => "bad-op"
  | some n =>
    let camel := ccUpperCamel n
    s!"{identToString camel} {identToString (ccSnake camel)} {identToString (ccUpperSnake n)} {identToString (serdeSnake camel)}"

/-- `extra`: operations that run code regenerated from the Rust source (absent from the fallback driver `svmodel_core`) -/
def handle (extra : String → String → Option String) (line : String) : String :=
  let (op, rest) := splitOp line
  match op with
  | "inter" => opInter rest
  | "case" => opCase rest
  | _ => match extra op rest with
    | some r => r
    | none => "bad-op " ++ op

partial def loop (extra : String → String → Option String) (h : IO.FS.Stream) (out : IO.FS.Stream) (st : State) : IO Unit := do
  let line ← h.getLine
  if line.isEmpty then return ()
  let l := if line.endsWith "\n" then (line.dropEnd 1).toString else line
  let (op, rest) := splitOp l
  if op == "mtp" then out.putStrLn (Driver.opMtp st rest); loop extra h out st
  else if op == "mtr" then out.putStrLn (Driver.opMtr st rest); loop extra h out st
  else if op == "wf" then out.putStrLn (toString (Sylvia.Gen.progWFb (Driver.progOf st))); loop extra h out st
  else if op == "mtlower" then out.putStrLn (Driver.opMtlower st rest); loop extra h out st
  else
  match step st l with
  | (st', some r) => out.putStrLn r; loop extra h out st'
  | (st', none) => out.putStrLn (handle extra l); loop extra h out st'

def mainWith (extra : String → String → Option String) : IO Unit := do
  let out ← IO.getStdout
  loop extra (← IO.getStdin) out {}
  out.flush
end DriverLoop
