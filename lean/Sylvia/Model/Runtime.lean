import Sylvia.Model.Serde
/-! Runtime library of `sylvia`: the stored remote handle (`types::Remote`) and the bridging of
responses to chain-custom message types (`into_response`). -/
namespace Sylvia.Runtime
open Serde

-- ------------------------------------------------------------------------------------------------
-- Remote<'a, Contract>
-- ------------------------------------------------------------------------------------------------

/-- how the handle holds the address (`Cow::Owned` / `Cow::Borrowed`) -/
inductive Ownership | owned | borrowed
  deriving DecidableEq, Repr

/-- `Remote<'a, Contract>`: the type index `ι` stands for the (phantom) contract / interface parameter -/
structure Remote (ι : Type) where
  addr : String
  own : Ownership := .owned

def remoteFields : List FieldSpec := [{ name := "addr", ty := .addr }]

/-- serde derive with `#[serde(skip)]` on the phantom: a single member `addr` -/
def Remote.encode {ι : Type} (r : Remote ι) : Json := .obj [("addr", .str r.addr)]

def Remote.decode (ι : Type) (d : Json) : Option (Remote ι) :=
  match decodeStruct false remoteFields d with
  | some [(_, .str a)] => some { addr := a }
  | _ => none

def Remote.schemaName (_ι : Type) : String := "Remote"

-- ------------------------------------------------------------------------------------------------
-- IntoResponse
-- ------------------------------------------------------------------------------------------------

/-- the variants of `cosmwasm_std::CosmosMsg<T>` (with the features the harness enables); payloads are opaque -/
inductive MsgKind | bank | custom | staking | distribution | stargate | ibc | wasm | gov | any
  deriving DecidableEq, Repr

inductive ReplyTrigger | always | error | success | never
  deriving DecidableEq, Repr

structure SubMsg where
  id : Nat
  payload : String
  kind : MsgKind
  /-- opaque content of the message -/
  content : String
  gasLimit : Option Nat
  replyOn : ReplyTrigger
  deriving DecidableEq, Repr

structure Response where
  messages : List SubMsg
  attributes : List (String × String)
  events : List (String × List (String × String))
  data : Option String
  deriving DecidableEq, Repr

inductive ConvErr | customEmpty | unknownVariant
  deriving DecidableEq, Repr

/-- `IntoMsg::into_msg`: every field kept, the message re-tagged; a custom message is refused.
`convertible` lists the kinds the `match` has an arm for (regenerated from the source). -/
def intoMsg (convertible : List MsgKind) (m : SubMsg) : Except ConvErr SubMsg :=
  if m.kind = .custom then .error .customEmpty
  else if convertible.contains m.kind then .ok m
  else .error .unknownVariant

def intoMsgs (convertible : List MsgKind) : List SubMsg → Except ConvErr (List SubMsg)
  | [] => .ok []
  | m :: r =>
    match intoMsg convertible m with
    | .error e => .error e
    | .ok m' =>
      match intoMsgs convertible r with
      | .error e => .error e
      | .ok r' => .ok (m' :: r')

/-- `IntoResponse::into_response` -/
def intoResponse (convertible : List MsgKind) (r : Response) : Except ConvErr Response :=
  match intoMsgs convertible r.messages with
  | .error e => .error e
  | .ok ms => .ok { messages := ms, events := r.events, attributes := r.attributes, data := r.data }

/-- every non-custom kind -/
def allNonCustom : List MsgKind := [.bank, .staking, .distribution, .stargate, .ibc, .wasm, .gov, .any]

-- ------------------------------------------------------------------------------------------------
-- builders (`types::ExecutorBuilder`, `builder::instantiate::InstantiateBuilder`) and the admin helpers of `Remote`
-- ------------------------------------------------------------------------------------------------

/-- what `Remote::executor().with_funds(..)*.<method>(args)?.build()` yields -/
structure ExecuteMsg where
  contractAddr : String
  funds : String
  body : String
  deriving DecidableEq, Repr

/-- `ExecutorBuilder::new(addr)` has no funds; every `with_funds` replaces them -/
def executorFunds (sets : List String) : String := sets.getLast?.getD ""

def executorBuild {ι : Type} (r : Remote ι) (fundSets : List String) (body : String) : ExecuteMsg :=
  { contractAddr := r.addr, funds := executorFunds fundSets, body := body }

structure InstBuilder where
  msg : String
  codeId : Nat
  admin : Option String := none
  label : Option String := none
  funds : String := ""
  deriving DecidableEq, Repr

inductive Setter | label (s : String) | admin (s : String) | funds (f : String)
  deriving DecidableEq, Repr

def InstBuilder.set (b : InstBuilder) : Setter → InstBuilder
  | .label s => { b with label := some s }
  | .admin s => { b with admin := some s }
  | .funds f => { b with funds := f }

structure InstantiateMsg where
  codeId : Nat
  msg : String
  admin : Option String
  label : String
  funds : String
  salt : Option String
  deriving DecidableEq, Repr

def InstBuilder.build (b : InstBuilder) : InstantiateMsg :=
  { codeId := b.codeId, msg := b.msg, admin := b.admin, label := b.label.getD "", funds := b.funds, salt := none }

def InstBuilder.build2 (b : InstBuilder) (salt : String) : InstantiateMsg := { b.build with salt := some salt }

inductive AdminMsg | update (contractAddr admin : String) | clear (contractAddr : String)
  deriving DecidableEq, Repr

def Remote.updateAdmin {ι : Type} (r : Remote ι) (a : String) : AdminMsg := .update r.addr a
def Remote.clearAdmin {ι : Type} (r : Remote ι) : AdminMsg := .clear r.addr

end Sylvia.Runtime
