import Sylvia.Model.Gen
import Sylvia.Model.Reply
/-! What the `contract` / `interface` macros emit, as comparable facts: per generated message type its
name, generic parameters, where-predicates, forwarded attributes, variants with their attributes and
fields; the split of the user's generic parameters into used / unused per message type. -/
namespace Sylvia.Facts
open Gen Casing

-- ------------------------------------------------------------------------------------------------
-- `StripSelfPath` and `CheckGenerics`
-- ------------------------------------------------------------------------------------------------
mutual
/-- `StripSelfPath`: path segments named `Self` are removed everywhere -/
def stripSelf : Ty → Ty
  | .path segs => .path (stripSegs segs)
  | .qpath q segs => .qpath (stripSelf q) (stripSegs segs)
  | .tuple ts => .tuple (stripTys ts)
  | .array t n => .array (stripSelf t) n
  | .opaque t => .opaque t
def stripSegs : Segs → Segs
  | .nil => .nil
  | .cons n args rest => if n == "Self" then stripSegs rest else .cons n (stripTys args) (stripSegs rest)
def stripTys : Tys → Tys
  | .nil => .nil
  | .cons t ts => .cons (stripSelf t) (stripTys ts)
end

mutual
/-- bare identifiers (single-segment paths without arguments) a type mentions, in `syn::visit` order -/
def occTy : Ty → List String
  | .path (.cons n .nil .nil) => [n]
  | .path segs => occSegs segs
  | .qpath q segs => occTy q ++ occSegs segs
  | .tuple ts => occTys ts
  | .array t _ => occTy t
  | .opaque _ => []
def occSegs : Segs → List String
  | .nil => []
  | .cons _ args rest => occTys args ++ occSegs rest
def occTys : Tys → List String
  | .nil => []
  | .cons t ts => occTy t ++ occTys ts
end

/-- first occurrences, in order -/
def dedup : List String → List String
  | [] => []
  | x :: r => x :: (dedup r).filter (· != x)

/-- `CheckGenerics::used`: the parameters among `gens` that occur, in order of first occurrence -/
def usedOf (gens : List String) (occ : List String) : List String := dedup (occ.filter gens.contains)

/-- response type of a query: `resp=` if given, else the first type argument of the return type (`Result<T, _>` / `StdResult<T>`) -/
def respTy (m : Method) : Option Ty :=
  match m.msg.bind (·.resp) with
  | some r => some (.path (.cons r .nil .nil))
  | none =>
    match m.ret with
    | .path (.cons _ (.cons t _) _) => some t
    | _ => none

/-- what `MsgVariant::new` feeds the generics checker for one method of kind `k` -/
def methodOcc (k : Kind) (m : Method) : List String :=
  (m.args.flatMap fun a => occTy (stripSelf a.ty)) ++
  (if k == .query then
    match m.msg.bind (·.resp), respTy m with
    | some r, _ => [r]
    | none, some t => occTy (stripSelf t)
    | none, none => []
   else [])

/-- used generic parameters of the message type of kind `k` -/
def usedGenerics (k : Kind) (gens : List String) (ms : List Method) : List String :=
  usedOf gens ((variantsOf k ms).flatMap (methodOcc k))

def unusedGenerics (k : Kind) (gens : List String) (ms : List Method) : List String :=
  gens.filter fun g => !(usedGenerics k gens ms).contains g

/-- `filter_wheres`: a predicate is kept iff every parameter it mentions is used -/
def filterWheres (gens used : List String) (ws : List WherePred) : List WherePred :=
  ws.filter fun w => (usedOf gens (w.tys.flatMap occTy)).all used.contains

-- ------------------------------------------------------------------------------------------------
-- emitted facts
-- ------------------------------------------------------------------------------------------------
structure FieldFact where
  name : String
  ty : String
  attrs : List String
  deriving Repr

structure VariantFact where
  name : String
  attrs : List String
  fields : List FieldFact
  deriving Repr

structure MsgFact where
  name : String
  generics : List String
  /-- where-predicates on the inherent impl of the type -/
  wheres : List String
  /-- attributes on the type besides the fixed derive block -/
  attrs : List String
  variants : List VariantFact
  /-- generic parameters of the `dispatch` function (the unused ones) -/
  dispatchGenerics : List String
  deriving Repr

def svAttrTexts (a : Arg) : List String :=
  (match a.data with
   | some d =>
     let fl := (if d.raw then ["raw"] else []) ++ (if d.opt then ["opt"] else []) ++ (if d.instantiate then ["instantiate"] else [])
     [if fl.isEmpty then "sv::data" else "sv::data(" ++ ",".intercalate fl ++ ")"]
   | none => []) ++ (if a.payloadRaw then ["sv::payload(raw)"] else [])

/-- `MsgField::emit`: every attribute written on the argument is copied onto the field -/
def fieldFact (a : Arg) : FieldFact := { name := a.name, ty := tyRender (stripSelf a.ty), attrs := a.attrs ++ svAttrTexts a }

def returnsAttr (k : Kind) (m : Method) : List String :=
  if k == .query then
    match respTy m with
    | some t => ["returns(" ++ tyRender (stripSelf t) ++ ")"]
    | none => []
  else []

/-- `MsgVariant::emit` -/
def variantFact (k : Kind) (m : Method) : VariantFact :=
  { name := Casing.toString (variantName m), attrs := returnsAttr k m ++ m.fwd, fields := m.args.map fieldFact }

def tupleOf (gs : List String) : String := "(" ++ String.join (gs.map (· ++ ",")) ++ ")"

/-- `emit_phantom_variant` -/
def phantomVariant (k : Kind) (used : List String) : List VariantFact :=
  if used.isEmpty then [] else
  [{ name := "_Phantom",
     attrs := ["serde(skip)"] ++ (if k == .query then ["returns(" ++ tupleOf used ++ ")"] else []),
     fields := [{ name := "", ty := "std::marker::PhantomData<" ++ tupleOf used ++ ">", attrs := [] }] }]

def kindWord : Kind → Str
  | .exec => [101, 120, 101, 99] | .query => [113, 117, 101, 114, 121] | .instantiate => [105, 110, 115, 116, 97, 110, 116, 105, 97, 116, 101]
  | .migrate => [109, 105, 103, 114, 97, 116, 101] | .reply => [114, 101, 112, 108, 121] | .sudo => [115, 117, 100, 111]

/-- `sv::msg_attr(<kind>, ..)` attributes forwarded to the type of kind `k`: the kind word is read with
the regenerated `MsgAttrForwarding` table -/
def forwardedTo (k : Kind) (msgAttrs : List (Str × String)) : List String :=
  msgAttrs.filterMap fun (w, t) => if lookup Extracted.msgAttrFwdParse w == some k then some t else none

def msgTypeName (k : Kind) : String := strOfBytes' ((lookup Extracted.msgName k).getD [])
where strOfBytes' (s : Str) : String := String.ofList (s.map Char.ofNat)

def genText (gens : List GenericParam) (n : String) : String := ((gens.find? (·.name == n)).map (·.text)).getD n

/-- enum message of a contract (`contract/communication/enum_msg.rs`) -/
def contractEnum (k : Kind) (c : Contract) : MsgFact :=
  let gens := c.generics.map (·.name)
  let used := usedGenerics k gens c.methods
  { name := msgTypeName k,
    generics := used.map (genText c.generics),
    wheres := [],
    attrs := forwardedTo k c.msgAttrs ++ ["serde(rename_all=\"snake_case\")"],
    variants := (variantsOf k c.methods).map (variantFact k) ++ phantomVariant k used,
    dispatchGenerics := (unusedGenerics k gens c.methods).map (genText c.generics) }

/-- struct message of a contract (`struct_msg.rs`): present iff exactly one method of the kind -/
def contractStruct (k : Kind) (c : Contract) : Option MsgFact :=
  match variantsOf k c.methods with
  | [m] =>
    let gens := c.generics.map (·.name)
    let used := usedGenerics k gens c.methods
    some { name := msgTypeName k,
           generics := used.map (genText c.generics),
           wheres := (filterWheres gens used c.wheres).map (·.text),
           attrs := forwardedTo k c.msgAttrs ++ ["serde(rename_all=\"snake_case\")"],
           variants := [{ name := "", attrs := [], fields := m.args.map fieldFact }],
           dispatchGenerics := (unusedGenerics k gens c.methods).map (genText c.generics) }
  | _ => none

/-- enum message of an interface (`interface/communication/enum_msg.rs`); generics are the associated types except `Error` -/
def interfaceEnum (k : Kind) (i : Interface) : MsgFact :=
  let assoc := (i.assoc.filter (·.name != "Error"))
  let gens := assoc.map (·.name)
  let used := usedGenerics k gens i.methods
  let ws : List WherePred := assoc.map fun a => { text := a.name ++ a.bounds, tys := .path (.cons a.name .nil .nil) :: a.tys }
  { name := i.name ++ msgTypeName k,
    generics := used,
    wheres := (filterWheres gens used ws).map (·.text),
    attrs := forwardedTo k i.msgAttrs ++ ["serde(rename_all=\"snake_case\")"],
    variants := (variantsOf k i.methods).map (variantFact k) ++ phantomVariant k used,
    dispatchGenerics := "ContractT" :: unusedGenerics k gens i.methods }

/-- `emit_bracketed_generics` -/
def bracketed (gs : List String) : String := if gs.isEmpty then "" else "<" ++ String.join (gs.map (· ++ ",")) ++ ">"

/-- the aliases of `impl ContractApi for <contract>` that name message types -/
def contractApi (c : Contract) : List (String × String) :=
  let gens := c.generics.map (·.name)
  let all := c.generics.map (·.text)
  let of (k : Kind) := msgTypeName k ++ bracketed ((usedGenerics k gens c.methods).map (genText c.generics))
  [("ContractExec", "ContractExecMsg" ++ bracketed all), ("ContractQuery", "ContractQueryMsg" ++ bracketed all),
   ("ContractSudo", "ContractSudoMsg" ++ bracketed all),
   ("Exec", of .exec), ("Query", of .query), ("Sudo", of .sudo), ("Instantiate", of .instantiate),
   ("Migrate", if (variantsOf .migrate c.methods).isEmpty then "sylvia::cw_std::Empty" else of .migrate)]

/-- the aliases of `impl<Contract: Ifc> InterfaceMessagesApi for Contract` -/
def interfaceApi (i : Interface) : List (String × String) :=
  let gens := (i.assoc.filter (·.name != "Error")).map (·.name)
  let of (k : Kind) := msgTypeName k ++ "<" ++ String.join ((usedGenerics k gens i.methods).map fun g => "<Contractas" ++ i.name ++ ">::" ++ g ++ ",") ++ ">"
  [("Exec", of .exec), ("Query", of .query), ("Sudo", of .sudo)]

end Sylvia.Facts
