/-! casing model over the ASCII identifier alphabet -/
namespace Casing

inductive Ch
  | lower (n : Fin 26) | upper (n : Fin 26) | digit (n : Fin 10) | us
  deriving DecidableEq, Repr

open Ch

def isLower : Ch → Bool | lower _ => true | _ => false
def isUpper : Ch → Bool | upper _ => true | _ => false
def isDigit : Ch → Bool | digit _ => true | _ => false
def toUpper : Ch → Ch | lower n => upper n | c => c
def toLower : Ch → Ch | upper n => lower n | c => c

/-- convert_case default boundaries that fire *after* character `c` given the rest of the string -/
def boundaryAfter (c : Ch) : List Ch → Bool
  | [] => false
  | d :: e =>
    (isLower c && isUpper d) || (isLower c && isDigit d) || (isUpper c && isDigit d) ||
    (isDigit c && isLower d) || (isDigit c && isUpper d) ||
    (isUpper c && isUpper d && (match e with | f :: _ => isLower f | [] => false))

/-- `split`, keeping empty words (filtered later). `cur` is the current word, reversed. -/
def splitGo : List Ch → List Ch → List (List Ch)
  | [], cur => [cur.reverse]
  | c :: rest, cur =>
    if c = us then cur.reverse :: splitGo rest []
    else if boundaryAfter c rest then (c :: cur).reverse :: splitGo rest []
    else splitGo rest (c :: cur)

def ccSplit (s : List Ch) : List (List Ch) := (splitGo s []).filter (· ≠ [])

def capital : List Ch → List Ch
  | [] => []
  | c :: t => toUpper c :: t.map toLower

def ccUpperCamel (s : List Ch) : List Ch := ((ccSplit s).map capital).flatten
def ccSnake (s : List Ch) : List Ch := List.intercalate [us] ((ccSplit s).map (·.map toLower))
def ccUpperSnake (s : List Ch) : List Ch := List.intercalate [us] ((ccSplit s).map (·.map toUpper))

/-- serde_derive RenameRule::SnakeCase.apply_to_variant -/
def serdeGo : Bool → List Ch → List Ch
  | _, [] => []
  | first, c :: t => (if !first && isUpper c then [us, toLower c] else [toLower c]) ++ serdeGo false t

def serdeSnake (s : List Ch) : List Ch := serdeGo true s

/-- a word: non-empty lower-case letters followed by digits -/
structure Word where
  l0 : Fin 26
  ls : List (Fin 26)
  ds : List (Fin 10)

def Word.chars (w : Word) : List Ch := lower w.l0 :: w.ls.map lower ++ w.ds.map digit

def render : List Word → List Ch
  | [] => []
  | [w] => w.chars
  | w :: ws => w.chars ++ us :: render ws

def charOfCh : Ch → Char
  | lower n => Char.ofNat (97 + n) | upper n => Char.ofNat (65 + n)
  | digit n => Char.ofNat (48 + n) | us => '_'

/-- the identifier as text -/
def toString (s : List Ch) : String := String.ofList (s.map charOfCh)

end Casing
