import Sylvia.Model.Dispatch
/-! The multitest layer: generated proxies (`sv::mt`: `CodeId`, `InstantiateProxy`, the `*Proxy` traits,
`ExecProxy` / `MigrateProxy`) against the raw operations of the test chain.

The chain itself (cw-multi-test) is not sylvia's code; it is modelled only as far as the histories of the
correspondence stream exercise it: balances of one denomination, contract records (code, creator, admin,
label, storage of the echo handlers), atomic steps, and its own four errors (insufficient funds, address
already taken, not the admin, unknown code). Handlers are the corpus' echo handlers.

Two semantics are given for a history:
* `rawStep`: the operation carries JSON; the chain hands it to the contract, which decodes the wrapper /
  message struct and dispatches (`Dispatch.route`, the model of the generated code);
* `proxyStep`: the operation names a handler and typed arguments; the *specification* of a proxy call is the
  direct call of that handler (`specOutcome`), with the result passed through the proxy's error conversion.
`lower` is what the generated proxy code does: build the message with the like-named constructor, serialise
it, and submit it with the options collected so far. -/
namespace Sylvia.Mt
open Gen Serde Dispatch

-- ------------------------------------------------------------------------------------------------
-- the chain
-- ------------------------------------------------------------------------------------------------

structure Inst where
  codeId : Nat
  creator : String
  admin : Option String
  label : String
  bal : Nat
  /-- storage key `fail`: the handler made to fail -/
  fail : Option String
  /-- storage keys `ran` / `last`: id and echo of the last state-changing handler that succeeded -/
  last : Option (String × String)
  deriving Repr, DecidableEq, Inhabited

structure Chain where
  /-- number of stored codes; code ids are `1 .. codes` -/
  codes : Nat
  slots : List (Option Inst)
  accounts : List (String × Nat)
  /-- `(code id, creator, salt)` of the predictable addresses already taken -/
  used : List (Nat × String × String)
  deriving Repr, DecidableEq, Inhabited

def accountNames : List String := ["alice", "bob", "carol", "failer"]

def Chain.init : Chain := { codes := 0, slots := [], accounts := accountNames.map fun a => (a, 1000), used := [] }

def balOf (ch : Chain) (who : String) : Nat := ((ch.accounts.find? (·.1 == who)).map (·.2)).getD 0

def debit (ch : Chain) (who : String) (n : Nat) : Chain :=
  { ch with accounts := ch.accounts.map fun (a, b) => if a == who then (a, b - n) else (a, b) }

def setSlot (ch : Chain) (i : Nat) (x : Inst) : Chain := { ch with slots := ch.slots.set i (some x) }

/-- what an execute carries: an amount of the chain's one denomination (0 = no coins at all), or a coin list holding a
zero-amount coin, which the bank refuses ("Cannot transfer empty coins amount") -/
inductive Funds | amount (n : Nat) | zeroCoin
  deriving Repr, DecidableEq

def Funds.n : Funds → Nat
  | .amount n => n
  | .zeroCoin => 0

inductive ChainErr | funds | duplicate | notAdmin | badCode | noLabel | emptyCoins
  deriving Repr, DecidableEq

/-- what the caller of one operation gets back -/
inductive Res
  | code (id : Nat)
  | done
  | addr (slot : Nat)
  | resp (events : String)
  | answer (json : String)
  /-- the handler's own error, as the text of the value of the contract's error type -/
  | handlerErr (text : String)
  | chainErr (e : ChainErr)
  | decodeErr (text : String)
  /-- the operation names a code / contract the history never created, or a message the program does not have -/
  | missing (what : String)
  | panic
  deriving Repr, DecidableEq, Inhabited

/-- an operation of the chain without its message -/
inductive Shape
  | store
  | setfail (slot : Nat) (marker : Option String)
  | inst (code : Nat) (sender : String) (funds : Nat) (label : String) (admin : Option String) (salt : Option String)
  | exec (slot : Nat) (sender : String) (funds : Funds)
  | query (slot : Nat)
  | sudo (slot : Nat)
  | mig (slot : Nat) (sender : String) (newCode : Nat)
  deriving Repr, DecidableEq, Inhabited

def Shape.kind : Shape → Option Kind
  | .inst .. => some .instantiate | .exec .. => some .exec | .query .. => some .query
  | .sudo .. => some .sudo | .mig .. => some .migrate | _ => none

def blockHeight : String := "12345"

/-- the context the chain gives the contract -/
def Shape.ctx : Shape → CtxIn
  | .inst _ sender funds .. => { sender := sender, funds := toString funds, height := blockHeight, seed := "", fail := "-" }
  | .exec _ sender funds => { sender := sender, funds := toString funds.n, height := blockHeight, seed := "", fail := "-" }
  | _ => { sender := "", funds := "0", height := blockHeight, seed := "", fail := "-" }

def echoAttrsAt (addr : String) (call : Call) : List (String × String) :=
  [("ran", call.handler), ("args", (Json.obj call.args).render)]
  ++ (if call.kind = .exec ∨ call.kind = .instantiate then
        [("sender", call.ctx.sender), ("funds", if call.ctx.funds = "0" then "" else call.ctx.funds ++ "utok")] else [])
  ++ [("height", call.ctx.height), ("addr", addr), ("seed", call.ctx.seed)]

def echoText (slot : Nat) (call : Call) : String :=
  "|".intercalate ((echoAttrsAt ("#" ++ toString slot) call).map fun (k, v) => k ++ "=" ++ v)

/-- the echo handlers fail when the storage marker names them, or (handlers that see the sender) for the account `failer` -/
def failing (marker : Option String) (call : Call) : Bool :=
  marker == some call.handler || ((call.kind == .exec || call.kind == .instantiate) && call.ctx.sender == "failer")

def errText (p : Program) (m : Method) (call : Call) : String :=
  failText p.contract.error.isSome (retErrTy m.ret) call.handler

/-- the chain wraps a migrate response's data in a protobuf envelope (field 1, length-delimited; handler ids are short) -/
def chainData (call : Call) : String :=
  if call.kind = .migrate then
    let d := "m:" ++ call.handler
    "0a" ++ String.ofList [hexDigit (d.length / 16), hexDigit (d.length % 16)] ++ hexText d
  else "-"

def respText (head : String) (slot : Nat) (call : Call) : String :=
  head ++ "+wasm[_contract_address=#" ++ toString slot ++ "|" ++ echoText slot call ++ "] data=" ++ chainData call

/-- one atomic step of the chain, once the contract has (or has not) decoded the message into a call -/
def stepWith (p : Program) (ch : Chain) (s : Shape) (o : Outcome) : Chain × Res :=
  match s with
  | .store => ({ ch with codes := ch.codes + 1 }, .code (ch.codes + 1))
  | .setfail slot marker =>
    match ch.slots[slot]? with
    | some (some x) => (setSlot ch slot { x with fail := marker }, .done)
    | _ => (ch, .missing "no-contract")
  | .inst code sender funds label admin salt =>
    if code < ch.codes then
      let slot := ch.slots.length
      let failed := { ch with slots := ch.slots ++ [none] }
      let key := (code + 1, sender, salt.getD "")
      if label.isEmpty then (failed, .chainErr .noLabel)
      else if salt.isSome && ch.used.contains key then (failed, .chainErr .duplicate)
      else if balOf ch sender < funds then (failed, .chainErr .funds)
      else
        match o with
        | .decodeErr t => (failed, .decodeErr t)
        | .ran call m _ =>
          if failing none call then (failed, .handlerErr (errText p m call))
          else
            let x : Inst := { codeId := code + 1, creator := sender, admin := admin, label := label, bal := funds,
                              fail := none, last := some (call.handler, echoText slot call) }
            let ch' := debit ch sender funds
            ({ ch' with slots := ch.slots ++ [some x], used := if salt.isSome then key :: ch.used else ch.used }, .addr slot)
    else (ch, .missing "no-code")
  | .exec slot sender funds =>
    match ch.slots[slot]? with
    | some (some x) =>
      if funds = .zeroCoin then (ch, .chainErr .emptyCoins)
      else if balOf ch sender < funds.n then (ch, .chainErr .funds)
      else
        match o with
        | .decodeErr t => (ch, .decodeErr t)
        | .ran call m _ =>
          if failing x.fail call then (ch, .handlerErr (errText p m call))
          else
            (setSlot (debit ch sender funds.n) slot { x with bal := x.bal + funds.n, last := some (call.handler, echoText slot call) },
             .resp (respText ("execute[_contract_address=#" ++ toString slot ++ "]") slot call))
    | _ => (ch, .missing "no-contract")
  | .query slot =>
    match ch.slots[slot]? with
    | some (some x) =>
      match o with
      | .decodeErr t => (ch, .decodeErr t)
      | .ran call m _ =>
        if failing x.fail call then (ch, .handlerErr (errText p m call))
        else (ch, .answer (Dispatch.queryBody m.ret (echoAttrsAt ("#" ++ toString slot) call)).render)
    | _ => (ch, .missing "no-contract")
  | .sudo slot =>
    match ch.slots[slot]? with
    | some (some x) =>
      match o with
      | .decodeErr t => (ch, .decodeErr t)
      | .ran call m _ =>
        if failing x.fail call then (ch, .handlerErr (errText p m call))
        else (setSlot ch slot { x with last := some (call.handler, echoText slot call) },
              .resp (respText ("sudo[_contract_address=#" ++ toString slot ++ "]") slot call))
    | _ => (ch, .missing "no-contract")
  | .mig slot sender newCode =>
    match ch.slots[slot]? with
    | some (some x) =>
      if !(newCode < ch.codes) then (ch, .chainErr .badCode)
      else if x.admin != some sender then (ch, .chainErr .notAdmin)
      else
        match o with
        | .decodeErr t => (ch, .decodeErr t)
        | .ran call m _ =>
          if failing x.fail call then (ch, .handlerErr (errText p m call))
          else (setSlot ch slot { x with codeId := newCode + 1, last := some (call.handler, echoText slot call) },
                .resp (respText ("migrate[_contract_address=#" ++ toString slot ++ "|code_id=" ++ toString (newCode + 1) ++ "]") slot call))
    | _ => (ch, .missing "no-contract")

-- ------------------------------------------------------------------------------------------------
-- raw histories
-- ------------------------------------------------------------------------------------------------

structure RawOp where
  shape : Shape
  body : Json
  deriving Inhabited

/-- the contract side of a raw operation: decode and route, as the generated `Contract` impl / entry point does -/
def rawOutcome (p : Program) (op : RawOp) : Outcome :=
  match op.shape.kind with
  | some k => route p k op.body op.shape.ctx
  | none => .decodeErr "none"

def rawStep (p : Program) (ch : Chain) (op : RawOp) : Chain × Res := stepWith p ch op.shape (rawOutcome p op)

def runRaw (p : Program) : Chain → List RawOp → Chain × List Res
  | ch, [] => (ch, [])
  | ch, op :: rest =>
    let (ch', r) := rawStep p ch op
    let (ch'', rs) := runRaw p ch' rest
    (ch'', r :: rs)

-- ------------------------------------------------------------------------------------------------
-- proxies
-- ------------------------------------------------------------------------------------------------

/-- options of `InstantiateProxy` -/
structure InstOpts where
  funds : Nat := 0
  label : String := "Contract"
  admin : Option String := none
  salt : Option String := none
  deriving Repr, DecidableEq

inductive MtSetter
  | label (s : String) | admin (a : Option String) | funds (n : Nat) | salt (s : Option String)
  deriving Repr, DecidableEq

def InstOpts.set (o : InstOpts) : MtSetter → InstOpts
  | .label s => { o with label := s } | .admin a => { o with admin := a }
  | .funds n => { o with funds := n } | .salt s => { o with salt := s }

def optsOf (ss : List MtSetter) : InstOpts := ss.foldl InstOpts.set {}

/-- a handler named the way a proxy method names it: part, method, argument values -/
structure MsgRef where
  part : Nat
  method : String
  args : List Json
  deriving Inhabited

inductive ProxyOp
  | store
  | setfail (slot : Nat) (marker : Option String)
  | inst (code : Nat) (sender : String) (setters : List MtSetter) (args : List Json)
  | exec (slot : Nat) (sender : String) (funds : Option Funds) (msg : MsgRef)
  | query (slot : Nat) (msg : MsgRef)
  | sudo (slot : Nat) (msg : MsgRef)
  | mig (slot : Nat) (sender : String) (newCode : Nat) (args : List Json)
  deriving Inhabited

def ProxyOp.shape : ProxyOp → Shape
  | .store => .store
  | .setfail s m => .setfail s m
  | .inst code sender ss _ => let o := optsOf ss; .inst code sender o.funds o.label o.admin o.salt
  | .exec slot sender funds _ => .exec slot sender (funds.getD (.amount 0))
  | .query slot _ => .query slot
  | .sudo slot _ => .sudo slot
  | .mig slot sender nc _ => .mig slot sender nc

/-- the handler a proxy method stands for, and its position -/
def findMethod (p : Program) (k : Kind) (part : Nat) (name : String) : Option (List Method × Nat × Method) :=
  match (partMethods k p)[part]? with
  | some ms =>
    match ms.findIdx? (fun m => Casing.toString m.name == name) with
    | some vi => (ms[vi]?).map fun m => (ms, vi, m)
    | none => none
  | none => none

/-- the single instantiate / migrate handler of the contract -/
def structMethod (p : Program) (k : Kind) : Option Method := (variantsOf k p.contract.methods).head?

/-- canonical JSON of each value at its declared type, position by position -/
def decodeAll : List FieldSpec → List Json → Option (List Json)
  | [], [] => some []
  | f :: fs, v :: vs =>
    match decodeVal false f.ty v, decodeAll fs vs with
    | some c, some cs => some (c :: cs)
    | _, _ => none
  | _, _ => none

/-- the typed values the proxy method receives: canonical JSON of each argument type, in parameter order -/
def typedArgs (m : Method) (vals : List Json) : Option (List Json) := decodeAll (m.args.map fieldSpec) vals

/-- **specification** of a proxy call: the like-named handler is called directly with those values -/
def specOutcome (p : Program) (op : ProxyOp) : Outcome :=
  let c := op.shape.ctx
  match op with
  | .exec _ _ _ r | .query _ r | .sudo _ r =>
    let k := (op.shape.kind).getD .exec
    match findMethod p k r.part r.method with
    | some (_, _, m) =>
      match typedArgs m r.args with
      | some vs => .ran { handler := partId p k r.part ++ "." ++ Casing.toString m.name, kind := k,
                          args := pairUp (m.args.map fieldSpec) vs, ctx := c } m r.part
      | none => .decodeErr "bad-args"
    | none => .decodeErr "bad-op"
  | .inst _ _ _ args | .mig _ _ _ args =>
    let k := (op.shape.kind).getD .instantiate
    match structMethod p k with
    | some m =>
      match typedArgs m args with
      | some vs => .ran { handler := "ct." ++ Casing.toString m.name, kind := k,
                          args := pairUp (m.args.map fieldSpec) vs, ctx := c } m p.contract.ifaces.length
      | none => .decodeErr "bad-args"
    | none => .decodeErr "bad-op"
  | _ => .decodeErr "none"

/-- what the generated proxy code submits: the message built by the like-named constructor, serialised -/
def lowerBody (p : Program) (op : ProxyOp) : Option Json :=
  match op with
  | .exec _ _ _ r | .query _ r | .sudo _ r =>
    let k := (op.shape.kind).getD .exec
    match findMethod p k r.part r.method with
    | some (ms, vi, m) => (typedArgs m r.args).map fun vs => encodeEnum (ms.map variantSpec) vi (pairUp (m.args.map fieldSpec) vs)
    | none => none
  | .inst _ _ _ args | .mig _ _ _ args =>
    let k := (op.shape.kind).getD .instantiate
    match structMethod p k with
    | some m => (typedArgs m args).map fun vs => .obj (pairUp (m.args.map fieldSpec) vs)
    | none => none
  | _ => some .null

def lower (p : Program) (op : ProxyOp) : Option RawOp := (lowerBody p op).map fun b => { shape := op.shape, body := b }

/-- dynamic type of the error the chain hands back (`anyhow::Error`) -/
inductive ErrDyn | own | std | other
  deriving Repr, DecidableEq

/-- how `multitest::downcast_error` (and `ExecProxy::call`) turn it into a value of the contract's error type -/
inductive Converted | asIs | viaFromStd | genericStd
  deriving Repr, DecidableEq

def downcastError : ErrDyn → Converted
  | .own => .asIs | .std => .viaFromStd | .other => .genericStd

/-- dynamic type of each error result: a handler's error is a value of the contract's error type (the generated
`Contract` impl converts with `Into`), the bank's is a `StdError`, the chain's other refusals are its own type -/
def Res.errDyn : Res → Option ErrDyn
  | .handlerErr _ => some .own
  | .chainErr .funds => some .std
  | .chainErr .emptyCoins => some .std
  | .chainErr _ => some .other
  | .decodeErr _ => some .std
  | _ => none

/-- a proxy call: the like-named handler is called directly; every proxy type converts errors totally
(`sitesUnwrapping` lists the generated call sites that still unwrap a downcast: none) -/
def proxyStep (p : Program) (ch : Chain) (op : ProxyOp) : Chain × Res := stepWith p ch op.shape (specOutcome p op)

def runProxy (p : Program) : Chain → List ProxyOp → Chain × List Res
  | ch, [] => (ch, [])
  | ch, op :: rest =>
    let (ch', r) := proxyStep p ch op
    let (ch'', rs) := runProxy p ch' rest
    (ch'', r :: rs)

end Sylvia.Mt
