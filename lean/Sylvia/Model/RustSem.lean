/-! Semantics prelude for functions regenerated from Rust source by the function translator
(`vlib/rs2lean.py`): a result type distinguishing a normal value, a Rust panic (explicit `panic!`,
`unreachable!`, index out of bounds) and fuel exhaustion of a translated `while` loop. -/
namespace RustSem

inductive Res (α : Type) where
  | ok (a : α)
  | panic
  | oof
deriving DecidableEq, Repr

def Res.bind {α β : Type} : Res α → (α → Res β) → Res β
  | .ok a, f => f a
  | .panic, _ => .panic
  | .oof, _ => .oof

/-- how a translated loop ended: ran to completion with the final values of the variables it
assigns (`done`), or left the enclosing function through `return` (`ret`) -/
inductive LoopOut (σ ρ : Type) where
  | done (s : σ)
  | ret (r : ρ)
deriving Repr

/-- `a[i]` -/
def idx {α : Type} (l : List α) (i : Nat) : Res α :=
  match l[i]? with
  | some a => .ok a
  | none => .panic

/-- `a[i] = v` -/
def setIdx {α : Type} (l : List α) (i : Nat) (v : α) : Res (List α) :=
  if i < l.length then .ok (l.set i v) else .panic

/-- `s.char_indices()` for strings over a one-byte alphabet: every character with its byte offset -/
def charIndicesFrom {α : Type} (k : Nat) : List α → List (Nat × α)
  | [] => []
  | a :: t => (k, a) :: charIndicesFrom (k + 1) t

def charIndices {α : Type} (l : List α) : List (Nat × α) := charIndicesFrom 0 l

@[simp] theorem bind_ok {α β : Type} (a : α) (f : α → Res β) : (Res.ok a).bind f = f a := rfl
@[simp] theorem bind_panic {α β : Type} (f : α → Res β) : (Res.panic : Res α).bind f = .panic := rfl
@[simp] theorem bind_oof {α β : Type} (f : α → Res β) : (Res.oof : Res α).bind f = .oof := rfl

theorem idx_of_getElem? {α : Type} {l : List α} {i : Nat} {a : α} (h : l[i]? = some a) : idx l i = .ok a := by
  simp [idx, h]

theorem setIdx_of_lt {α : Type} {l : List α} {i : Nat} (v : α) (h : i < l.length) : setIdx l i v = .ok (l.set i v) := by
  simp [setIdx, h]

end RustSem

namespace RustSem
/-- `iter.map(f).collect::<Result<Vec<_>, _>>()`: elements are converted left to right, the first `Err` ends the iteration
(the closure is not called on the remaining elements) -/
def collectResult {α β ε : Type} (f : α → Res (Except ε β)) : List α → Res (Except ε (List β))
  | [] => .ok (.ok [])
  | a :: r =>
    (f a).bind fun v =>
      match v with
      | .error e => .ok (.error e)
      | .ok b => (collectResult f r).bind fun w =>
        match w with
        | .error e => .ok (.error e)
        | .ok bs => .ok (.ok (b :: bs))
end RustSem

namespace RustSem
/-- `iter.map(f).collect::<Vec<_>>()` with a closure that may panic: elements are converted left to right -/
def mapRes {α β : Type} (f : α → Res β) : List α → Res (List β)
  | [] => .ok []
  | a :: r => (f a).bind fun b => (mapRes f r).bind fun bs => .ok (b :: bs)

theorem mapRes_ok {α β : Type} (f : α → Res β) (g : α → β) (h : ∀ a, f a = .ok (g a)) (l : List α) :
    mapRes f l = .ok (l.map g) := by
  induction l with
  | nil => rfl
  | cons a r ih => simp [mapRes, h, ih]
end RustSem

namespace RustSem
/-- `iter.enumerate().find(|(_, x)| p(x))`: the first element satisfying `p`, with its index -/
def enumFindFrom {α : Type} (p : α → Bool) (k : Nat) : List α → Option (Nat × α)
  | [] => none
  | a :: r => if p a then some (k, a) else enumFindFrom p (k + 1) r
def enumFind {α : Type} (p : α → Bool) (l : List α) : Option (Nat × α) := enumFindFrom p 0 l
end RustSem
