import Sylvia.Model.Program
import Sylvia.Model.Serde
import Sylvia.Model.Lex
import Sylvia.Extracted.Tables
/-! The generator model: which message types, variants, fields and routing lists a program gets.
One function per emitter of sylvia-derive. -/
namespace Sylvia.Gen
open Casing Serde

/-- `MsgVariants::new`: methods annotated with kind `k`, in source order -/
def variantsOf (k : Kind) (ms : List Method) : List Method := ms.filter fun m => m.kind? == some k

/-- `MsgVariant::new`: variant identifier = convert_case UpperCamel of the method name -/
def variantName (m : Method) : Name := ccUpperCamel m.name

/-- the name serde (rename_all = "snake_case") gives the variant on the wire -/
def wireName (m : Method) : String := Casing.toString (serdeSnake (variantName m))

/-- `emit_variants_constructors`: constructor name -/
def ctorName (m : Method) : String := Casing.toString (ccSnake (variantName m))

/-- `as_names_snake_cased`: the name put into `<ep>_messages()`; the rule is read from the source -/
def publishedName (m : Method) : String :=
  match Extracted.publishedRule with
  | 0 => Casing.toString (ccSnake (variantName m))
  | 1 => Casing.toString (serdeSnake (variantName m))
  | _ => ""

def bytesOf (s : String) : List Nat := s.toUTF8.data.toList.map (·.toNat)

def strLe (a b : String) : Bool := !Lex.lexLt (bytesOf b) (bytesOf a)

def insertStr (x : String) : List String → List String
  | [] => [x]
  | y :: r => if strLe x y then x :: y :: r else y :: insertStr x r

/-- `Vec<String>::sort()` -/
def sortStrings : List String → List String
  | [] => []
  | x :: r => insertStr x (sortStrings r)

/-- the published routing list of one part for kind `k` -/
def nameList (k : Kind) (ms : List Method) : List String := sortStrings ((variantsOf k ms).map publishedName)

/-- JSON-level type of an argument, for the types the behaviour model covers -/
def vtyOf : Ty → Option VTy
  | .path (.cons n args .nil) =>
    match n, args with
    | "u8", .nil => some (.u 8) | "u16", .nil => some (.u 16) | "u32", .nil => some (.u 32) | "u64", .nil => some (.u 64)
    | "i8", .nil => some (.i 8) | "i32", .nil => some (.i 32) | "i64", .nil => some (.i 64)
    | "bool", .nil => some .bool | "String", .nil => some .string | "Uint128", .nil => some .uint128 | "Binary", .nil => some .binary
    | "Addr", .nil => some .addr | "Empty", .nil => some .empty
    | "Option", .cons t .nil => (vtyOf t).map .option
    | "Vec", .cons t .nil => (vtyOf t).map .vec
    | _, _ => none
  | .tuple (.cons a (.cons b .nil)) => do
    let a' ← vtyOf a
    let b' ← vtyOf b
    pure (.pair a' b')
  | _ => none

mutual
/-- white-space-free text of a type, as the fact extractor prints it -/
def tyRender : Ty → String
  | .path segs => segsRender segs
  | .qpath q (.cons n args rest) => "<" ++ tyRender q ++ "as" ++ n ++ argsRender args ++ ">" ++ (match rest with | .nil => "" | r => "::" ++ segsRender r)
  | .qpath q .nil => "<" ++ tyRender q ++ ">"
  | .tuple ts => "(" ++ tysRender ts true ++ ")"
  | .array t n => "[" ++ tyRender t ++ ";" ++ n ++ "]"
  | .opaque t => t
def segsRender : Segs → String
  | .nil => ""
  | .cons n args .nil => n ++ argsRender args
  | .cons n args rest => n ++ argsRender args ++ "::" ++ segsRender rest
def argsRender : Tys → String
  | .nil => ""
  | ts => "<" ++ tysRender ts false ++ ">"
/-- `single` = render a one-element tuple with its trailing comma -/
def tysRender : Tys → Bool → String
  | .nil, _ => ""
  | .cons t .nil, single => tyRender t ++ (if single then "," else "")
  | .cons t rest, _ => tyRender t ++ "," ++ tysRender rest false
end

def fieldSpec (a : Arg) : FieldSpec :=
  { name := a.name, ty := (vtyOf a.ty).getD .empty, dflt := a.attrs.contains "serde(default)" }

def variantSpec (m : Method) : VariantSpec := { wire := wireName m, fields := m.args.map fieldSpec }

def variantSpecs (k : Kind) (ms : List Method) : List VariantSpec := (variantsOf k ms).map variantSpec

/-- `ContractMessageAttr`: wrapper variant of an interface = alias, else UpperCamel of the module's last segment -/
def ifaceLabel (r : IfaceRef) : String := r.alias.getD (Casing.toString (ccUpperCamel r.last))

structure Program where
  contract : Contract
  /-- interface definitions by module text -/
  ifaces : List (String × Interface)
  deriving Inhabited

def ifaceDef (p : Program) (r : IfaceRef) : Interface :=
  ((p.ifaces.find? (·.1 == r.module)).map (·.2)).getD { name := "" }

/-- parts of the contract-level message of kind `k`: interfaces in declaration order, then the contract -/
def parts (k : Kind) (p : Program) : List PartSpec :=
  (p.contract.ifaces.map fun r =>
    let d := ifaceDef p r
    { label := ifaceLabel r, published := nameList k d.methods, variants := variantSpecs k d.methods })
  ++ [{ label := p.contract.name, published := nameList k p.contract.methods, variants := variantSpecs k p.contract.methods }]

/-- methods of the parts, aligned with `parts` -/
def partMethods (k : Kind) (p : Program) : List (List Method) :=
  (p.contract.ifaces.map fun r => variantsOf k (ifaceDef p r).methods) ++ [variantsOf k p.contract.methods]

end Sylvia.Gen
