/-! Byte-wise lexicographic order on strings-as-byte-lists: the order of `konst::cmp_str`,
`str::cmp` and `<[String]>::sort` in the Rust sources. -/
namespace Lex

def lexLt : List Nat → List Nat → Bool
  | [], [] => false
  | [], _ :: _ => true
  | _ :: _, [] => false
  | a :: as, b :: bs => if a < b then true else if b < a then false else lexLt as bs

/-- `konst::cmp_str` on byte strings -/
def cmpBytes (a b : List Nat) : Ordering :=
  if lexLt a b then .lt else if lexLt b a then .gt else .eq

end Lex
