import Sylvia.Model.Facts
/-! The query-response metadata exported for schema generation (`cosmwasm_schema::QueryResponses`):
per message type a table wire name ↦ response type; the contract-level table is the concatenation of its
parts' tables; the contract-level schema is the any-of of the parts' schemas. -/
namespace Sylvia.QueryResponses
open Gen Facts

/-- text of the type put into `#[returns(..)]` -/
def respText (m : Method) : String := ((respTy m).map fun t => tyRender (stripSelf t)).getD ""

/-- `response_schemas_impl()` of one part: one entry per query variant -/
def table (ms : List Method) : List (String × String) := (variantsOf .query ms).map fun m => (wireName m, respText m)

/-- contract level: `[#(#response_schemas_calls),*].into_iter().flatten()` over interfaces in order, then the contract -/
def contractTable (p : Program) : List (String × String) :=
  ((p.contract.ifaces.map fun r => table (ifaceDef p r).methods) ++ [table p.contract.methods]).flatten

/-- names of the sub-schemas under `any_of`, in order -/
def anyOf (k : Kind) (p : Program) : List String :=
  (p.contract.ifaces.map fun r => (ifaceDef p r).name ++ msgTypeName k) ++ [msgTypeName k]

end Sylvia.QueryResponses
