/-! Message kinds and reply triggers: the vocabulary shared by the model and the regenerated tables. -/
namespace Sylvia

inductive Kind | exec | query | instantiate | migrate | reply | sudo
  deriving DecidableEq, Repr, Inhabited

def Kind.all : List Kind := [.exec, .query, .instantiate, .migrate, .reply, .sudo]

theorem Kind.mem_all (k : Kind) : k ∈ Kind.all := by cases k <;> simp [Kind.all]

inductive ReplyOn | success | error | always
  deriving DecidableEq, Repr, Inhabited

/-- association-list lookup used for all regenerated tables -/
def lookup {α β : Type} [DecidableEq α] (t : List (α × β)) (a : α) : Option β :=
  match t with
  | [] => none
  | (x, y) :: r => if x = a then some y else lookup r a

/-- text is carried as its list of UTF-8 bytes so that equality reduces in the kernel -/
abbrev Str := List Nat

def Str.ofString (s : String) : Str := s.toUTF8.toList.map (·.toNat)

end Sylvia
