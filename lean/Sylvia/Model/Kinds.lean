/-! Message kinds and reply triggers: the vocabulary shared by the model and the regenerated tables. -/
namespace Sylvia

inductive Kind | exec | query | instantiate | migrate | reply | sudo
  deriving DecidableEq, Repr, Inhabited

def Kind.all : List Kind := [.exec, .query, .instantiate, .migrate, .reply, .sudo]

theorem Kind.mem_all (k : Kind) : k ∈ Kind.all := by cases k <;> simp [Kind.all]

inductive ReplyOn | success | error | always
  deriving DecidableEq, Repr, Inhabited

/-- association-list lookup used for all regenerated tables -/
def lookup {α β : Type} [DecidableEq α] (t : List (α × β)) (a : α) : Option β :=
  match t with
  | [] => none
  | (x, y) :: r => if x = a then some y else lookup r a

/-- text is carried as its list of UTF-8 bytes so that equality reduces in the kernel -/
abbrev Str := List Nat

/-- code points of the text; equal to its UTF-8 bytes for the ASCII identifiers and keywords the tables hold
(chosen over `toUTF8` because it reduces by `decide`/`rfl`) -/
def Str.ofString (s : String) : Str := s.toList.map Char.toNat

end Sylvia
