import Sylvia.Model.Gen
/-! Model of `contract/communication/reply.rs`: the reply-handler table built from the methods annotated
`#[sv::msg(reply, ..)]` (first method creates an entry, later ones are merged into it), the ids, the
trigger each sub-message builder requests, and what `dispatch_reply` does with a reply. -/
namespace Sylvia.Reply
open Casing Gen

/-- `AsReplyId`: `<UPPER_SNAKE(handler)>_REPLY_ID` -/
def replyIdOf (h : Name) : String := Casing.toString (ccUpperSnake h) ++ "_REPLY_ID"

/-- `ReplyOn::excludes` -/
def excludes (a b : ReplyOn) : Bool := a == b || a == .always || b == .always

/-- the diagnostics the table construction can emit -/
inductive Diag
  | duplicated (id : String)          -- "Duplicated reply handler."
  | missingPayload (fn : String)      -- "Missing payload parameter."
  | redundantPayload (fn : String)    -- "Redundant payload parameter."
  | mismatchedCount (id : String)     -- "Mismatched quantity of method parameters."
  | mismatchedParam (id : String)     -- "Mismatched parameter in reply handlers."
  | dataWrongPlace (fn : String)      -- `#[sv::data]` not on the first parameter
  | dataWrongScenario (fn : String)   -- `#[sv::data]` outside `success`
  deriving Repr, DecidableEq

structure Entry where
  id : String
  /-- name of the handler the id was built from; names the `SubMsgMethods` method -/
  handler : Name
  /-- (method, outcome) pairs in the order they were merged -/
  handlers : List (Name × ReplyOn)
  data : Option Arg
  payload : List Arg
  deriving Repr, Inhabited

def replyOnOfMethod (m : Method) : ReplyOn := (m.msg.map (·.replyOn)).getD .always

/-- `as_variant_handlers_pair`: one pair per name in `handlers=[..]`, else the method's own name -/
def handlerNames (m : Method) : List Name :=
  match m.msg with
  | some a => if a.handlers.isEmpty then [m.name] else a.handlers
  | none => [m.name]

def findIdx? {α : Type} (p : α → Bool) : List α → Option Nat
  | [] => none
  | x :: r => if p x then some 0 else (findIdx? p r).map (· + 1)

/-- `as_data_field` -/
def dataField (m : Method) : Option Arg × List Diag :=
  let fn := Casing.toString m.name
  match findIdx? (fun a : Arg => a.data.isSome) m.args with
  | none => (none, [])
  | some i =>
    if replyOnOfMethod m == .success then
      if i = 0 then (m.args[0]?, []) else (none, [.dataWrongPlace fn])
    else (none, [.dataWrongScenario fn])

/-- `assert_no_redundant_params` -/
def redundantDiag (fn : String) (payload : List Arg) : List Diag :=
  if payload.length = 1 then [] else
  match findIdx? (fun a : Arg => a.payloadRaw) payload with
  | none => []
  | some _ => [.redundantPayload fn]

/-- `ReplyData::new` for one (method, handler name) pair -/
def newEntry (m : Method) (h : Name) : Entry × List Diag :=
  let fn := Casing.toString m.name
  let (data, d1) := dataField m
  let payload := if data.isSome || replyOnOfMethod m != .success then m.args.drop 1 else m.args
  let d2 := if payload.isEmpty then [.missingPayload fn] else []
  ({ id := replyIdOf h, handler := h, handlers := [(m.name, replyOnOfMethod m)], data := data, payload := payload },
   d1 ++ d2 ++ redundantDiag fn payload)

def tyText : Ty → String
  | .opaque t => t
  | _ => ""

/-- structural comparison of two argument types is modelled on their rendered text, supplied by the
caller (`tyEq`), because `Ty` carries no decidable equality -/
def payloadMismatch (tyEq : Ty → Ty → Bool) (a b : List Arg) : Bool :=
  (a.zip b).any fun p => !tyEq p.1.ty p.2.ty

/-- `ReplyData::merge`: the existing entry keeps its own payload parameters; `dataFromLater` is the
regenerated flag telling whether the data parameter is taken from whichever method declares it (repaired
code) or only from the first method (`false`) -/
def mergeEntry (dataFromLater : Bool) (tyEq : Ty → Ty → Bool) (e : Entry) (m : Method) : Entry × List Diag :=
  let (n, dn) := newEntry m e.handler
  let d1 := if e.payload.length != n.payload.length then [.mismatchedCount e.id] else []
  let d2 := if payloadMismatch tyEq e.payload n.payload then [.mismatchedParam e.id] else []
  ({ e with handlers := e.handlers ++ [(m.name, replyOnOfMethod m)],
            data := if dataFromLater && e.data.isNone then n.data else e.data },
   dn ++ d1 ++ d2)

def upsert (dataFromLater : Bool) (tyEq : Ty → Ty → Bool) (acc : List Entry × List Diag) (mh : Method × Name) : List Entry × List Diag :=
  let (tbl, ds) := acc
  let (m, h) := mh
  let id := replyIdOf h
  let on := replyOnOfMethod m
  match tbl.find? (·.id == id) with
  | some e =>
    if e.handlers.any (fun p => excludes p.2 on) then (tbl, ds ++ [.duplicated id])
    else
      let (e', d) := mergeEntry dataFromLater tyEq e m
      (tbl.map (fun x => if x.id == id then e' else x), ds ++ d)
  | none =>
    let (e, d) := newEntry m h
    (tbl ++ [e], ds ++ d)

/-- `as_reply_data`: the table and every diagnostic raised while building it -/
def replyTable (dataFromLater : Bool) (tyEq : Ty → Ty → Bool) (ms : List Method) : List Entry × List Diag :=
  ((variantsOf .reply ms).flatMap fun m => (handlerNames m).map fun h => (m, h)).foldl (upsert dataFromLater tyEq) ([], [])

/-- numeric id = position in the table -/
def idOf (tbl : List Entry) (id : String) : Option Nat := findIdx? (·.id == id) tbl

/-- `emit_cw_reply_on`: what the sub-message builder of the entry requests -/
def cwReplyOn (e : Entry) : ReplyOn :=
  let hasA := e.handlers.any (·.2 == .always)
  let hasS := e.handlers.any (·.2 == .success)
  let hasE := e.handlers.any (·.2 == .error)
  if hasA || (hasS && hasE) then .always else if hasS then .success else .error

-- ------------------------------------------------------------------------------------------------
-- dispatch_reply
-- ------------------------------------------------------------------------------------------------

inductive SubResult
  | ok (events : Nat) (data : Option String) (msgResponses : Nat)   -- counts of events / responses, data as hex
  | err (text : String)
  deriving Repr, DecidableEq

structure ReplyIn where
  id : Nat
  payload : String      -- hex
  gasUsed : Nat
  result : SubResult
  deriving Repr

/-- outcome of the envelope parser on the data bytes, supplied by the harness (cw_utils is a parameter) -/
inductive Envelope
  | bad                                 -- protobuf decoding failed
  | exec (inner : Option String)        -- execute envelope: inner data (text of the JSON inside), if any
  | inst (addr : String) (inner : Option String)
  deriving Repr, DecidableEq

/-- what is handed to the handler in the position after the context -/
inductive FirstArg
  | none                                 -- success handler without data parameter
  | rawOpt (d : Option String)           -- `raw, opt`
  | raw (d : String)
  | instOpt (v : Option (String × Option String))
  | inst (addr : String) (inner : Option String)
  | typedOpt (json : Option String)      -- JSON text handed to `from_json`
  | typed (json : String)
  | errorText (t : String)
  | fullResult (r : SubResult)
  deriving Repr, DecidableEq

inductive Outcome
  | call (fn : Name) (gas events msgResponses : Nat) (first : FirstArg) (payload : String)
  | passOk (events : Nat) (data : Option String)
  | passErr (text : String)
  | unknownId (id : Nat)
  | missingData
  | badEnvelope
  | badPayload
  deriving Repr, DecidableEq

/-- template class of the data extraction selected by the guard chain regenerated from the source:
(envelope parser 0 none / 1 execute / 2 instantiate, absent-data mode 0 untouched / 1 None / 2 error, wraps in Some) -/
def dataClass (guards : List (Bool × Bool × Bool × Nat × Nat × Bool)) (p : DataParams) : Nat × Nat × Bool :=
  match guards.find? (fun g => (!g.1 || p.raw) && (!g.2.1 || p.opt) && (!g.2.2.1 || p.instantiate)) with
  | some g => (g.2.2.2.1, g.2.2.2.2.1, g.2.2.2.2.2)
  | none => (1, 2, false)

/-- the per-mode extraction emitted into the success arm -/
def extractData (cls : Nat × Nat × Bool) (data : Option String) (env : Envelope) : Except Outcome FirstArg :=
  match cls, data with
  | (0, 0, _), d => .ok (.rawOpt d)
  | (0, _, _), some d => .ok (.raw d)
  | (_, 1, _), none => .ok (if cls.1 = 2 then .instOpt none else .typedOpt none)
  | (_, _, _), none => .error .missingData
  | (2, _, wrap), some _ =>
    match env with
    | .inst a i => .ok (if wrap then .instOpt (some (a, i)) else .inst a i)
    | _ => .error .badEnvelope
  | (_, _, wrap), some _ =>
    match env with
    | .exec (some j) => .ok (if wrap then .typedOpt (some j) else .typed j)
    | .exec none => .error .missingData
    | _ => .error .badEnvelope

/-- `payloadOk`: do the payload bytes decode into the entry's payload parameters? Every arm that calls a
handler decodes the payload first (before the data), the pass-through arms never look at it. -/
def dispatchReply (guards : List (Bool × Bool × Bool × Nat × Nat × Bool)) (tbl : List Entry) (r : ReplyIn) (env : Envelope)
    (payloadOk : Bool) : Outcome :=
  match tbl[r.id]? with
  | none => .unknownId r.id
  | some e =>
    match r.result with
    | .ok events data msgr =>
      match e.handlers.find? (fun p => p.2 == .success || p.2 == .always) with
      | some (fn, .success) =>
        if !payloadOk then .badPayload else
        match e.data with
        | none => .call fn r.gasUsed events msgr .none r.payload
        | some a =>
          match extractData (dataClass guards (a.data.getD {})) data env with
          | .ok first => .call fn r.gasUsed events msgr first r.payload
          | .error o => o
      | some (fn, _) => if !payloadOk then .badPayload else .call fn r.gasUsed 0 0 (.fullResult r.result) r.payload
      | none => .passOk events data
    | .err text =>
      match e.handlers.find? (fun p => p.2 == .error || p.2 == .always) with
      | some (fn, .error) => if !payloadOk then .badPayload else .call fn r.gasUsed 0 0 (.errorText text) r.payload
      | some (fn, _) => if !payloadOk then .badPayload else .call fn r.gasUsed 0 0 (.fullResult r.result) r.payload
      | none => .passErr text

end Sylvia.Reply
