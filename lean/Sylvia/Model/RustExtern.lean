/-! Declarations of the foreign (cosmwasm_std) types that translated runtime-library functions build. Hand-written and
trusted to mirror cosmwasm-std 2.2: the instantiate, execute and admin variants of `WasmMsg`, field for field. `Binary` and `Coin` are opaque. -/
namespace RustExtern

inductive WasmMsg (Binary Coin : Type) where
  | Instantiate (admin : Option String) (code_id : Nat) (msg : Binary) (funds : List Coin) (label : String)
  | Instantiate2 (admin : Option String) (code_id : Nat) (label : String) (msg : Binary) (funds : List Coin) (salt : Binary)
  | Execute (contract_addr : String) (msg : Binary) (funds : List Coin)
  | UpdateAdmin (contract_addr : String) (admin : String)
  | ClearAdmin (contract_addr : String)

/-- `std::borrow::Cow`: an owned or a borrowed value; dereferences to the value either way -/
inductive Cow (α : Type) where
  | Owned (a : α)
  | Borrowed (a : α)
deriving DecidableEq, Repr

def Cow.get {α : Type} : Cow α → α
  | .Owned a => a
  | .Borrowed a => a

/-- deref coercion `&Cow<T>` -> `&T` -/
instance {α : Type} : Coe (Cow α) α := ⟨Cow.get⟩

/-- `ToString::to_string` on the types the handles use: `str` / `String` / `Addr` (an address is its string), through `Cow` -/
class ToStr (α : Type) where
  toStr : α → String
export ToStr (toStr)
instance : ToStr String := ⟨id⟩
instance {α : Type} [ToStr α] : ToStr (Cow α) := ⟨fun c => toStr c.get⟩

end RustExtern

/-! ## cosmwasm_std types behind `sylvia/src/into_response.rs`

Hand-written and trusted to mirror cosmwasm-std 2.2 (the L3 stream runs the regenerated functions next to the real ones on
every run): `CosmosMsg<T>` with its nine variants (payload types opaque, bundled in `Ext`), `SubMsg<T>`, `Response<T>` with the
four builder methods `into_response` uses, `StdError::generic_err`, `Empty`. -/
namespace RustExtern

/-- the payload types sylvia never looks into -/
structure Ext where
  Wasm : Type
  Bank : Type
  Staking : Type
  Distribution : Type
  Ibc : Type
  Any : Type
  Gov : Type
  Binary : Type
  Attribute : Type
  Event : Type

/-- `cosmwasm_std::Empty` (a unit-like struct: inhabited) -/
inductive CwEmpty where
  | mk
deriving DecidableEq, Repr

inductive StdError where
  | generic_err (msg : String)
deriving DecidableEq, Repr

inductive ReplyOn where
  | Always | Error | Success | Never
deriving DecidableEq, Repr

inductive CosmosMsg (X : Ext) (T : Type) where
  | Bank (a : X.Bank)
  | Custom (a : T)
  | Staking (a : X.Staking)
  | Distribution (a : X.Distribution)
  | Stargate (type_url : String) (value : X.Binary)
  | Ibc (a : X.Ibc)
  | Wasm (a : X.Wasm)
  | Gov (a : X.Gov)
  | Any (a : X.Any)

structure SubMsg (X : Ext) (T : Type) where
  id : Nat
  payload : X.Binary
  msg : CosmosMsg X T
  gas_limit : Option Nat
  reply_on : ReplyOn

structure Response (X : Ext) (T : Type) where
  messages : List (SubMsg X T)
  attributes : List X.Attribute
  events : List X.Event
  data : Option X.Binary

variable {X : Ext} {T : Type}

/-- `Response::new()` -/
def Response.new : Response X T := { messages := [], attributes := [], events := [], data := none }
/-- `Response::add_submessages`: appended after those already present -/
def Response.add_submessages (r : Response X T) (ms : List (SubMsg X T)) : Response X T := { r with messages := r.messages ++ ms }
def Response.add_events (r : Response X T) (es : List X.Event) : Response X T := { r with events := r.events ++ es }
def Response.add_attributes (r : Response X T) (as : List X.Attribute) : Response X T := { r with attributes := r.attributes ++ as }

/-- `format!(..)`: only the template is kept (error texts are compared by class) -/
def fmt (template : String) : String := template

end RustExtern
