import Sylvia.Model.RustSem
/-! Declarations of the foreign (cosmwasm_std) types that translated runtime-library functions build. Hand-written and
trusted to mirror cosmwasm-std 2.2: the instantiate, execute and admin variants of `WasmMsg`, field for field. `Binary` and `Coin` are opaque. -/
namespace RustExtern

inductive WasmMsg (Binary Coin : Type) where
  | Instantiate (admin : Option String) (code_id : Nat) (msg : Binary) (funds : List Coin) (label : String)
  | Instantiate2 (admin : Option String) (code_id : Nat) (label : String) (msg : Binary) (funds : List Coin) (salt : Binary)
  | Execute (contract_addr : String) (msg : Binary) (funds : List Coin)
  | UpdateAdmin (contract_addr : String) (admin : String)
  | ClearAdmin (contract_addr : String)

/-- `std::borrow::Cow`: an owned or a borrowed value; dereferences to the value either way -/
inductive Cow (α : Type) where
  | Owned (a : α)
  | Borrowed (a : α)
deriving DecidableEq, Repr

def Cow.get {α : Type} : Cow α → α
  | .Owned a => a
  | .Borrowed a => a

/-- deref coercion `&Cow<T>` -> `&T` -/
instance {α : Type} : Coe (Cow α) α := ⟨Cow.get⟩

/-- `ToString::to_string` on the types the handles use: `str` / `String` / `Addr` (an address is its string), through `Cow` -/
class ToStr (α : Type) where
  toStr : α → String
export ToStr (toStr)
instance : ToStr String := ⟨id⟩
instance {α : Type} [ToStr α] : ToStr (Cow α) := ⟨fun c => toStr c.get⟩

end RustExtern

/-! ## cosmwasm_std types behind `sylvia/src/into_response.rs`

Hand-written and trusted to mirror cosmwasm-std 2.2 (the L3 stream runs the regenerated functions next to the real ones on
every run): `CosmosMsg<T>` with its nine variants (payload types opaque, bundled in `Ext`), `SubMsg<T>`, `Response<T>` with the
four builder methods `into_response` uses, `StdError::generic_err`, `Empty`. -/
namespace RustExtern

/-- the payload types sylvia never looks into -/
structure Ext where
  Wasm : Type
  Bank : Type
  Staking : Type
  Distribution : Type
  Ibc : Type
  Any : Type
  Gov : Type
  Binary : Type
  Attribute : Type
  Event : Type

/-- `cosmwasm_std::Empty` (a unit-like struct: inhabited) -/
inductive CwEmpty where
  | mk
deriving DecidableEq, Repr

inductive StdError where
  | generic_err (msg : String)
deriving DecidableEq, Repr

inductive ReplyOn where
  | Always | Error | Success | Never
deriving DecidableEq, Repr

inductive CosmosMsg (X : Ext) (T : Type) where
  | Bank (a : X.Bank)
  | Custom (a : T)
  | Staking (a : X.Staking)
  | Distribution (a : X.Distribution)
  | Stargate (type_url : String) (value : X.Binary)
  | Ibc (a : X.Ibc)
  | Wasm (a : X.Wasm)
  | Gov (a : X.Gov)
  | Any (a : X.Any)

structure SubMsg (X : Ext) (T : Type) where
  id : Nat
  payload : X.Binary
  msg : CosmosMsg X T
  gas_limit : Option Nat
  reply_on : ReplyOn

structure Response (X : Ext) (T : Type) where
  messages : List (SubMsg X T)
  attributes : List X.Attribute
  events : List X.Event
  data : Option X.Binary

variable {X : Ext} {T : Type}

/-- `Response::new()` -/
def Response.new : Response X T := { messages := [], attributes := [], events := [], data := none }
/-- `Response::add_submessages`: appended after those already present -/
def Response.add_submessages (r : Response X T) (ms : List (SubMsg X T)) : Response X T := { r with messages := r.messages ++ ms }
def Response.add_events (r : Response X T) (es : List X.Event) : Response X T := { r with events := r.events ++ es }
def Response.add_attributes (r : Response X T) (as : List X.Attribute) : Response X T := { r with attributes := r.attributes ++ as }

/-- `format!(..)`: only the template is kept (error texts are compared by class) -/
def fmt (template : String) : String := template

end RustExtern

/-! ## The part of `syn`'s syntax tree that `StripInput` (sylvia-derive/src/fold.rs) reads and rebuilds

Hand-written and trusted: an item, its methods, their signatures and parameters, each with its attribute list and an opaque rest
(`R`: visibility, names, generics, types, bodies, non-method items). `fold::fold_*` are syn's generated default folds: they rebuild
the node from its folded children; on this view the only children that `StripInput` overrides a fold for are the methods of an item.
Nested `impl` blocks inside method bodies are outside the view. -/
namespace RustExtern.Syn

structure Receiver (Attr R : Type) where
  attrs : List Attr
  rest : R

structure PatType (Attr R : Type) where
  attrs : List Attr
  rest : R

inductive FnArg (Attr R : Type) where
  | Receiver (a : Receiver Attr R)
  | Typed (a : PatType Attr R)

structure Signature (Attr R : Type) where
  inputs : List (FnArg Attr R)
  rest : R

structure ImplItemFn (Attr R : Type) where
  attrs : List Attr
  sig : Signature Attr R
  rest : R

structure TraitItemFn (Attr R : Type) where
  attrs : List Attr
  sig : Signature Attr R
  rest : R

structure ItemImpl (Attr R : Type) where
  attrs : List Attr
  items : List (ImplItemFn Attr R)
  rest : R

structure ItemTrait (Attr R : Type) where
  attrs : List Attr
  items : List (TraitItemFn Attr R)
  rest : R

variable {Attr R F : Type}

/-- `fold::fold_impl_item_fn(folder, node)`: no child of a method has an overridden fold -/
def fold_impl_item_fn (_folder : F) (i : ImplItemFn Attr R) : RustSem.Res (ImplItemFn Attr R) := .ok i
def fold_trait_item_fn (_folder : F) (i : TraitItemFn Attr R) : RustSem.Res (TraitItemFn Attr R) := .ok i
/-- `fold::fold_item_impl(folder, node)`: every method goes through the folder's `fold_impl_item_fn`, in order -/
def fold_item_impl (visit : ImplItemFn Attr R → RustSem.Res (ImplItemFn Attr R)) (i : ItemImpl Attr R) : RustSem.Res (ItemImpl Attr R) :=
  (RustSem.mapRes visit i.items).bind fun items => .ok { i with items := items }
def fold_item_trait (visit : TraitItemFn Attr R → RustSem.Res (TraitItemFn Attr R)) (i : ItemTrait Attr R) : RustSem.Res (ItemTrait Attr R) :=
  (RustSem.mapRes visit i.items).bind fun items => .ok { i with items := items }

end RustExtern.Syn

/-! ## What the multitest proxies of `sylvia/src/multitest.rs` call

`anyhow::Error` as the proxies look at it — it holds the contract's own error type, a `StdError`, or something else (an error of
the chain itself) —, and the two operations of `cw_multi_test::Executor` they call, as parameters (`Chain`): what the chain does with
an operation is cw-multi-test's business (modelled separately for C12), here only what the proxy passes in and what it makes of the
result. -/
namespace RustExtern.Mt

inductive AnyErr (Error : Type) where
  | own (e : Error)
  | std (e : StdError)
  | other (text : String)

variable {Error : Type}

/-- `err.is::<Error>()` / `err.is::<StdError>()` -/
def AnyErr.isOwn : AnyErr Error → Bool | .own _ => true | _ => false
def AnyErr.isStd : AnyErr Error → Bool | .std _ => true | _ => false
/-- `err.downcast::<T>()`: the value when it is a `T`, else the error handed back -/
def AnyErr.downcastOwn : AnyErr Error → Except (AnyErr Error) Error | .own e => .ok e | x => .error x
def AnyErr.downcastStd : AnyErr Error → Except (AnyErr Error) StdError | .std e => .ok e | x => .error x
/-- `err.to_string()` of an error that is neither: its text -/
def AnyErr.text : AnyErr Error → String | .other t => t | .std (.generic_err m) => m | .own _ => ""

/-- `Result::unwrap` -/
def unwrap {α ε : Type} : Except ε α → RustSem.Res α | .ok a => .ok a | .error _ => .panic

/-- `result.map_err(f)` with a closure that may panic -/
def mapErrRes {α ε ε' : Type} (f : ε → RustSem.Res ε') : Except ε α → RustSem.Res (Except ε' α)
  | .ok a => .ok (.ok a)
  | .error e => (f e).bind fun e' => .ok (.error e')

/-- the operations of the underlying test chain the proxies call; `Resp` is `AppResponse` -/
structure Chain (App Msg Coin Resp Error : Type) where
  execute_contract : App → String → String → Msg → List Coin → Except (AnyErr Error) Resp
  migrate_contract : App → String → String → Msg → Nat → Except (AnyErr Error) Resp

end RustExtern.Mt

/-! ## The part of `syn`'s type syntax that `extract_return_type` (sylvia-derive/src/utils.rs) walks

Hand-written and trusted: a return type, a type (a path type or anything else), a path with its segments, a segment's name and
arguments. Identifiers are their text. -/
namespace RustExtern.SynTy

mutual
inductive SynType where
  | Path (tp : TypePath)
  | Other
inductive TypePath where
  | mk (path : Path)
inductive Path where
  | mk (segments : List PathSegment)
inductive PathSegment where
  | mk (ident : String) (arguments : PathArguments)
inductive PathArguments where
  | None
  | AngleBracketed (a : AngleArgs)
  | Parenthesized
inductive AngleArgs where
  | mk (args : List GenericArgument)
inductive GenericArgument where
  | Type (t : SynType)
  | Other
end

def TypePath.path : TypePath → Path | .mk p => p
def Path.segments : Path → List PathSegment | .mk s => s
def PathSegment.ident : PathSegment → String | .mk i _ => i
def PathSegment.arguments : PathSegment → PathArguments | .mk _ a => a
def AngleArgs.args : AngleArgs → List GenericArgument | .mk a => a

inductive ReturnType where
  | Default
  | Type (arrow : Unit) (ty : SynType)

/-- `Option::unwrap` -/
def unwrapOpt {α : Type} : Option α → RustSem.Res α | some a => .ok a | none => .panic

end RustExtern.SynTy

/-- what `ParsedSylviaAttributes::new(attrs)` tells the reply code about one parameter: whether it carries `#[sv::payload(..)]` /
`#[sv::data(..)]` (the parsers of those attributes are tied by the regenerated tables `payloadParams` / `dataParams`) -/
structure RustExtern.ParsedAttrs (P D : Type) where
  payload : Option P
  data : Option D
