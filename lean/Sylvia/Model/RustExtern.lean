/-! Declarations of the foreign (cosmwasm_std) types that translated runtime-library functions build. Hand-written and
trusted to mirror cosmwasm-std 2.2: the two instantiate variants of `WasmMsg`, field for field. `Binary` and `Coin` are opaque. -/
namespace RustExtern

inductive WasmMsg (Binary Coin : Type) where
  | Instantiate (admin : Option String) (code_id : Nat) (msg : Binary) (funds : List Coin) (label : String)
  | Instantiate2 (admin : Option String) (code_id : Nat) (label : String) (msg : Binary) (funds : List Coin) (salt : Binary)

end RustExtern
