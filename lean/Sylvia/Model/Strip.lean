import Sylvia.Model.Kinds
import Sylvia.Extracted.Tables
/-! Model of `StripInput` (sylvia-derive/src/fold.rs): what the contract / interface macros do to the
annotated item before re-emitting it. Everything the fold does not touch is carried as opaque text. -/
namespace Sylvia.Strip

structure AttrS where
  /-- path segments of the attribute, e.g. `["sv", "msg"]`, `["serde"]` -/
  path : List String
  /-- full normalised text of the attribute -/
  text : String
  deriving Repr, DecidableEq

structure ParamS where
  attrs : List AttrS
  /-- pattern and type (or the receiver), normalised -/
  text : String
  deriving Repr, DecidableEq

structure MethodS where
  attrs : List AttrS
  params : List ParamS
  /-- visibility, name, generics, return type, body -/
  rest : String
  deriving Repr, DecidableEq

structure ItemS where
  attrs : List AttrS
  methods : List MethodS
  /-- everything else: generics, self type, where clause, non-method items -/
  rest : String
  deriving Repr, DecidableEq

/-- `SylviaAttribute::new(attr).is_some()`: a two-segment path `sv::<name>` with `<name>` in the
regenerated `match_attribute` table -/
def isFramework (a : AttrS) : Bool :=
  match a.path with
  | [s, n] => s == "sv" && Extracted.svAttributes.contains (Str.ofString n)
  | _ => false

def isMsgAttr (a : AttrS) : Bool := a.path == ["sv", "msg"]

/-- a handler is a method carrying `#[sv::msg(..)]` -/
def isHandler (m : MethodS) : Bool := m.attrs.any isMsgAttr

def stripMethod (m : MethodS) : MethodS :=
  { m with attrs := m.attrs.filter (fun a => !isFramework a),
           params := if isHandler m then m.params.map (fun p => { p with attrs := [] }) else m.params }

def strip (i : ItemS) : ItemS :=
  { i with attrs := i.attrs.filter (fun a => !isFramework a), methods := i.methods.map stripMethod }

end Sylvia.Strip
