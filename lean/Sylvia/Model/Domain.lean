import Sylvia.Model.Serde
/-! Executable form of the document domain on which the contract-level message and its parts are proved to agree
(`C03.InDomain`): evaluated by the driver on every document of the C03 stream. -/
namespace Sylvia.Serde

mutual
def plainB : Json → Bool
  | .num t => valueNumOk t
  | .arr xs => plainListB xs
  | .obj ms => decide ((ms.map Prod.fst).Nodup) && plainMembersB ms
  | _ => true
def plainListB : List Json → Bool
  | [] => true
  | x :: xs => plainB x && plainListB xs
def plainMembersB : List (String × Json) → Bool
  | [] => true
  | (_, v) :: ms => plainB v && plainMembersB ms
end

def strictB : VTy → Json → Bool
  | .empty, .arr _ => false
  | .option _, .null => true
  | .option t, j => strictB t j
  | .vec t, .arr xs => strictAllB t xs
  | .pair a b, .arr [x, y] => strictB a x && strictB b y
  | .pair _ _, .arr (_ :: _ :: _ :: _) => false
  | _, _ => true
where strictAllB : VTy → List Json → Bool
  | _, [] => true
  | t, x :: xs => strictB t x && strictAllB t xs

def strictDocB (ps : List PartSpec) (d : Json) : Bool :=
  match d with
  | .obj [(k, .obj ms)] =>
    ps.all fun p => p.variants.all fun v => !(v.wire == k) || v.fields.all fun f =>
      match Json.get? ms f.name with
      | some val => strictB f.ty val
      | none => true
  | _ => true

def inDomainB (ps : List PartSpec) (d : Json) : Bool := plainB d && strictDocB ps d

end Sylvia.Serde
