/-! Syntactic JSON documents: object members keep their order and duplicates, so that the two
decoders sylvia relies on (serde's derive on the token stream, and the wrapper's value pass) can be
told apart. Numbers are kept as their source text. -/
namespace Sylvia

inductive Json
  | null
  | bool (b : Bool)
  | num (text : String)
  | str (s : String)
  | arr (xs : List Json)
  | obj (ms : List (String × Json))
  deriving Repr, Inhabited

namespace Json

def hexDigit (n : Nat) : Char := if n < 10 then Char.ofNat (48 + n) else Char.ofNat (55 + n)

/-- JSON string escaping as serde-json-wasm writes it -/
def escapeChar (c : Char) : String :=
  if c = '"' then "\\\"" else if c = '\\' then "\\\\"
  else if c = '\n' then "\\n" else if c = '\r' then "\\r" else if c = '\t' then "\\t"
  else if c.toNat = 8 then "\\b" else if c.toNat = 12 then "\\f"
  else if c.toNat < 32 then
    "\\u00" ++ String.singleton (hexDigit (c.toNat / 16)) ++ String.singleton (hexDigit (c.toNat % 16))
  else String.singleton c

def escape (s : String) : String := "\"" ++ String.join (s.toList.map escapeChar) ++ "\""

mutual
def render : Json → String
  | null => "null"
  | bool true => "true"
  | bool false => "false"
  | num t => t
  | str s => escape s
  | arr xs => "[" ++ renderList xs ++ "]"
  | obj ms => "{" ++ renderMembers ms ++ "}"
def renderList : List Json → String
  | [] => ""
  | [x] => render x
  | x :: xs => render x ++ "," ++ renderList xs
def renderMembers : List (String × Json) → String
  | [] => ""
  | [(k, v)] => escape k ++ ":" ++ render v
  | (k, v) :: ms => escape k ++ ":" ++ render v ++ "," ++ renderMembers ms
end

def keys : Json → List String
  | obj ms => ms.map Prod.fst
  | _ => []

/-- first member with the given key -/
def get? (ms : List (String × Json)) (k : String) : Option Json :=
  (ms.find? (·.1 == k)).map Prod.snd

end Json
end Sylvia
