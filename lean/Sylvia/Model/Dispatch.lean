import Sylvia.Model.Gen
/-! What the generated `dispatch` functions and entry points do with a decoded message: which handler
is called, with which arguments and context, and how its outcome is returned. Handlers are a parameter
(`Handlers`), so statements hold for every handler behaviour; `echoHandlers` is the instance the corpus
programs use. -/
namespace Sylvia.Dispatch
open Sylvia.Gen Serde

/-- the context values a caller supplies -/
structure CtxIn where
  sender : String
  funds : String
  height : String
  seed : String
  /-- id of the handler that is made to fail (`-` = none) -/
  fail : String
  deriving Repr, Inhabited

/-- what a handler gets to see: its kind decides which context fields exist -/
structure Call where
  /-- `<part>.<method name>` -/
  handler : String
  kind : Kind
  args : List (String × Json)
  ctx : CtxIn
  deriving Repr, Inhabited

/-- error type a handler declares -/
inductive ErrTy | std | contract | self
  deriving Repr, DecidableEq, Inhabited

def retErrTy : Ty → ErrTy
  | .path (.cons "StdResult" _ .nil) => .std
  | .path (.cons "Result" (.cons _ (.cons (.path (.cons "Self" .nil (.cons "Error" .nil .nil))) .nil)) .nil) => .self
  | .path (.cons "Result" (.cons _ (.cons (.path (.cons "StdError" .nil .nil)) .nil)) .nil) => .std
  | .path (.cons "Result" _ .nil) => .contract
  -- the corpus prelude's `type QResultB<E> = Result<RespB, E>`
  | .path (.cons "QResultB" (.cons (.path (.cons "Self" .nil (.cons "Error" .nil .nil))) .nil) .nil) => .self
  | .path (.cons "QResultB" (.cons (.path (.cons "StdError" .nil .nil)) .nil) .nil) => .std
  | .path (.cons "QResultB" _ .nil) => .contract
  | _ => .std

/-- positional call built by a dispatch arm: the struct pattern binds *by field name*, the call passes
the binders in parameter order -/
def bindArgs (m : Method) (fields : List (String × Json)) : List (String × Json) :=
  m.args.map fun a => (a.name, (Json.get? fields a.name).getD .null)

/-- module name (text) used in handler ids -/
def partId (p : Program) (k : Kind) (i : Nat) : String :=
  if i < p.contract.ifaces.length then (p.contract.ifaces[i]?.map (·.module)).getD "" else "ct"

/-- the call a decoded contract-level message leads to -/
def callOfWrapped (p : Program) (k : Kind) (i v : Nat) (fields : List (String × Json)) (c : CtxIn) : Option (Call × Method) :=
  match (partMethods k p)[i]? with
  | some ms =>
    match ms[v]? with
    | some m => some ({ handler := partId p k i ++ "." ++ Casing.toString m.name, kind := k, args := bindArgs m fields, ctx := c }, m)
    | none => none
  | none => none

inductive Outcome
  | ran (call : Call) (m : Method) (part : Nat)
  | decodeErr (text : String)
  deriving Inhabited

def wrapErrText : WrapResult → String
  | .errParse => "err" | .errFormat => "format" | .errCount n => "count " ++ toString n
  | .errBody _ => "err" | .errUnknown t => "unknown " ++ t | .ok _ _ _ => "ok"

/-- decoding + routing of a document sent to the entry point of kind `k` -/
def route (p : Program) (k : Kind) (doc : Json) (c : CtxIn) : Outcome :=
  match k with
  | .exec | .query | .sudo =>
    match wrapperDecode (parts k p) doc with
    | .ok i v fs =>
      match callOfWrapped p k i v fs c with
      | some (call, m) => .ran call m i
      | none => .decodeErr "internal"
    | r => .decodeErr (wrapErrText r)
  | .instantiate | .migrate =>
    match variantsOf k p.contract.methods with
    | m :: _ =>
      match decodeStruct false (m.args.map fieldSpec) doc with
      | some fs => .ran { handler := "ct." ++ Casing.toString m.name, kind := k, args := bindArgs m fs, ctx := c } m p.contract.ifaces.length
      | none => .decodeErr "err"
    | [] => .decodeErr "no-message-type"
  | .reply => .decodeErr "reply"

-- ------------------------------------------------------------------------------------------------
-- the echo handlers of the corpus, and the canonical text of the caller-visible result
-- ------------------------------------------------------------------------------------------------

def mockContractAddr : String := "cosmwasm1jpev2csrppg792t22rn8z8uew8h3sjcpglcd0qv9g8gj8ky922tscp8avs"

def echoAttrs (call : Call) : List (String × String) :=
  [("ran", call.handler), ("args", (Json.obj call.args).render)]
  ++ (if call.kind = .exec ∨ call.kind = .instantiate then
        [("sender", call.ctx.sender), ("funds", if call.ctx.funds = "0" then "" else call.ctx.funds ++ "utok")] else [])
  ++ [("height", call.ctx.height), ("addr", mockContractAddr), ("seed", call.ctx.seed)]

def failText (contractHasError : Bool) (ety : ErrTy) (hid : String) : String :=
  match contractHasError, ety with
  | false, _ => "Generic error: fail:" ++ hid
  | true, .std => "CE::Std(Generic error: fail:" ++ hid ++ ")"
  | true, _ => "CE::Custom(fail:" ++ hid ++ ")"

def hexDigit (n : Nat) : Char := if n < 10 then Char.ofNat (48 + n) else Char.ofNat (87 + n)

/-- lower-case hex of the bytes of an ASCII text -/
def hexText (s : String) : String := String.ofList (s.toList.flatMap fun c => [hexDigit (c.toNat / 16), hexDigit (c.toNat % 16)])

/-- the corpus' migrate handlers answer with this data (the other handlers set none) -/
def echoData (call : Call) : String := if call.kind = .migrate then hexText ("m:" ++ call.handler) else "-"

/-- what a query handler of the corpus returns on success: one of the prelude's response structs, or the echo as a plain
`String` / as `Binary` (the JSON encoding of the returned value differs: an object, a string, a base64 string) -/
inductive RespBody | struct | str | bin
  deriving DecidableEq, Repr

def respBodyOfTy : Ty → RespBody
  | .path (.cons "String" .nil .nil) => .str
  | .path (.cons "Binary" .nil .nil) => .bin
  | _ => .struct

def respBody : Ty → RespBody
  | .path (.cons "StdResult" (.cons t .nil) .nil) => respBodyOfTy t
  | .path (.cons "Result" (.cons t _) .nil) => respBodyOfTy t
  | _ => .struct

def b64Char (n : Nat) : Char :=
  if n < 26 then Char.ofNat (65 + n) else if n < 52 then Char.ofNat (97 + (n - 26)) else if n < 62 then Char.ofNat (48 + (n - 52))
  else if n = 62 then '+' else '/'

/-- standard base64 with padding (what `cosmwasm_std::Binary` serialises to) -/
def base64 : List Nat → List Char
  | a :: b :: c :: r =>
    b64Char (a / 4) :: b64Char ((a % 4) * 16 + b / 16) :: b64Char ((b % 16) * 4 + c / 64) :: b64Char (c % 64) :: base64 r
  | [a, b] => [b64Char (a / 4), b64Char ((a % 4) * 16 + b / 16), b64Char ((b % 16) * 4), '=']
  | [a] => [b64Char (a / 4), b64Char ((a % 4) * 16), '=', '=']
  | [] => []

def pairsText (attrs : List (String × String)) : String := "|".intercalate (attrs.map fun (k, v) => k ++ "=" ++ v)

/-- the JSON encoding of the value a query handler of the corpus returns -/
def queryBody (ret : Ty) (attrs : List (String × String)) : Json :=
  match respBody ret with
  | .struct => Json.obj [("attrs", .arr (attrs.map fun (k, v) => .arr [.str k, .str v]))]
  | .str => .str (pairsText attrs)
  | .bin => .str (String.ofList (base64 (Gen.bytesOf (pairsText attrs))))

def showOutcome (p : Program) : Outcome → String
  | .decodeErr t => "de-" ++ t
  | .ran call m _ =>
    if call.ctx.fail = call.handler then "err " ++ failText p.contract.error.isSome (retErrTy m.ret) call.handler
    else if call.kind = .query then
      "ok " ++ (queryBody m.ret (echoAttrs call)).render
    else
      "ok " ++ "|".intercalate ((echoAttrs call).map fun (k, v) => k ++ "=" ++ v)
        ++ " msgs=0 events=0 data=" ++ echoData call ++ " stored=" ++ call.handler

end Sylvia.Dispatch
