import Sylvia.Model.Kinds
import Sylvia.Model.Casing
/-! Abstract syntax of the programs the macros are applied to: exactly the information the
generators of sylvia-derive read from an `impl` block / `trait` (and nothing about method bodies). -/
namespace Sylvia
open Casing (Ch)

/-- identifiers over the ASCII identifier alphabet -/
abbrev Name := List Ch

mutual
  /-- type expressions, as far as the macros look into them -/
  inductive Ty where
    | path (segs : Segs)                 -- `a::b<X, Y>::c`
    | qpath (q : Ty) (segs : Segs)       -- `<Q as a::B>::c`  (the `as` path and the tail are in `segs`)
    | tuple (ts : Tys)
    | array (t : Ty) (len : String)
    | opaque (text : String)             -- a type without any path in it
  inductive Tys where
    | nil
    | cons (t : Ty) (ts : Tys)
  inductive Segs where
    | nil
    | cons (name : String) (args : Tys) (rest : Segs)
end

deriving instance Repr for Ty, Tys, Segs
instance : Inhabited Ty := ⟨.opaque "_"⟩
instance : Inhabited Tys := ⟨.nil⟩
instance : Inhabited Segs := ⟨.nil⟩

/-- `#[sv::data(..)]` flags -/
structure DataParams where
  raw : Bool := false
  opt : Bool := false
  instantiate : Bool := false
  deriving Repr, DecidableEq, Inhabited

structure Arg where
  name : String
  ty : Ty
  /-- non-framework attributes written on the parameter (normalised meta text) -/
  attrs : List String := []
  data : Option DataParams := none
  payloadRaw : Bool := false
  deriving Repr, Inhabited

structure MsgAttr where
  kind : Kind
  resp : Option String := none
  handlers : List Name := []
  replyOn : ReplyOn := .always
  deriving Repr, Inhabited

structure Method where
  name : Name
  msg : Option MsgAttr := none
  /-- contents of `#[sv::attr(..)]` attributes on the method, in order -/
  fwd : List String := []
  args : List Arg := []
  ret : Ty := .opaque "_"
  deriving Repr, Inhabited

def Method.kind? (m : Method) : Option Kind := m.msg.map (·.kind)

structure GenericParam where
  name : String
  /-- full text of the parameter as written (`T: Bound`) -/
  text : String
  deriving Repr, Inhabited

structure WherePred where
  text : String
  /-- every type the predicate mentions (bounded type and bound paths) -/
  tys : List Ty
  deriving Repr, Inhabited

structure IfaceRef where
  /-- module path text as written, generics removed -/
  module : String
  /-- last path segment of the module -/
  last : Name
  alias : Option String := none
  customMsg : Bool := false
  customQuery : Bool := false
  deriving Repr, Inhabited

structure Contract where
  name : String
  generics : List GenericParam := []
  wheres : List WherePred := []
  error : Option String := none
  customMsg : Option String := none
  customQuery : Option String := none
  replies : Bool := false
  /-- kind words of `#[sv::override_entry_point(<word> = ..)]`, in source order -/
  overrides : List Str := []
  ifaces : List IfaceRef := []
  /-- `#[sv::msg_attr(<word>, <tokens>)]` in source order -/
  msgAttrs : List (Str × String) := []
  methods : List Method := []
  /-- concrete types given to `entry_points(generics<..>)` -/
  epGenerics : List String := []
  deriving Repr, Inhabited

structure AssocTy where
  name : String
  /-- text after the name: `: Bound + Other` (may be empty) -/
  bounds : String
  /-- types the bounds mention -/
  tys : List Ty := []
  deriving Repr, Inhabited

structure Interface where
  name : String
  assoc : List AssocTy := []
  customMsg : Option String := none
  customQuery : Option String := none
  msgAttrs : List (Str × String) := []
  methods : List Method := []
  deriving Repr, Inhabited

end Sylvia
