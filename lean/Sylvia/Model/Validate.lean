import Sylvia.Model.Reply
import Sylvia.Extracted.Tables
/-! Model of the validations the macros perform (every `emit_error!` / returned `syn::Error` that the
documented rules rest on). `validate* = []` ⇔ the expansion is clean. Attribute-argument vocabularies are
the regenerated tables. -/
namespace Sylvia.Validate
open Gen

/-- a word written in an attribute-argument position, with the parser that reads it -/
structure AttrWord where
  parser : String
  word : Str
  deriving Repr

inductive Rule
  | noNew | newWithParams
  | noInstantiate | manyInstantiate | manyMigrate
  | ifaceInstantiate | ifaceMigrate | ifaceGenerics | ifaceNoError
  | reply (d : Reply.Diag)
  | unknownWord (parser : String) (word : Str)
  | attrOnStructMsg | dataInstantiateRaw | redefinedAttr (name : String)
  | epGenericsCount | epNoInstantiate
  deriving Repr

/-- is the word accepted by the named argument parser? (tables regenerated from the source) -/
def wordOk (w : AttrWord) : Bool :=
  match w.parser with
  | "msg" => (lookup Extracted.msgTypeNew w.word).isSome
  | "msg_arg" => Extracted.msgArgs.contains w.word
  | "reply_on" => (lookup Extracted.replyOnNew w.word).isSome
  | "data" => Extracted.dataParams.contains w.word
  | "payload" => Extracted.payloadParams.contains w.word
  | "features" => Extracted.featureParams.contains w.word
  | "custom" => Extracted.customParams.contains w.word
  | "iface_custom" => w.word = [109, 115, 103] || w.word = [113, 117, 101, 114, 121]
  | "override" => (lookup Extracted.overrideParse w.word).isSome
  | "msg_attr" => (lookup Extracted.msgAttrFwdParse w.word).isSome
  | _ => true

def badWords (ws : List AttrWord) : List Rule :=
  (ws.filter fun w => !wordOk w).map fun w => .unknownWord w.parser w.word

structure VContract where
  contract : Contract
  hasNew : Bool := true
  newParams : Nat := 0
  words : List AttrWord := []
  /-- names of single-occurrence attributes written twice on one item (`sv::msg`, `sv::custom`, `sv::error`) -/
  redefined : List String := []
  deriving Repr

def countKind (k : Kind) (ms : List Method) : Nat := (variantsOf k ms).length

def tyEqText (a b : Ty) : Bool := tyRender a == tyRender b

def validateContract (v : VContract) : List Rule :=
  let c := v.contract
  (if !v.hasNew then [.noNew] else if v.newParams > 0 then [.newWithParams] else [])
  ++ (if countKind .instantiate c.methods = 0 then [.noInstantiate] else if countKind .instantiate c.methods > 1 then [.manyInstantiate] else [])
  ++ (if countKind .migrate c.methods > 1 then [.manyMigrate] else [])
  ++ (if c.replies then (Reply.replyTable Extracted.replyDataFromLater tyEqText c.methods).2.map .reply else [])
  ++ badWords v.words
  ++ (if c.methods.any (fun m => (m.kind? == some .instantiate || m.kind? == some .migrate) && !m.fwd.isEmpty) then [.attrOnStructMsg] else [])
  ++ (if c.methods.any (fun m => m.args.any fun a => match a.data with | some d => d.instantiate && d.raw | none => false) then [.dataInstantiateRaw] else [])
  ++ v.redefined.map .redefinedAttr

structure VInterface where
  iface : Interface
  generics : Nat := 0
  hasError : Bool := true
  words : List AttrWord := []
  redefined : List String := []
  deriving Repr

def validateInterface (v : VInterface) : List Rule :=
  (if v.generics > 0 then [.ifaceGenerics] else [])
  ++ (if !v.hasError then [.ifaceNoError] else [])
  ++ (if countKind .instantiate v.iface.methods > 0 then [.ifaceInstantiate] else [])
  ++ (if countKind .migrate v.iface.methods > 0 then [.ifaceMigrate] else [])
  ++ badWords v.words
  ++ v.redefined.map .redefinedAttr

/-- `entry_points`: one concrete type per generic parameter, and an instantiate handler -/
def validateEntryPoints (c : Contract) (given : Nat) (words : List AttrWord) : List Rule :=
  (if given != c.generics.length then [.epGenericsCount] else [])
  ++ (if countKind .instantiate c.methods = 0 then [.epNoInstantiate] else [])
  ++ badWords words

end Sylvia.Validate
