import Sylvia.Model.Json
/-! Behaviour of the decoders the generated message types get:
* `decodeEnum` / `decodeStruct` — serde's derive driven by serde-json-wasm on the JSON text (streaming:
  member order and duplicates are visible to it);
* `normalize` + `wrapperDecode` — the hand-written `Deserialize` of the contract-level message: a first
  pass into a generic value (object = sorted map, last duplicate wins, integers only), then routing by
  the published name lists, then the part's derive on that value.
Argument values are carried as JSON; `decodeVal` validates them against the argument type and returns the
canonical re-encoding (what `to_json_string` of the decoded Rust value prints). -/
namespace Sylvia.Serde

inductive VTy
  | u (bits : Nat) | i (bits : Nat) | bool | string | uint128 | addr | empty | binary
  | option (t : VTy) | vec (t : VTy) | pair (a b : VTy)
  deriving Repr, DecidableEq, Inhabited

def isDigits (cs : List Char) : Bool := !cs.isEmpty && cs.all Char.isDigit

/-- canonical decimal numeral (no sign, no leading zero) -/
def canonNat (t : String) : Option Nat :=
  let cs := t.toList
  if isDigits cs && (cs.length = 1 || cs.head? != some '0') then t.toNat? else none

/-- canonical decimal integer; `-0` is not canonical -/
def canonInt (t : String) : Option Int :=
  match t.toList with
  | '-' :: cs =>
    match canonNat (String.ofList cs) with
    | some n => if n = 0 then none else some (-(n : Int))
    | none => none
  | _ => (canonNat t).map Int.ofNat

/-- base64 text as `cosmwasm_std::Binary` accepts it: alphabet, length a multiple of four, at most two trailing `=`
(whether the unused trailing bits are zero is not modelled; the generators only produce canonical encodings) -/
def isBase64 (s : String) : Bool :=
  let cs := s.toList
  let body := (cs.reverse.dropWhile (· == '=')).reverse
  cs.length % 4 == 0 && cs.length - body.length ≤ 2 && body.all fun c => c.isAlphanum || c == '+' || c == '/'

def isOption : VTy → Bool | .option _ => true | _ => false

/-- `Default::default()` of the type, in JSON -/
def defaultOf : VTy → Json
  | .u _ | .i _ => .num "0"
  | .bool => .bool false
  | .string | .addr => .str ""
  | .uint128 => .str "0"
  | .binary => .str ""
  | .empty => .obj []
  | .option _ => .null
  | .vec _ => .arr []
  | .pair a b => .arr [defaultOf a, defaultOf b]

mutual
/-- validate a JSON value against a type; result = canonical re-encoding. `viaValue` = the input is the
wrapper's generic value rather than the text: there a struct may also be given positionally as an array. -/
def decodeVal (viaValue : Bool) : VTy → Json → Option Json
  | .u bits, .num t => (canonNat t).bind fun n => if n < 2 ^ bits then some (.num t) else none
  | .i bits, .num t => (canonInt t).bind fun n =>
      if -(2 ^ (bits - 1) : Int) ≤ n ∧ n < (2 ^ (bits - 1) : Int) then some (.num t) else none
  | .bool, .bool b => some (.bool b)
  | .string, .str s => some (.str s)
  | .addr, .str s => some (.str s)
  | .uint128, .str s => (canonNat s).bind fun n => if n < 2 ^ 128 then some (.str s) else none
  | .binary, .str s => if isBase64 s then some (.str s) else none
  | .empty, .obj _ => some (.obj [])
  | .empty, .arr _ => if viaValue then some (.obj []) else none   -- positional struct; surplus elements are not checked
  | .option _, .null => some .null
  | .option t, j => decodeVal viaValue t j
  | .vec t, .arr xs => (decodeVals viaValue t xs).map .arr
  | .pair a b, .arr [x, y] => do
      let x' ← decodeVal viaValue a x
      let y' ← decodeVal viaValue b y
      pure (.arr [x', y'])
  | .pair a b, .arr (x :: y :: _ :: _) =>
      -- the value pass hands the tuple visitor a sequence and never checks that it was consumed
      if viaValue then do
        let x' ← decodeVal viaValue a x
        let y' ← decodeVal viaValue b y
        pure (.arr [x', y'])
      else none
  | _, _ => none
def decodeVals (viaValue : Bool) : VTy → List Json → Option (List Json)
  | _, [] => some []
  | t, x :: xs => do
      let x' ← decodeVal viaValue t x
      let xs' ← decodeVals viaValue t xs
      pure (x' :: xs')
end

structure FieldSpec where
  name : String
  ty : VTy
  /-- carries a forwarded `#[serde(default)]` -/
  dflt : Bool := false
  deriving Repr, Inhabited

structure VariantSpec where
  /-- the name serde accepts and emits for the variant -/
  wire : String
  fields : List FieldSpec
  deriving Repr, Inhabited

/-- some declared field name occurs twice among the members (serde's derive: "duplicate field") -/
def hasDupField (fs : List FieldSpec) : List (String × Json) → Bool
  | [] => false
  | (k, _) :: ms => (fs.any (·.name == k) && ms.any (·.1 == k)) || hasDupField fs ms

def decodeField (viaValue : Bool) (ms : List (String × Json)) (f : FieldSpec) : Option (String × Json) :=
  match Json.get? ms f.name with
  | some v => (decodeVal viaValue f.ty v).map fun v' => (f.name, v')
  | none =>
    if isOption f.ty then some (f.name, .null)
    else if f.dflt then some (f.name, defaultOf f.ty)
    else none

/-- struct body: unknown members ignored, duplicate declared member = error, missing = error unless
optional / defaulted. Result in declaration order. -/
def decodeFields (viaValue : Bool) (fs : List FieldSpec) (ms : List (String × Json)) : Option (List (String × Json)) :=
  if hasDupField fs ms then none else fs.mapM (decodeField viaValue ms)

/-- serde derive's `visit_seq`: fields taken positionally; a missing trailing element is an error unless
the field is defaulted; a surplus element is an error -/
def decodeSeq (viaValue : Bool) : List FieldSpec → List Json → Option (List (String × Json))
  | [], [] => some []
  | [], _ :: _ => none
  | f :: fs, [] => if f.dflt then (decodeSeq viaValue fs []).map fun r => (f.name, defaultOf f.ty) :: r else none
  | f :: fs, x :: xs => do
      let x' ← decodeVal viaValue f.ty x
      let r ← decodeSeq viaValue fs xs
      pure ((f.name, x') :: r)

def decodeStruct (viaValue : Bool) (fs : List FieldSpec) : Json → Option (List (String × Json))
  | .obj ms => decodeFields viaValue fs ms
  | .arr xs => if viaValue then decodeSeq viaValue fs xs else none
  | _ => none

def findVariant (vs : List VariantSpec) (k : String) : Option (Nat × VariantSpec) :=
  let rec go (i : Nat) : List VariantSpec → Option (Nat × VariantSpec)
    | [] => none
    | v :: r => if v.wire == k then some (i, v) else go (i + 1) r
  go 0 vs

/-- externally tagged enum of struct variants -/
def decodeEnum (viaValue : Bool) (vs : List VariantSpec) : Json → Option (Nat × List (String × Json))
  | .obj [(k, body)] =>
    match findVariant vs k with
    | some (i, v) =>
      -- a struct *variant* must be a map for both decoders (serde_cw_value's `struct_variant` refuses a
      -- sequence); only nested struct-typed values may be positional in the value pass
      match body with
      | .obj ms => (decodeFields viaValue v.fields ms).map fun fs => (i, fs)
      | _ => none
    | none => none
  | _ => none

/-- the member list of an encoded struct body: declared field names paired with canonical values -/
def pairUp (fs : List FieldSpec) (cs : List Json) : List (String × Json) :=
  (fs.zip cs).map fun p => (p.1.name, p.2)

/-- what `to_json_string` prints for variant `i` with the given field values -/
def encodeEnum (vs : List VariantSpec) (i : Nat) (fields : List (String × Json)) : Json :=
  .obj [((vs[i]?.map (·.wire)).getD "", .obj fields)]

-- ------------------------------------------------------------------------------------------------
-- the wrapper's value pass
-- ------------------------------------------------------------------------------------------------

def strLt (a b : String) : Bool := a < b

/-- insert into a key-sorted association list, replacing an equal key (BTreeMap::insert) -/
def insertSorted (k : String) (v : Json) : List (String × Json) → List (String × Json)
  | [] => [(k, v)]
  | (k', v') :: r =>
    if k == k' then (k, v) :: r
    else if strLt k k' then (k, v) :: (k', v') :: r
    else (k', v') :: insertSorted k v r

/-- integers the generic value can hold: `u64` when non-negative, `i64` when negative -/
def valueNumOk (t : String) : Bool :=
  match canonInt t with
  | some n => -(2 ^ 63 : Int) ≤ n ∧ n < (2 ^ 64 : Int)
  | none => false

mutual
/-- `serde_cw_value::Value::deserialize` on the text, re-expressed on syntactic JSON: `none` = the pass fails -/
def normalize : Json → Option Json
  | .null => some .null
  | .bool b => some (.bool b)
  | .num t => if valueNumOk t then some (.num t) else none
  | .str s => some (.str s)
  | .arr xs => (normalizeList xs).map .arr
  | .obj ms => (normalizeMembers ms []).map .obj
def normalizeList : List Json → Option (List Json)
  | [] => some []
  | x :: xs => do
      let x' ← normalize x
      let xs' ← normalizeList xs
      pure (x' :: xs')
def normalizeMembers : List (String × Json) → List (String × Json) → Option (List (String × Json))
  | [], acc => some acc
  | (k, v) :: ms, acc => do
      let v' ← normalize v
      normalizeMembers ms (insertSorted k v' acc)
end

structure PartSpec where
  /-- name of the wrapper variant (interface alias / contract name) -/
  label : String
  /-- the published routing list, as `<ep>_messages()` returns it -/
  published : List String
  variants : List VariantSpec
  deriving Repr, Inhabited

inductive WrapResult
  | ok (part : Nat) (variant : Nat) (fields : List (String × Json))
  | errParse                 -- the value pass itself failed
  | errFormat                -- "Wrong message format!"
  | errCount (n : Nat)       -- "Expected exactly one message. Received n"
  | errBody (part : Nat)     -- routed to a part which then rejected the document
  | errUnknown (text : String)
  deriving Repr

def findPart (parts : List PartSpec) (k : String) : Option (Nat × PartSpec) :=
  let rec go (i : Nat) : List PartSpec → Option (Nat × PartSpec)
    | [] => none
    | p :: r => if p.published.contains k then some (i, p) else go (i + 1) r
  go 0 parts

def dropRight2 (s : String) : String := String.ofList (s.toList.take (s.length - 2))

def unknownText (parts : List PartSpec) (doc : Json) : String :=
  let names := (parts.map (·.published)).flatten
  dropRight2 (names.foldl (fun acc m => acc ++ m ++ ", ")
    ("Unsupported message received: " ++ doc.render ++ ". Messages supported by this contract: "))

/-- the hand-written `Deserialize` of `Contract{Exec,Query,Sudo}Msg`; parts = interfaces in declaration order, then the contract -/
def wrapperDecode (parts : List PartSpec) (d : Json) : WrapResult :=
  match normalize d with
  | none => .errParse
  | some (.obj ms) =>
    match ms with
    | [(k, _)] =>
      match findPart parts k with
      | some (i, p) =>
        match decodeEnum true p.variants (.obj ms) with
        | some (v, fs) => .ok i v fs
        | none => .errBody i
      | none => .errUnknown (unknownText parts (.obj ms))
    | _ => .errCount ms.length
  | some _ => .errFormat

end Sylvia.Serde
