/-! model of sylvia::utils::assert_no_intersection (zipper representation). -/

namespace Inter

variable {α : Type} [DecidableEq α]

/-- An order given as a boolean `lt` with the laws we need. -/
structure StrictTotal (lt : α → α → Bool) : Prop where
  irrefl : ∀ a, lt a a = false
  trans  : ∀ a b c, lt a b = true → lt b c = true → lt a c = true
  total  : ∀ a b, lt a b = true ∨ a = b ∨ lt b a = true

/-- strictly increasing list: head below everything in the tail, recursively -/
def Sorted (lt : α → α → Bool) : List α → Prop
  | [] => True
  | a :: t => (∀ y ∈ t, lt a y = true) ∧ Sorted lt t

/-- One array with its cursor. `done` = consumed elements, most recent first; `rest` = not yet consumed.
Rust: Ongoing(i) ⇔ rest ≠ [] (i = done.length); Finished(i) ⇔ rest = [] ∧ done ≠ []; Empty ⇔ both []. -/
structure Cur (α : Type) where
  done : List α
  rest : List α

def Cur.full (c : Cur α) : List α := c.done.reverse ++ c.rest
def Cur.head (c : Cur α) : Option α := c.rest.head?
/-- what verify_no_collissions looks at: current head if ongoing, last element if finished -/
def Cur.look (c : Cur α) : Option α :=
  match c.rest with
  | h :: _ => some h
  | [] => c.done.head?
def Cur.advance (c : Cur α) : Cur α :=
  match c.rest with
  | h :: t => ⟨h :: c.done, t⟩
  | [] => c

def init (msgs : List (List α)) : List (Cur α) := msgs.map fun m => ⟨[], m⟩

def shouldEnd (cs : List (Cur α)) : Bool := cs.all fun c => c.rest.isEmpty

def remaining (cs : List (Cur α)) : Nat := (cs.map fun c => c.rest.length).sum

/-- get_next_alphabetical_index: scan i = 0..N, keep `out`; replace when array i is ongoing and
either `out` is not ongoing or head(out) > head(i). -/
def nextIndexGo (lt : α → α → Bool) (cs : List (Cur α)) (out : Nat) (i : Nat) : List (Cur α) → Nat
  | [] => out
  | c :: tl =>
    match c.head with
    | some h =>
      match (cs[out]?).bind Cur.head with
      | some ho => if lt h ho then nextIndexGo lt cs i (i+1) tl else nextIndexGo lt cs out (i+1) tl
      | none => nextIndexGo lt cs i (i+1) tl
    | none => nextIndexGo lt cs out (i+1) tl

def nextIndex (lt : α → α → Bool) (cs : List (Cur α)) : Nat := nextIndexGo lt cs 0 0 cs

/-- verify_no_collissions: true iff some other array's looked-at element equals the head of array `m` -/
def collides (cs : List (Cur α)) (m : Nat) : Bool :=
  match (cs[m]?).bind Cur.head with
  | none => false
  | some h => (List.range cs.length).any fun i => i != m && ((cs[i]?).bind Cur.look == some h)

def step (cs : List (Cur α)) (m : Nat) : List (Cur α) := cs.modify m Cur.advance

/-- main loop; `none` = ran out of fuel, `some true` = returned normally, `some false` = panicked -/
def loop (lt : α → α → Bool) : Nat → List (Cur α) → Option Bool
  | 0, cs => if shouldEnd cs then some true else none
  | fuel+1, cs =>
    if shouldEnd cs then some true else
      let m := nextIndex lt cs
      if collides cs m then some false else loop lt fuel (step cs m)

def assertNoIntersection (lt : α → α → Bool) (msgs : List (List α)) : Option Bool :=
  loop lt (msgs.map List.length).sum (init msgs)

def Disjoint (msgs : List (List α)) : Prop :=
  ∀ i j, i ≠ j → ∀ x, x ∈ msgs.getD i [] → x ∉ msgs.getD j []

end Inter

