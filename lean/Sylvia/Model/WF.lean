import Sylvia.Model.Gen
/-! Executable well-formedness of a program: what the macros' own checks (C05: disjoint routing lists) and
the compiler (distinct variant names, distinct parameter names) enforce, plus "argument types are in the
modelled universe with Rust's integer widths". The driver evaluates it on every corpus program; the theorems
that assume `ProgWF` are thereby shown to apply to the programs the streams run. -/
namespace Sylvia.Gen
open Serde

def wfTyB : VTy → Bool
  | .u b => b == 8 || b == 16 || b == 32 || b == 64
  | .i b => b == 8 || b == 16 || b == 32 || b == 64
  | .option t => wfTyB t
  | .vec t => wfTyB t
  | .pair a b => wfTyB a && wfTyB b
  | _ => true

def disjointB (ps : List PartSpec) : Bool :=
  (List.range ps.length).all fun i => (List.range ps.length).all fun j =>
    i == j ||
      match ps[i]?, ps[j]? with
      | some a, some b => a.published.all fun k => !b.published.contains k
      | _, _ => true

def methodWFb (m : Method) : Bool :=
  decide ((m.args.map (·.name)).Nodup) && m.args.all fun a => wfTyB (fieldSpec a).ty

def kindWFb (k : Kind) (p : Program) : Bool :=
  disjointB (parts k p) &&
  (partMethods k p).all fun ms => decide (((ms.map variantSpec).map (·.wire)).Nodup) && ms.all methodWFb

def progWFb (p : Program) : Bool := Kind.all.all fun k => kindWFb k p

end Sylvia.Gen
