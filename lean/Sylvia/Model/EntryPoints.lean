import Sylvia.Model.Program
import Sylvia.Extracted.Tables
/-! Model of `EntryPoints::emit` (sylvia-derive/src/entry_points.rs). The string→kind parsers and the
list of default kinds are not written here: they are the regenerated tables of `Extracted`. -/
namespace Sylvia.Gen

def hasHandler (c : Contract) (k : Kind) : Bool := c.methods.any fun m => m.kind? == some k

/-- kinds the *generator* treats as overridden: the override attribute's own parser -/
def overriddenKinds (c : Contract) : List Kind := c.overrides.filterMap (lookup Extracted.overrideParse)

/-- kinds of the entry points emitted into `mod entry_points`, in emission order -/
def entryPoints (c : Contract) : List Kind :=
  (Extracted.epDefaults.filter fun k => !(overriddenKinds c).contains k)
  ++ (if hasHandler c .migrate && !(overriddenKinds c).contains .migrate then [.migrate] else [])
  ++ (if hasHandler c .reply && !(overriddenKinds c).contains .reply then [.reply] else [])

/-- what one emitted entry point does, as far as the macro decides it -/
structure EpFn where
  fnName : Str
  /-- names of the parameters before `msg` -/
  params : List Str
  /-- associated type of `ContractApi` naming the decoded message (`none` for reply: `cosmwasm_std::Reply`) -/
  msgAccessor : Option Str
  /-- values handed to dispatch, in order -/
  values : List Str
  deriving Repr, DecidableEq

def epFn (k : Kind) : EpFn :=
  { fnName := (lookup Extracted.epName k).getD []
    params := ((lookup Extracted.ctxParams k).getD []).map Prod.fst
    msgAccessor := if k = .reply then none else lookup Extracted.accessorWrapperName k
    values := (lookup Extracted.ctxValues k).getD [] }

end Sylvia.Gen

namespace Sylvia.Gen

def strOfBytes (s : Str) : String := String.ofList (s.map Char.ofNat)

/-- `Name` or `Name<args>` / `Name::<args>` as `emit_default_entry_point` spells the contract type -/
def epContractTy (c : Contract) (turbofish : Bool) : String :=
  if c.epGenerics.isEmpty then c.name
  else c.name ++ (if turbofish then "::<" else "<") ++ ",".intercalate c.epGenerics ++ ">"

/-- name of the first method annotated `reply`, used by the legacy reply entry point -/
def firstReplyFn (c : Contract) : Option Name :=
  (c.methods.find? fun m => m.kind? == some .reply).map (·.name)

/-- white-space-free text of the emitted function body (three recognised templates) -/
def epBodyText (c : Contract) (k : Kind) (replyFn : String) : String :=
  let t := epContractTy c true
  if k = .reply then
    if c.replies then "{letcontract=" ++ t ++ "::new();sv::dispatch_reply(deps,env,msg,contract).map_err(Into::into)}"
    else "{" ++ t ++ "::new()." ++ replyFn ++ "((deps,env).into(),msg).map_err(Into::into)}"
  else
    "{msg.dispatch(&" ++ t ++ "::new(),(" ++ ",".intercalate ((epFn k).values.map strOfBytes) ++ ")).map_err(Into::into)}"

def epMsgText (c : Contract) (k : Kind) : String :=
  match (epFn k).msgAccessor with
  | none => "sylvia::cw_std::Reply"
  | some a => "<" ++ epContractTy c false ++ "assylvia::types::ContractApi>::" ++ strOfBytes a

end Sylvia.Gen
