import Sylvia.Extracted.Tables
import Sylvia.Util.Bytes
/-!
# C19 — generated code is hygienic about crate name and user type-parameter names

Every token the macros emit comes from a `quote!` / `parse_quote!` template, an interpolation of user
tokens, or the `#sylvia` path (the crate builds token streams in no other way; the check greps for
`TokenStream::from_str`, `.parse::<TokenStream>` and `Literal::` on every run). The two theorems are closed
decidable statements over the table of all templates regenerated from the current source.
What rustc's name resolution does with the result is observed (renamed-dependency corpus, one generic
contract and one interface per candidate parameter name), not proved: partial.
-/
namespace C19
open Sylvia Extracted

/-- crates a user's manifest may not know by these names -/
def frameworkRoots : List Str :=
  [bytes! "sylvia", bytes! "cosmwasm_std", bytes! "cosmwasm_schema", bytes! "cw_multi_test", bytes! "cw_utils",
   bytes! "schemars", bytes! "serde", bytes! "serde_json", bytes! "anyhow", bytes! "cw_std", bytes! "cw_schema"]

/-- path roots that resolve without looking at what the user's module has in scope: path keywords and primitive types, the
standard prelude, tool-attribute namespaces, and the items the macros themselves generate next to the template -/
def localRoots : List Str :=
  [bytes! "Self", bytes! "self", bytes! "super", bytes! "crate", bytes! "std", bytes! "core", bytes! "alloc",
   bytes! "str", bytes! "u8", bytes! "u16", bytes! "u32", bytes! "u64", bytes! "u128", bytes! "usize", bytes! "bool", bytes! "char",
   bytes! "Box", bytes! "Vec", bytes! "String", bytes! "Option", bytes! "Result", bytes! "Some", bytes! "None", bytes! "Ok", bytes! "Err",
   bytes! "Default", bytes! "Into", bytes! "From", bytes! "Iterator", bytes! "IntoIterator", bytes! "Clone", bytes! "ToString", bytes! "ToOwned",
   bytes! "AsRef", bytes! "PartialEq", bytes! "Eq", bytes! "Sized", bytes! "Send", bytes! "Sync", bytes! "Drop", bytes! "Fn", bytes! "FnMut", bytes! "FnOnce",
   bytes! "clippy", bytes! "rustfmt",
   bytes! "sv", bytes! "InstantiateMsg", bytes! "InstantiateProxy", bytes! "ExecMsg", bytes! "QueryMsg", bytes! "SudoMsg", bytes! "MigrateMsg",
   bytes! "ContractExecMsg", bytes! "ContractQueryMsg", bytes! "ContractSudoMsg", bytes! "CodeId", bytes! "SubMsgMethods"]

/-- the helper type parameters the templates declare themselves -/
def declaredParams : List Str := templateSites.flatMap fun t => t.2.2.1

/-- conventional names of user type parameters: a single upper-case letter, or a plain word -/
def isConventional (n : Str) : Bool :=
  (match n with | [c] => 65 ≤ c && c ≤ 90 | _ => false) ||
  [bytes! "Msg", bytes! "Query", bytes! "Param", bytes! "Item", bytes! "Data", bytes! "Key", bytes! "Value", bytes! "Exec",
   bytes! "Custom", bytes! "Config", bytes! "State"].contains n

/-- **no template names the framework (or one of its re-exported dependencies) by a literal crate path** -/
theorem no_literal_framework_root :
    templateSites.all (fun t => t.2.1.all fun r => !frameworkRoots.contains r) = true := by decide

/-- **no template relies on what the user's module happens to have in scope**: every literal path root is a path keyword,
a prelude name, an item the macro generates itself, or a type parameter a template declares. (A bare `Response::new()` or
`StdError::generic_err(..)` in a template compiles only in modules that import those names.) -/
theorem roots_resolve_without_user_scope :
    templateSites.all (fun t => t.2.1.all fun r => localRoots.contains r || declaredParams.contains r) = true := by decide

/-- **helper type parameters stay clear of conventional user names** wherever user generics are in scope -/
theorem helper_params_clear :
    templateSites.all (fun t => !t.2.2.2 || t.2.2.1.all fun g => !isConventional g) = true := by decide

end C19
