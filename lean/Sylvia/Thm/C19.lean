import Sylvia.Extracted.Tables
import Sylvia.Util.Bytes
/-!
# C19 — generated code is hygienic about crate name and user type-parameter names

Every token the macros emit comes from a `quote!` / `parse_quote!` template, an interpolation of user
tokens, or the `#sylvia` path (the crate builds token streams in no other way; the check greps for
`TokenStream::from_str`, `.parse::<TokenStream>` and `Literal::` on every run). The two theorems are closed
decidable statements over the table of all templates regenerated from the current source.
What rustc's name resolution does with the result is observed (renamed-dependency corpus, one generic
contract and one interface per candidate parameter name), not proved: partial.
-/
namespace C19
open Sylvia Extracted

/-- crates a user's manifest may not know by these names -/
def frameworkRoots : List Str :=
  [bytes! "sylvia", bytes! "cosmwasm_std", bytes! "cosmwasm_schema", bytes! "cw_multi_test", bytes! "cw_utils",
   bytes! "schemars", bytes! "serde", bytes! "serde_json", bytes! "anyhow", bytes! "cw_std", bytes! "cw_schema"]

/-- conventional names of user type parameters: a single upper-case letter, or a plain word -/
def isConventional (n : Str) : Bool :=
  (match n with | [c] => 65 ≤ c && c ≤ 90 | _ => false) ||
  [bytes! "Msg", bytes! "Query", bytes! "Param", bytes! "Item", bytes! "Data", bytes! "Key", bytes! "Value", bytes! "Exec",
   bytes! "Custom", bytes! "Config", bytes! "State"].contains n

/-- **no template names the framework (or one of its re-exported dependencies) by a literal crate path** -/
theorem no_literal_framework_root :
    templateSites.all (fun t => t.2.1.all fun r => !frameworkRoots.contains r) = true := by decide

/-- **helper type parameters stay clear of conventional user names** wherever user generics are in scope -/
theorem helper_params_clear :
    templateSites.all (fun t => !t.2.2.2 || t.2.2.1.all fun g => !isConventional g) = true := by decide

end C19
