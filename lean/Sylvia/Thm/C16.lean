import Sylvia.Model.QueryResponses
import Sylvia.Thm.C03
/-!
# C16 — query response metadata names each query's real response type
-/
namespace C16
open Sylvia Sylvia.Gen Sylvia.Facts Sylvia.QueryResponses

/-- the keys of a part's table are exactly the wire names of its query messages, in order -/
theorem responses_keys (ms : List Method) : (table ms).map Prod.fst = (variantSpecs .query ms).map (·.wire) := by
  simp [table, variantSpecs, variantSpec, Function.comp_def]

/-- each query is mapped to the type given in `resp=`, else to the first type argument of its result type -/
theorem responses_value (ms : List Method) (m : Method) (hm : m ∈ ms) (hk : m.kind? = some .query) :
    (wireName m, respText m) ∈ table ms := by
  simp only [table, List.mem_map, variantsOf, List.mem_filter]
  exact ⟨m, ⟨hm, by simpa using hk⟩, rfl⟩

theorem explicit_resp_wins (m : Method) (a : MsgAttr) (r : String) (hm : m.msg = some a) (hr : a.resp = some r) (hs : r ≠ "Self") :
    respText m = r := by
  have : (r == "Self") = false := by simpa using hs
  simp [respText, respTy, hm, hr, tyRender, stripSelf, stripSegs, stripTys, segsRender, argsRender, this]

/-- **contract level = union of the parts**: an entry is in the contract-level table iff it is in the table of
the contract or of one declared interface -/
theorem contract_table_is_union (p : Program) (e : String × String) :
    e ∈ contractTable p ↔ (e ∈ table p.contract.methods ∨ ∃ r ∈ p.contract.ifaces, e ∈ table (ifaceDef p r).methods) := by
  simp only [contractTable, List.mem_flatten, List.mem_append, List.mem_map, List.mem_singleton]
  constructor
  · rintro ⟨l, (⟨r, hr, rfl⟩ | rfl), he⟩
    · exact Or.inr ⟨r, hr, he⟩
    · exact Or.inl he
  · rintro (he | ⟨r, hr, he⟩)
    · exact ⟨_, Or.inr rfl, he⟩
    · exact ⟨_, Or.inl ⟨r, hr, rfl⟩, he⟩

/-- no sendable name appears that is not a query of some part -/
theorem contract_keys_are_query_names (p : Program) (k : String) (hk : k ∈ (contractTable p).map Prod.fst) :
    (∃ m ∈ p.contract.methods, m.kind? = some .query ∧ wireName m = k) ∨
    (∃ r ∈ p.contract.ifaces, ∃ m ∈ (ifaceDef p r).methods, m.kind? = some .query ∧ wireName m = k) := by
  obtain ⟨e, he, rfl⟩ := List.mem_map.mp hk
  have key : ∀ ms : List Method, e ∈ table ms → ∃ m ∈ ms, m.kind? = some .query ∧ wireName m = e.1 := by
    intro ms hms
    simp only [table, List.mem_map, variantsOf, List.mem_filter] at hms
    obtain ⟨m, ⟨hm, hq⟩, rfl⟩ := hms
    exact ⟨m, hm, by simpa using hq, rfl⟩
  rcases (contract_table_is_union p e).mp he with h | ⟨r, hr, h⟩
  · exact Or.inl (key _ h)
  · exact Or.inr ⟨r, hr, key _ h⟩

/-- the contract-level schema lists the parts in declaration order, the contract last -/
theorem any_of_order (k : Kind) (p : Program) :
    anyOf k p = (p.contract.ifaces.map fun r => (ifaceDef p r).name ++ msgTypeName k) ++ [msgTypeName k] := rfl

end C16
