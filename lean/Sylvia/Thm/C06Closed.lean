import Sylvia.Thm.C06
import Sylvia.Thm.Obl.Override
import Sylvia.Thm.Obl.T.epDefaults_documented
/-! C06 with its table hypotheses discharged against the regenerated tables. -/
namespace C06
open Sylvia Gen Extracted

theorem ep_iff_closed (c : Contract) (k : Kind) :
    k ∈ entryPoints c ↔ (defined c k = true ∧ k ∉ namedKinds c) :=
  ep_iff Obl.override_table_faithful Obl.epDefaults_documented c k

/-- **C06, forwarding.** Every emitted entry point is named after its kind, takes the context
parameters of that kind, decodes the contract-level message *of that kind* and passes exactly those
context values on to dispatch (the dispatch call itself is one of three recognised templates, checked by
`Obl.extraction_complete_C06`). -/
theorem ep_forwards (k : Kind) :
    (epFn k).params = (epFn k).values ∧
    (epFn k).values = (match k with
      | .exec | .instantiate => [[100, 101, 112, 115], [101, 110, 118], [105, 110, 102, 111]]
      | _ => [[100, 101, 112, 115], [101, 110, 118]]) ∧
    (k ≠ .reply → (epFn k).msgAccessor = lookup accessorWrapperName k) := by
  cases k <;> decide

end C06
