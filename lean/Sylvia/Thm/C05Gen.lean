import Sylvia.Lemmas.Sort
import Sylvia.Thm.C02
import Sylvia.Thm.Obl.Published
/-!
# C05, generator side — the list each part publishes is sorted and is exactly the set of its wire names
-/
namespace C05
open Sylvia Sylvia.Gen

/-- the published list is strictly increasing in `konst::cmp_str`'s order (the precondition of the overlap
scan) whenever the part's names are pairwise distinct -/
theorem nameList_sorted (k : Kind) (ms : List Method)
    (hnd : (((variantsOf k ms).map publishedName).map bytesOf).Nodup) :
    Inter.Sorted Lex.lexLt ((nameList k ms).map bytesOf) :=
  sortStrings_sorted _ hnd

/-- … and holds exactly the names the part's messages serialise under (no more, no fewer) -/
theorem nameList_are_wire_names (k : Kind) (ms : List Method) (key : String) :
    key ∈ nameList k ms ↔ ∃ m ∈ ms, m.kind? = some k ∧ wireName m = key := by
  have hpub : ∀ m : Method, publishedName m = wireName m := by
    intro m; unfold publishedName wireName; rw [Obl.published_rule_is_wire_rule]; rfl
  simp only [nameList, mem_sortStrings, variantsOf, List.mem_map, List.mem_filter, hpub]
  constructor
  · rintro ⟨m, ⟨hm, hk⟩, rfl⟩; exact ⟨m, hm, by simpa using hk, rfl⟩
  · rintro ⟨m, hm, hk, rfl⟩; exact ⟨m, ⟨hm, by simpa using hk⟩, rfl⟩

/-- same length: one entry per annotated method of the kind -/
theorem nameList_length (k : Kind) (ms : List Method) : (nameList k ms).length = (variantsOf k ms).length := by
  simp [nameList, (sortStrings_perm _).length_eq]

/-- closed form of `C02.parts_faithful` against the current source -/
theorem parts_faithful_closed (k : Kind) (p : Program) : C03.ListsFaithful (parts k p) :=
  C02.parts_faithful k p Obl.published_rule_is_wire_rule

end C05
