import Sylvia.Extracted.MtProxyFns
/-!
# The exec / migrate proxies of the multitest helpers, on the regenerated code of `sylvia/src/multitest.rs` (C12)

`Extracted.MtProxyFns.*` is written by the function translator from the current source on every run: `downcast_error`,
`ExecProxy::{new, with_funds, call}`, `MigrateProxy::{new, call}`. The chain's two operations are the parameter `chain`. The theorems
say that a proxy call *is* the corresponding raw operation of the chain — same contract address, same message, the funds set last
on the builder exactly as given (not reordered, filtered or merged), same sender, same new code id — and that what comes back is the
chain's own result with the error converted: the contract's error type as it is, a `StdError` through `From`, anything else (a
refusal by the chain itself) as a generic `StdError` carrying its text; nothing panics.
-/
namespace MtProxyFn
open RustSem RustExtern RustExtern.Mt Extracted.MtProxyFns

variable {App Msg Coin Resp Error : Type}

/-- the documented conversion of what the chain reports -/
def conv (fromStd : StdError → Error) : AnyErr Error → Error
  | .own e => e
  | .std e => fromStd e
  | .other t => fromStd (.generic_err t)

/-- **`downcast_error` is total and is `conv`** (the `unwrap`s after `is::<T>()` never panic) -/
theorem downcast_error_eq (chain : Chain App Msg Coin Resp Error) (fromStd : StdError → Error) (err : AnyErr Error) :
    downcast_error chain fromStd err = .ok (conv fromStd err) := by
  cases err <;> rfl

def mapErr {α ε ε' : Type} (f : ε → ε') : Except ε α → Except ε' α
  | .ok a => .ok a
  | .error e => .error (f e)

theorem mapErrRes_total {α ε ε' : Type} (f : ε → Res ε') (g : ε → ε') (h : ∀ e, f e = .ok (g e)) (r : Except ε α) :
    mapErrRes f r = .ok (mapErr g r) := by
  cases r <;> simp [mapErrRes, mapErr, h]

/-- any number of `with_funds` calls, in order -/
def withAll (chain : Chain App Msg Coin Resp Error) (fromStd : StdError → Error) :
    ExecProxy App Msg Coin → List (List Coin) → Res (ExecProxy App Msg Coin)
  | b, [] => .ok b
  | b, f :: r => (ExecProxy.with_funds chain fromStd b f).bind fun b' => withAll chain fromStd b' r

theorem withAll_eq (chain : Chain App Msg Coin Resp Error) (fromStd : StdError → Error) (b : ExecProxy App Msg Coin) (fs : List (List Coin)) :
    withAll chain fromStd b fs = .ok { b with funds := (fs.getLast?).getD b.funds } := by
  induction fs generalizing b with
  | nil => rfl
  | cons f r ih =>
    simp only [withAll, ExecProxy.with_funds, bind_ok, ih]
    cases r <;> simp [List.getLast?]

/-- **C12, exec.** For every chain, contract address, message, sequence of `with_funds` calls and sender: the proxy call is the raw
`execute_contract` with exactly those values, its error converted by `conv`. -/
theorem exec_call_eq (chain : Chain App Msg Coin Resp Error) (fromStd : StdError → Error)
    (addr : String) (msg : Msg) (app : App) (fs : List (List Coin)) (sender : String) :
    ((ExecProxy.new chain fromStd addr msg app).bind fun p => (withAll chain fromStd p fs).bind fun p' => ExecProxy.call chain fromStd p' sender)
      = .ok (mapErr (conv fromStd) (chain.execute_contract app sender addr msg ((fs.getLast?).getD []))) := by
  simp only [ExecProxy.new, bind_ok, withAll_eq, ExecProxy.call]
  rw [mapErrRes_total (g := conv fromStd)]
  · rfl
  · intro e; cases e <;> rfl

/-- **C12, migrate.** Likewise: the raw `migrate_contract` with the same sender, address, message and new code id. -/
theorem migrate_call_eq (chain : Chain App Msg Coin Resp Error) (fromStd : StdError → Error)
    (addr : String) (msg : Msg) (app : App) (sender : String) (code : Nat) :
    ((MigrateProxy.new chain fromStd addr msg app).bind fun p => MigrateProxy.call chain fromStd p sender code)
      = .ok (mapErr (conv fromStd) (chain.migrate_contract app sender addr msg code)) := by
  simp only [MigrateProxy.new, bind_ok, MigrateProxy.call]
  rw [mapErrRes_total (g := conv fromStd) (h := downcast_error_eq chain fromStd)]
  rfl

/-- non-vacuity: a chain that refuses with its own error text; the proxy hands back a generic `StdError` with that text, funds as given -/
def demoChain : Chain Unit Nat Nat Unit StdError := ⟨fun _ _ _ _ fs => .error (.other (toString fs)), fun _ _ _ _ _ => .ok ()⟩
example : ((ExecProxy.new demoChain id "c" 7 ()).bind fun p =>
      (ExecProxy.with_funds demoChain id p [3, 0, 1]).bind fun p' => ExecProxy.call demoChain id p' "s")
    = .ok (.error (StdError.generic_err "[3, 0, 1]")) := rfl

end MtProxyFn
