import Sylvia.Lemmas.Reply
import Sylvia.Lemmas.Serde
import Sylvia.Lemmas.UpperSnake
/-!
# C08 — sub-message builders and reply dispatch agree on id, trigger and payload
-/
namespace C08
open Sylvia Sylvia.Reply Sylvia.Serde

/-- distinct handler ids get distinct table entries, hence distinct numeric ids -/
theorem ids_distinct (b : Bool) (tyEq : Ty → Ty → Bool) (ms : List Method) :
    (((replyTable b tyEq ms).1).map (·.id)).Nodup := (replyTable_ok b tyEq ms).2

theorem findIdx?_lt {α : Type} (p : α → Bool) : ∀ (l : List α) (i : Nat), findIdx? p l = some i → ∃ x, l[i]? = some x ∧ p x = true
  | [], _, h => by simp [findIdx?] at h
  | x :: r, i, h => by
    simp only [findIdx?] at h
    split at h
    · cases h; exact ⟨x, rfl, by assumption⟩
    · cases hr : findIdx? p r with
      | none => simp [hr] at h
      | some j =>
        simp [hr] at h; subst h
        obtain ⟨y, hy, hp⟩ := findIdx?_lt p r j hr
        exact ⟨y, by simpa using hy, hp⟩

/-- two handler names with different id strings never share a numeric id -/
theorem numeric_ids_injective (tbl : List Entry) (hnd : (tbl.map (·.id)).Nodup) (id1 id2 : String) (n : Nat)
    (h1 : idOf tbl id1 = some n) (h2 : idOf tbl id2 = some n) : id1 = id2 := by
  obtain ⟨x, hx, hp⟩ := findIdx?_lt _ tbl n h1
  obtain ⟨y, hy, hq⟩ := findIdx?_lt _ tbl n h2
  rw [hx] at hy; cases hy
  have e1 : x.id = id1 := by simpa using hp
  have e2 : x.id = id2 := by simpa using hq
  rw [← e1, ← e2]

/-- **Trigger.** The builder requests a reply for exactly the outcomes that have a method: `always` iff an
`always` method exists or both a `success` and an `error` method exist; otherwise the single outcome present. -/
theorem trigger_spec (e : Entry) :
    let hasA := e.handlers.any (·.2 == .always)
    let hasS := e.handlers.any (·.2 == .success)
    let hasE := e.handlers.any (·.2 == .error)
    (cwReplyOn e = .always ↔ (hasA = true ∨ (hasS = true ∧ hasE = true))) ∧
    (cwReplyOn e = .success ↔ (hasA = false ∧ hasS = true ∧ hasE = false)) ∧
    (cwReplyOn e = .error ↔ (hasA = false ∧ hasS = false)) := by
  simp only [cwReplyOn]
  cases e.handlers.any (·.2 == .always) <;> cases e.handlers.any (·.2 == .success) <;>
    cases e.handlers.any (·.2 == .error) <;> simp

/-- the builders, on the fields the macro decides -/
structure Built where
  id : Nat
  trigger : ReplyOn
  gasLimit : Option Nat
  /-- the wrapped message, opaque -/
  msg : String
  payload : List Json

/-- `impl SubMsgMethods for SubMsg`: `SubMsg { reply_on, id, payload, ..self }` -/
def onSubMsg (n : Nat) (e : Entry) (self : Built) (payload : List Json) : Built :=
  { self with id := n, trigger := cwReplyOn e, payload := payload }

/-- `impl SubMsgMethods for WasmMsg / CosmosMsg`: `SubMsg { reply_on, id, msg: self.into(), payload, gas_limit: None }` -/
def onMsg (n : Nat) (e : Entry) (msg : String) (payload : List Json) : Built :=
  { id := n, trigger := cwReplyOn e, gasLimit := none, msg := msg, payload := payload }

theorem submsg_preserves (n : Nat) (e : Entry) (self : Built) (p : List Json) :
    (onSubMsg n e self p).msg = self.msg ∧ (onSubMsg n e self p).gasLimit = self.gasLimit ∧
    (onSubMsg n e self p).id = n ∧ (onSubMsg n e self p).trigger = cwReplyOn e := ⟨rfl, rfl, rfl, rfl⟩

theorem msg_converted (n : Nat) (e : Entry) (msg : String) (p : List Json) :
    (onMsg n e msg p).msg = msg ∧ (onMsg n e msg p).gasLimit = none ∧ (onMsg n e msg p).id = n := ⟨rfl, rfl, rfl⟩

/-- **Payload round trip.** Canonical payload values (what `to_json_binary` writes for the builder's arguments)
decode back to themselves under the same parameter types — one value or several. -/
theorem payload_roundtrip_one (t : VTy) (j c : Json) (h : decodeVal false t j = some c) : decodeVal false t c = some c :=
  decodeVal_idem false false t j c h

theorem payload_roundtrip_many : ∀ (ts : List VTy) (js cs : List Json),
    (List.zip ts js).mapM (fun p => decodeVal false p.1 p.2) = some cs → ts.length = js.length →
    (List.zip ts cs).mapM (fun p => decodeVal false p.1 p.2) = some cs
  | [], [], cs, h, _ => by simp at h; subst h; simp
  | t :: ts, j :: js, cs, h, hl => by
    simp only [List.zip_cons_cons, List.mapM_cons] at h
    cases hj : decodeVal false t j with
    | none => simp [hj] at h
    | some c =>
      cases hr : (List.zip ts js).mapM (fun p => decodeVal false p.1 p.2) with
      | none => simp [hj, hr] at h
      | some cr =>
        simp [hj, hr] at h
        subst h
        have ih := payload_roundtrip_many ts js cr hr (by simpa using hl)
        simp [List.zip_cons_cons, List.mapM_cons, decodeVal_idem false false t j c hj, ih]
  | [], _ :: _, _, _, hl => by simp at hl
  | _ :: _, [], _, _, hl => by simp at hl

/-- **the id constant's name determines the handler name**, for handler names of the property's shape (lower-case
words, each optionally ending in digits, joined by single underscores): two handlers never share an id by accident -/
theorem id_string_injective_on_shape (w w' : Casing.Word) (ws ws' : List Casing.Word)
    (h : Casing.ccUpperSnake (Casing.render (w :: ws)) = Casing.ccUpperSnake (Casing.render (w' :: ws'))) :
    Casing.render (w :: ws) = Casing.render (w' :: ws') := by
  rw [Casing.upperSnake_injective_on_shape w w' ws ws' h]

/-- outside that shape the id string is *not* injective: `foo1` and `foo_1` share `FOO_1` (recorded limitation) -/
example : Casing.ccUpperSnake [.lower 5, .lower 14, .lower 14, .digit 1] = Casing.ccUpperSnake [.lower 5, .lower 14, .lower 14, .us, .digit 1] := by decide

end C08
