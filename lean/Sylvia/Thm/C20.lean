import Sylvia.Model.Runtime
/-!
# C20 — a stored remote handle has a stable, type-independent encoding
-/
namespace C20
open Sylvia Sylvia.Runtime Sylvia.Serde

/-- the encoding is the single-member object `{"addr": <address>}` … -/
theorem remote_encode {ι : Type} (r : Remote ι) : r.encode = .obj [("addr", .str r.addr)] := rfl

/-- … whatever the type parameter and whether the address is owned or borrowed -/
theorem remote_encode_independent {ι κ : Type} (a : String) (o o' : Ownership) :
    (({ addr := a, own := o } : Remote ι)).encode = (({ addr := a, own := o' } : Remote κ)).encode := rfl

/-- decoding that JSON gives back a handle to the same address, for every address string -/
theorem remote_roundtrip {ι : Type} (r : Remote ι) : (Remote.decode ι r.encode).map (·.addr) = some r.addr := by
  simp [Remote.encode, Remote.decode, decodeStruct, decodeFields, hasDupField, remoteFields, decodeField,
    Json.get?, decodeVal, List.mapM_cons]

/-- a handle stored under one type parameter is read back under any other -/
theorem remote_cross_type {ι κ : Type} (r : Remote ι) : (Remote.decode κ r.encode).map (·.addr) = some r.addr := by
  simp [Remote.encode, Remote.decode, decodeStruct, decodeFields, hasDupField, remoteFields, decodeField,
    Json.get?, decodeVal, List.mapM_cons]

theorem remote_schema_name (ι κ : Type) : Remote.schemaName ι = Remote.schemaName κ := rfl

end C20
