import Sylvia.Extracted.HandleFns
/-!
# Remote handles and the executor builder, on the regenerated code of `sylvia/src/types.rs` (C10, C20)

`Extracted.Handles.*` is written by the function translator from the current source on every run: `Remote::{new, borrowed,
executor, update_admin, clear_admin}`, `AsRef::as_ref`, the hand-written `JsonSchema::schema_name`, and `ExecutorBuilder` in both
its type states (`new` of the empty state, `with_funds`, the getters, `new` of the ready state, `build`). The attribute lists of
`struct Remote` are carried as data. What the *generated* executor methods do with these functions —
`ExecutorBuilder::<Ready>::new(self.contract().to_owned(), self.funds().to_owned(), to_json_binary(&msg)?)` — is `ready` below
(the template itself is tied by the tables and the L2 streams of C10).
-/
namespace HandlesFn
open RustSem RustExtern Extracted.Handles

variable {Binary Coin : Type} [Inhabited Binary]

/-- what a generated executor method does with the builder it is called on and the encoded message -/
def ready (b : ExecutorBuilder Binary Coin) (msg : Binary) : Res (ExecutorBuilder Binary Coin) :=
  (ExecutorBuilder.contract_m b).bind fun c => (ExecutorBuilder.funds_m b).bind fun f => ExecutorBuilder.new_3 c f msg

/-- any number of `with_funds` calls, in order -/
def withAll : ExecutorBuilder Binary Coin → List (List Coin) → Res (ExecutorBuilder Binary Coin)
  | b, [] => .ok b
  | b, f :: r => (ExecutorBuilder.with_funds b f).bind fun b' => withAll b' r

theorem withAll_eq (b : ExecutorBuilder Binary Coin) (fs : List (List Coin)) :
    withAll b fs = .ok { b with funds := (fs.getLast?).getD b.funds } := by
  induction fs generalizing b with
  | nil => rfl
  | cons f r ih =>
    simp only [withAll, ExecutorBuilder.with_funds, bind_ok, ih]
    cases r <;> simp [List.getLast?]

/-- **C10, executor clause, on the regenerated code.** For every handle (owning or borrowing its address), every sequence of
`with_funds` calls and every encoded body: the wasm execute message is addressed to the handle's address, carries the funds set
last on the builder (none when never set) and the body unchanged; nothing panics. -/
theorem executor_msg (r : Remote Binary Coin) (fs : List (List Coin)) (msg : Binary) :
    ((Remote.executor r).bind fun b => (withAll b fs).bind fun b' => (ready b' msg).bind ExecutorBuilder.build)
      = .ok (WasmMsg.Execute (contract_addr := r.addr.get) (msg := msg) (funds := (fs.getLast?).getD [])) := by
  simp only [Remote.executor, ExecutorBuilder.new_1, bind_ok, withAll_eq, ready, ExecutorBuilder.contract_m, ExecutorBuilder.funds_m,
    ExecutorBuilder.new_3, ExecutorBuilder.build]
  rfl

/-- **C10, admin helpers.** Both address the handle's contract. -/
theorem admin_helpers (r : Remote Binary Coin) (a : String) :
    Remote.update_admin r a = .ok (WasmMsg.UpdateAdmin (contract_addr := r.addr.get) (admin := a)) ∧
    Remote.clear_admin r = .ok (WasmMsg.ClearAdmin (contract_addr := r.addr.get)) := ⟨rfl, rfl⟩

/-- **C20.** An owning and a borrowing handle to one address hold the same address, and `as_ref` returns it. -/
theorem new_borrowed_same (a : String) :
    (Remote.new (Binary := Binary) (Coin := Coin) a).bind Remote.as_ref = .ok a ∧
    (Remote.borrowed (Binary := Binary) (Coin := Coin) a).bind Remote.as_ref = .ok a := ⟨rfl, rfl⟩

/-- **C20, schema name.** The hand-written `schema_name` takes no argument and mentions no type parameter: it is the constant
`Remote`; the impl defines `schema_name` and `json_schema` only (no `schema_id` that could bring the parameter back in). -/
theorem schema_name_const : Remote.schema_name = .ok "Remote" := rfl

theorem json_schema_impl_fns :
    (Remote.traitImpls.filter fun p => p.1 == bytes! "JsonSchema") = [(bytes! "JsonSchema", [bytes! "schema_name", bytes! "json_schema"])] := by decide

/-- **C20, encoding.** `struct Remote` derives `Serialize` and `Deserialize`, carries no container attribute, its only
serialised field is `addr` (no attribute), and `_phantom` is skipped: serde's derive therefore encodes it as the single-member
object `{"addr": ..}` and reads that back, whatever the type parameter (which occurs in the skipped field only). -/
theorem remote_shape :
    Remote.derives.contains (bytes! "Serialize") = true ∧ Remote.derives.contains (bytes! "Deserialize") = true ∧
    Remote.structAttrs = [] ∧ Remote.fieldAttrs = [(bytes! "addr", []), (bytes! "_phantom", [bytes! "serde(skip)"])] := by decide

end HandlesFn
