import Sylvia.Extracted.RetTypeFns
/-!
# `extract_return_type`, on the regenerated code of `sylvia-derive/src/utils.rs` (C16)

The type a query's signature returns on success is what `#[returns(..)]` of the generated `QueryMsg` — and hence the query-response
table — names when no `resp=` is given. `Extracted.RetTypeFns.extract_return_type` is rewritten from the current source on every
run; `emit_error!` is a diagnostic appended to the list returned next to the value. The theorems: for **every** return type whose
*last* path segment carries angle-bracketed arguments the first of which is a path type, the function returns that path — whatever
the leading segments (`std::result::Result<..>`, `sylvia::cw_std::StdResult<..>`), whatever the other arguments — and it complains
exactly when the segment is named neither `Result` nor `StdResult`; it never looks at anything else. On every other shape it panics
(`unreachable!` / `assert!`), which is the totalisation the code has.
-/
namespace RetTypeFn
open RustSem RustExtern.SynTy Extracted.RetTypeFns

def aliasDiag : String :=
  "Neither Result nor StdResult found in return type. You might be using aliased return type. Please use #[sv::msg(return_type=<your_return_type>)]"

theorem getLast_append_singleton {α : Type} (l : List α) (a : α) : (l ++ [a]).getLast? = some a := by simp

/-- **C16, the signature's success type.** `pre` are the leading path segments, `name` the last segment's identifier, `p` the path of
its first type argument, `more` the remaining arguments. -/
theorem extract_spec (pre : List PathSegment) (name : String) (p : Path) (more : List GenericArgument) :
    extract_return_type (.Type () (.Path (.mk (.mk (pre ++ [.mk name (.AngleBracketed (.mk (.Type (.Path (.mk p)) :: more)))])))))
      = .ok (p, if name != "Result" && name != "StdResult" then [aliasDiag] else []) := by
  unfold extract_return_type
  have hne : (pre ++ [PathSegment.mk name (.AngleBracketed (.mk (.Type (.Path (.mk p)) :: more)))]).isEmpty = false := by
    cases pre <;> rfl
  simp only [TypePath.path, Path.segments, hne, Bool.not_false, if_true,
    getLast_append_singleton, unwrapOpt, bind_ok, PathSegment.ident, PathSegment.arguments, AngleArgs.args, idx, List.getElem?_cons_zero,
    List.isEmpty_cons]
  by_cases h : (name != "Result" && name != "StdResult") = true
  · simp [h, aliasDiag]
  · simp [h]

/-- for the two names the property speaks of there is no diagnostic, with or without a path in front -/
theorem extract_result (pre : List PathSegment) (p : Path) (more : List GenericArgument) :
    extract_return_type (.Type () (.Path (.mk (.mk (pre ++ [.mk "Result" (.AngleBracketed (.mk (.Type (.Path (.mk p)) :: more)))]))))) = .ok (p, []) ∧
    extract_return_type (.Type () (.Path (.mk (.mk (pre ++ [.mk "StdResult" (.AngleBracketed (.mk (.Type (.Path (.mk p)) :: more)))]))))) = .ok (p, []) := by
  constructor <;> (rw [extract_spec]; rfl)

/-- a function without a return type is outside the domain (the code panics; the macros report such handlers before) -/
theorem extract_default : extract_return_type .Default = .panic := rfl

/-- non-vacuity: `sylvia::cw_std::StdResult<CountResponse>` (D23: the first segment used to be read) -/
example : extract_return_type (.Type () (.Path (.mk (.mk [.mk "sylvia" .None, .mk "cw_std" .None,
      .mk "StdResult" (.AngleBracketed (.mk [.Type (.Path (.mk (.mk [.mk "CountResponse" .None])))]))]))))
    = .ok (.mk [.mk "CountResponse" .None], []) := by
  have := extract_spec [.mk "sylvia" .None, .mk "cw_std" .None] "StdResult" (.mk [.mk "CountResponse" .None]) []
  simpa using this

end RetTypeFn
