import Sylvia.Thm.C11
import Sylvia.Util.Bytes
import Sylvia.Model.Kinds
/-!
# C11 under every cargo feature set

`CosmosMsg` variants and the converting arms of `IntoMsg::into_msg` are both compiled conditionally. `variantFeatures`
is cosmwasm-std 2.2's own table (trusted; recorded in DESIGN §6); the arms' features are regenerated from
`sylvia/src/into_response.rs` (`Extracted.convertibleCfg`). The theorems below hold for every feature set `F`.
-/
namespace C11
open Sylvia Sylvia.Runtime

/-- the cargo features (of cosmwasm-std, forwarded one-to-one by sylvia's features of the same name) under which a
variant of `CosmosMsg` exists -/
def variantFeatures : MsgKind → List Str
  | .bank | .wasm | .custom => []
  | .staking | .distribution => [bytes! "staking"]
  | .ibc | .gov | .stargate => [bytes! "stargate"]
  | .any => [bytes! "cosmwasm_2_0"]

def existsUnder (F : List Str) (k : MsgKind) : Bool := (variantFeatures k).all F.contains

/-- the arms of `into_msg` that are compiled under `F` -/
def armsUnder (cfg : List (MsgKind × List Str)) (F : List Str) : List MsgKind :=
  (cfg.filter fun r => r.2.all F.contains).map Prod.fst

/-- every variant that exists under `F` (other than `Custom`) has a converting arm compiled under `F` -/
def CompleteUnder (cfg : List (MsgKind × List Str)) (F : List Str) : Prop :=
  ∀ k, k ≠ .custom → existsUnder F k = true → (armsUnder cfg F).contains k = true

theorem intoMsgs_ok_on (cv : List MsgKind) (P : MsgKind → Prop)
    (hc : ∀ k, k ≠ .custom → P k → cv.contains k = true) : ∀ ms : List SubMsg,
    (∀ m ∈ ms, m.kind ≠ .custom ∧ P m.kind) → intoMsgs cv ms = .ok ms
  | [], _ => rfl
  | m :: r, h => by
    have hm := h m (by simp)
    have hin : cv.contains m.kind = true := hc m.kind hm.1 hm.2
    have : intoMsg cv m = .ok m := by simp only [intoMsg, hm.1, if_false, hin, if_true]
    simp [intoMsgs, this, intoMsgs_ok_on cv P hc r (fun x hx => h x (by simp [hx]))]

/-- **C11 for every feature set.** Whatever features sylvia is built with: a response whose messages are all of kinds
that exist under those features, none of them custom, is converted unchanged. -/
theorem into_response_ok_under (cfg : List (MsgKind × List Str)) (F : List Str) (hc : CompleteUnder cfg F) (r : Response)
    (h : ∀ m ∈ r.messages, m.kind ≠ .custom ∧ existsUnder F m.kind = true) :
    intoResponse (armsUnder cfg F) r = .ok r := by
  simp [intoResponse, intoMsgs_ok_on (armsUnder cfg F) (fun k => existsUnder F k = true) hc r.messages h]

/-- the eight feature sets over {staking, stargate, cosmwasm_2_0} -/
def featureSets : List (List Str) :=
  [[], [bytes! "staking"], [bytes! "stargate"], [bytes! "cosmwasm_2_0"],
   [bytes! "staking", bytes! "stargate"], [bytes! "staking", bytes! "cosmwasm_2_0"], [bytes! "stargate", bytes! "cosmwasm_2_0"],
   [bytes! "staking", bytes! "stargate", bytes! "cosmwasm_2_0"]]

def allKinds : List MsgKind := [.bank, .custom, .staking, .distribution, .stargate, .ibc, .wasm, .gov, .any]

/-- executable form of `CompleteUnder` over all feature sets (lifted below) -/
def completeAllB (cfg : List (MsgKind × List Str)) : Bool :=
  featureSets.all fun F => allKinds.all fun k => k == .custom || !existsUnder F k || (armsUnder cfg F).contains k

theorem completeAllB_sound (cfg : List (MsgKind × List Str)) (h : completeAllB cfg = true) :
    ∀ F ∈ featureSets, CompleteUnder cfg F := by
  intro F hF k hk hex
  have h1 := List.all_eq_true.mp h F hF
  have hmem : k ∈ allKinds := by cases k <;> simp [allKinds]
  have h2 := List.all_eq_true.mp h1 k hmem
  have hk' : (k == MsgKind.custom) = false := by cases k <;> first | exact absurd rfl hk | rfl
  simpa [hk', hex] using h2

/-- non-vacuity: the documented arm table is complete under every feature set; dropping the feature of one arm is not -/
example : completeAllB [(.wasm, []), (.bank, []), (.staking, [bytes! "staking"]), (.distribution, [bytes! "staking"]),
    (.ibc, [bytes! "stargate"]), (.any, [bytes! "cosmwasm_2_0"]), (.gov, [bytes! "stargate"]), (.stargate, [bytes! "stargate"])] = true := by decide
example : completeAllB [(.wasm, []), (.bank, []), (.staking, [bytes! "staking"]), (.distribution, [bytes! "stargate"]),
    (.ibc, [bytes! "stargate"]), (.any, [bytes! "cosmwasm_2_0"]), (.gov, [bytes! "stargate"]), (.stargate, [bytes! "stargate"])] = false := by decide

end C11
