import Sylvia.Extracted.CheckGenFns
import Sylvia.Extracted.WheresFns
import Sylvia.Model.Facts
/-!
# `CheckGenerics` and `filter_wheres`, on the regenerated code (C15)

`Extracted.CheckGenFns.*` (`sylvia-derive/src/parser/check_generics.rs`) and `Extracted.WheresFns.filter_wheres`
(`sylvia-derive/src/utils.rs`) are written by the function translator from the current source on every run. syn's walker is a
parameter: it delivers the paths of a node in visiting order, and `visit_path` — the one visit the macro overrides — is applied to
each. The theorems identify the result with the model's `Facts.usedOf` (the parameters that occur, each once, in order of first
occurrence — the object of `C15.used_iff`, `used_nodup`, `used_unused_partition`) and `Facts.filterWheres` (`C15.where_iff`), for
**every** parameter list and every sequence of visited paths.
-/
namespace GenericsFn
open RustSem Extracted.CheckGenFns Extracted.WheresFns Sylvia.Facts

/-- one visited path; a generic parameter's own path is its name (`GetPath for GenericParam`: `parse_quote!{ #ident }`) -/
def step (gens : List String) (used : List String) (p : String) : List String :=
  if gens.contains p && !used.contains p then used ++ [p] else used

theorem find_self (gens : List String) (p : String) :
    List.find? (fun g => (some g : Option String) == some p) gens = if gens.contains p then some p else none := by
  induction gens with
  | nil => rfl
  | cons g r ih =>
    by_cases h : g = p
    · subst h; simp [List.find?]
    · have h' : ((some g : Option String) == some p) = false := by simp [h]
      have h2 : (p == g) = false := by simp [Ne.symm h]
      simp only [List.find?, h', ih, List.contains_cons, h2, Bool.false_or]

/-- **`visit_path` never panics and is `step`** -/
theorem visit_path_eq (c : CheckGenerics String) (p : String) :
    CheckGenerics.visit_path (fun g => some g) c p = .ok { c with used := step c.generics c.used p } := by
  unfold CheckGenerics.visit_path step
  rw [find_self]
  by_cases hg : p ∈ c.generics <;> by_cases hu : p ∈ c.used <;> simp [hg, hu]

/-- the walker: every path of the node, in visiting order -/
def visitAll : CheckGenerics String → List String → Res (CheckGenerics String)
  | c, [] => .ok c
  | c, p :: r => (CheckGenerics.visit_path (fun g => some g) c p).bind fun c' => visitAll c' r

theorem visitAll_eq (c : CheckGenerics String) (ps : List String) :
    visitAll c ps = .ok { c with used := ps.foldl (step c.generics) c.used } := by
  induction ps generalizing c with
  | nil => rfl
  | cons p r ih => simp [visitAll, visit_path_eq, ih]

/-- the fold over the visited paths, from any starting list: what was there, then the new parameters in order of first occurrence -/
theorem foldl_step (gens : List String) : ∀ (occ used : List String),
    occ.foldl (step gens) used = used ++ (dedup (occ.filter gens.contains)).filter (fun x => !used.contains x)
  | [], used => by simp [dedup]
  | p :: r, used => by
    rw [List.foldl_cons, foldl_step gens r]
    by_cases hg : p ∈ gens
    · by_cases hu : p ∈ used
      · have hs : step gens used p = used := by simp [step, hg, hu]
        rw [hs]
        simp only [List.filter_cons, List.contains_eq_mem, hg, decide_true, if_true, dedup, List.filter_filter]
        simp only [hu, decide_true, Bool.not_true, Bool.false_eq_true, if_false]
        congr 1
        apply List.filter_congr
        intro x _
        by_cases hx : x = p
        · subst hx; simp [hu]
        · simp [hx]
      · have hs : step gens used p = used ++ [p] := by simp [step, hg, hu]
        rw [hs]
        simp only [List.filter_cons, List.contains_eq_mem, hg, decide_true, if_true, dedup, List.filter_filter]
        simp only [hu, decide_false, Bool.not_false, if_true, List.append_assoc, List.singleton_append]
        congr 2
        apply List.filter_congr
        intro x _
        by_cases hx : x = p
        · subst hx; simp
        · simp [hx]
    · have hs : step gens used p = used := by simp [step, hg]
      rw [hs]
      simp [List.filter_cons, hg]

/-- **the regenerated checker computes the model's `usedOf`**: for every parameter list and every sequence of visited paths -/
theorem used_eq_model (gens occ : List String) :
    ((CheckGenerics.new (fun g => some g) gens).bind fun c => (visitAll c occ).bind (CheckGenerics.used_m (fun g => some g)))
      = .ok (usedOf gens occ) := by
  simp only [CheckGenerics.new, bind_ok, visitAll_eq, CheckGenerics.used_m, foldl_step, usedOf]
  simp

/-- **the used / unused split** is the model's: `unused` are the parameters not in `used`, in declaration order -/
theorem used_unused_eq (gens occ : List String) :
    ((CheckGenerics.new (fun g => some g) gens).bind fun c => (visitAll c occ).bind (CheckGenerics.used_unused (fun g => some g)))
      = .ok (usedOf gens occ, gens.filter fun g => !(usedOf gens occ).contains g) := by
  simp only [CheckGenerics.new, bind_ok, visitAll_eq, CheckGenerics.used_unused, foldl_step, usedOf]
  simp

-- ------------------------------------------------------------------------------------------------
-- filter_wheres, with the regenerated checker plugged in
-- ------------------------------------------------------------------------------------------------
/-- the checker as `filter_wheres` uses it (total, by the theorems above) -/
def cgNew (gens : List String) : CheckGenerics String := { generics := gens, used := [] }
def cgVisit (paths : WP → List String) (c : CheckGenerics String) (w : WP) : CheckGenerics String :=
  { c with used := (paths w).foldl (step c.generics) c.used }
def cgUsed (c : CheckGenerics String) : List String := c.used

theorem cg_is_code {WP : Type} (paths : WP → List String) (gens : List String) (w : WP) :
    CheckGenerics.new (fun g => some g) gens = .ok (cgNew gens) ∧
    visitAll (cgNew gens) (paths w) = .ok (cgVisit paths (cgNew gens) w) ∧
    CheckGenerics.used_m (fun g => some g) (cgVisit paths (cgNew gens) w) = .ok (cgUsed (cgVisit paths (cgNew gens) w)) :=
  ⟨rfl, visitAll_eq _ _, rfl⟩

/-- **`filter_wheres` keeps a predicate iff every parameter it mentions is used** — the model's `filterWheres`, for every where-clause -/
theorem filter_wheres_eq {WP : Type} (paths : WP → List String) (ws : List WP) (gens used : List String) :
    filter_wheres cgNew (cgVisit paths) cgUsed (some ws) gens used
      = .ok (ws.filter fun w => (usedOf gens (paths w)).all used.contains) := by
  unfold filter_wheres
  simp only [Option.map, Option.getD, cgNew, cgVisit, cgUsed, foldl_step, usedOf]
  simp only [List.contains_nil, Bool.not_false, List.nil_append]
  congr 2
  funext w
  have : ∀ l : List String, l.filter (fun _ => true) = l := by intro l; induction l <;> simp_all
  rw [this]

theorem filter_wheres_none {WP : Type} (paths : WP → List String) (gens used : List String) :
    filter_wheres cgNew (cgVisit paths) cgUsed (none : Option (List WP)) gens used = .ok [] := rfl

/-- the model's `filterWheres` is this function on the model's predicates, whose visited paths are `w.tys.flatMap occTy` -/
theorem filter_wheres_is_model (ws : List Sylvia.WherePred) (gens used : List String) :
    filter_wheres cgNew (cgVisit fun w : Sylvia.WherePred => w.tys.flatMap occTy) cgUsed (some ws) gens used = .ok (filterWheres gens used ws) := by
  rw [filter_wheres_eq]; rfl

/-- non-vacuity -/
example : ((CheckGenerics.new (fun g => some g) ["T", "U", "V"]).bind fun c =>
    (visitAll c ["Vec", "U", "x::T", "U", "T"]).bind (CheckGenerics.used_unused (fun g => some g))) = .ok (["U", "T"], ["V"]) := by decide

end GenericsFn
