import Sylvia.Extracted.CtxFns
/-!
# The context types handlers receive, on the regenerated code of `sylvia/src/ctx.rs` (C02, C07)

A generated dispatch arm hands its handler `Into::into(ctx)`, where `ctx` is the tuple the entry point built from `deps`, `env`
(and `info`; for replies also the gas used, the events and the message responses). `Extracted.CtxFns.*.from` are those conversions,
rewritten from the current source on every run. The theorems say that every component arrives in the field of its own name, unchanged,
for every value — the "context carrying the caller's storage, api, querier, environment and sender/funds unchanged" clause of C02 and
the "gas used / events / message responses in the context" clause of C07, at the level of the runtime library.
-/
namespace CtxFn
open RustSem Extracted.CtxFns

variable {Deps DepsMut Env MessageInfo Event MsgResponse : Type} (br : DepsMut → DepsMut)

theorem exec_from (d : DepsMut) (e : Env) (i : MessageInfo) :
    ExecCtx.from (Deps := Deps) (Event := Event) (MsgResponse := MsgResponse) br (d, e, i) = .ok { deps := d, env := e, info := i } := rfl

theorem instantiate_from (d : DepsMut) (e : Env) (i : MessageInfo) :
    InstantiateCtx.from (Deps := Deps) (Event := Event) (MsgResponse := MsgResponse) br (d, e, i) = .ok { deps := d, env := e, info := i } := rfl

theorem query_from (d : Deps) (e : Env) :
    QueryCtx.from (DepsMut := DepsMut) (MessageInfo := MessageInfo) (Event := Event) (MsgResponse := MsgResponse) br (d, e) = .ok { deps := d, env := e } := rfl

theorem sudo_from (d : DepsMut) (e : Env) :
    SudoCtx.from (Deps := Deps) (MessageInfo := MessageInfo) (Event := Event) (MsgResponse := MsgResponse) br (d, e) = .ok { deps := d, env := e } := rfl

theorem migrate_from (d : DepsMut) (e : Env) :
    MigrateCtx.from (Deps := Deps) (MessageInfo := MessageInfo) (Event := Event) (MsgResponse := MsgResponse) br (d, e) = .ok { deps := d, env := e } := rfl

/-- a reply handler's context: gas used, events and message responses in the fields of those names -/
theorem reply_from (d : DepsMut) (e : Env) (gas : Nat) (evs : List Event) (rs : List MsgResponse) :
    ReplyCtx.from (Deps := Deps) (MessageInfo := MessageInfo) br (d, e, gas, evs, rs)
      = .ok { deps := d, env := e, gas_used := gas, events := evs, msg_responses := rs } := rfl

/-- `branch` re-borrows the dependencies and copies environment and sender/funds -/
theorem exec_branch (c : ExecCtx Deps DepsMut Env MessageInfo Event MsgResponse) :
    ExecCtx.branch br c = .ok { deps := br c.deps, env := c.env, info := c.info } := rfl

end CtxFn
