import Sylvia.Lemmas.ValuePass
import Sylvia.Model.Gen
/-!
# C03 — the contract-level message accepts exactly the union of its parts and routes right

`Serde.wrapperDecode` models the hand-written `Deserialize` of `Contract{Exec,Query,Sudo}Msg`,
`Serde.decodeEnum false` the derive of a part. Parts = interfaces in declaration order, then the contract.

What is proved for **all** part lists, documents and values:
* `wrapper_accepts_encoded` — every message a part serialises is accepted by the wrapper, routed to that
  very part and variant, with the same field values (so it re-encodes to the same JSON);
* `wrapper_ok_sound` — whenever the wrapper accepts, the (normalised) document's single key is published by
  the chosen part, and that part's own decoder produced the value: it never reaches a different handler;
* `at_most_one` — two different parts never both accept one document;
* `unknown_lists_all` — an unknown single key yields the documented sentence followed by every list;
* the wrapper is a total function (no panic path): it is a Lean function, `unwrap`/`truncate` are modelled by
  the `[(k, _)]` pattern and `dropRight2`.
The unrestricted "accepts iff exactly one part accepts" is **false of the code** for three classes of
documents (duplicated member names, numbers the generic value cannot hold in ignored members, a nested
struct written as an array); they are recorded as known findings with replays, and the differential
stream of the check compares wrapper and parts on ~25 derived documents per message.
-/
namespace C03
open Sylvia Sylvia.Serde

/-- published routing list of every part = the names its variants carry on the wire -/
def ListsFaithful (ps : List PartSpec) : Prop :=
  ∀ p ∈ ps, ∀ k, k ∈ p.published ↔ k ∈ p.variants.map (·.wire)

/-- no name is published by two different parts (what C05's build-time check guarantees) -/
def ListsDisjoint (ps : List PartSpec) : Prop :=
  ∀ (i j : Nat) (pi pj : PartSpec), i ≠ j → ps[i]? = some pi → ps[j]? = some pj → ∀ k, k ∈ pi.published → k ∉ pj.published

theorem findPart_go_at : ∀ (ps : List PartSpec) (base i : Nat) (p : PartSpec) (k : String),
    ps[i]? = some p → k ∈ p.published → (∀ j q, j < i → ps[j]? = some q → k ∉ q.published) →
    findPart.go k base ps = some (base + i, p)
  | [], _, i, _, _, h, _, _ => by simp at h
  | x :: r, base, 0, p, k, h, hk, _ => by
    simp at h; subst h
    simp [findPart.go, List.contains_iff_mem, hk]
  | x :: r, base, i + 1, p, k, h, hk, hne => by
    have hx : x.published.contains k = false := by
      have := hne 0 x (by omega) (by simp)
      simpa [List.contains_iff_mem] using this
    simp only [findPart.go, hx, Bool.false_eq_true, if_false]
    have := findPart_go_at r (base + 1) i p k (by simpa using h) hk
      (fun j q hj hq => hne (j + 1) q (by omega) (by simpa using hq))
    rw [this]; congr 2; omega

theorem findPart_at (ps : List PartSpec) (i : Nat) (p : PartSpec) (k : String)
    (hp : ps[i]? = some p) (hk : k ∈ p.published) (hd : ListsDisjoint ps) : findPart ps k = some (i, p) := by
  unfold findPart
  have := findPart_go_at ps 0 i p k hp hk (fun j q hj hq hkq => hd i j p q (by omega) hp hq k hk hkq)
  simpa using this

theorem findPart_go_some : ∀ (ps : List PartSpec) (base n : Nat) (p : PartSpec) (k : String),
    findPart.go k base ps = some (n, p) → base ≤ n ∧ ps[n - base]? = some p ∧ k ∈ p.published
  | [], _, _, _, _, h => by simp [findPart.go] at h
  | x :: r, base, n, p, k, h => by
    simp only [findPart.go] at h
    split at h
    · rename_i hc
      cases h
      exact ⟨Nat.le_refl _, by simp, by simpa [List.contains_iff_mem] using hc⟩
    · obtain ⟨h1, h2, h3⟩ := findPart_go_some r (base + 1) n p k h
      refine ⟨by omega, ?_, h3⟩
      have : n - base = (n - (base + 1)) + 1 := by omega
      rw [this]; simpa using h2

theorem findPart_go_none : ∀ (ps : List PartSpec) (base : Nat) (k : String),
    (∀ p ∈ ps, k ∉ p.published) → findPart.go k base ps = none
  | [], _, _, _ => rfl
  | x :: r, base, k, h => by
    have hx : x.published.contains k = false := by
      simpa [List.contains_iff_mem] using h x (by simp)
    simp only [findPart.go, hx, Bool.false_eq_true, if_false]
    exact findPart_go_none r (base + 1) k (fun p hp => h p (by simp [hp]))

/-- **C03: at most one part accepts a document.** -/
theorem at_most_one (ps : List PartSpec) (hf : ListsFaithful ps) (hd : ListsDisjoint ps)
    (i j : Nat) (pi pj : PartSpec) (hi : ps[i]? = some pi) (hj : ps[j]? = some pj)
    (d : Json) (ri rj : Nat × List (String × Json))
    (hai : decodeEnum false pi.variants d = some ri) (haj : decodeEnum false pj.variants d = some rj) : i = j := by
  obtain ⟨k, body, hdk, hki⟩ := decodeEnum_key false _ d ri hai
  obtain ⟨k', body', hdk', hkj⟩ := decodeEnum_key false _ d rj haj
  rw [hdk] at hdk'
  have hkk : k = k' := by cases hdk'; rfl
  subst hkk
  by_cases hij : i = j
  · exact hij
  · exfalso
    have h1 := (hf pi (List.mem_of_getElem? hi) k).mpr hki
    have h2 := (hf pj (List.mem_of_getElem? hj) k).mpr hkj
    exact hd i j pi pj hij hi hj k h1 h2

/-- **C03: messages of every part pass through the wrapper unchanged and reach their own part.** -/
theorem wrapper_accepts_encoded (ps : List PartSpec) (hf : ListsFaithful ps) (hd : ListsDisjoint ps)
    (i : Nat) (p : PartSpec) (hp : ps[i]? = some p)
    (vi : Nat) (v : VariantSpec) (hv : p.variants[vi]? = some v) (hwires : (p.variants.map (·.wire)).Nodup)
    (cs : List Json) (hlen : v.fields.length = cs.length) (hnd : (v.fields.map (·.name)).Nodup)
    (hwf : ∀ f ∈ v.fields, WFTy f.ty)
    (hcan : ∀ q ∈ v.fields.zip cs, decodeVal false q.1.ty q.2 = some q.2) :
    wrapperDecode ps (encodeEnum p.variants vi (pairUp v.fields cs)) = .ok i vi (pairUp v.fields cs) := by
  have hbody : ∀ m ∈ pairUp v.fields cs, normalize m.2 = some m.2 := by
    intro m hm
    simp only [pairUp, List.mem_map] at hm
    obtain ⟨q, hq, rfl⟩ := hm
    exact normalize_canon q.1.ty q.2 q.2 (hwf q.1 (List.of_mem_zip hq).1) (hcan q hq)
  have hnorm : normalize (encodeEnum p.variants vi (pairUp v.fields cs)) =
      some (.obj [(v.wire, .obj (sortedOf (pairUp v.fields cs) []))]) := by
    unfold encodeEnum
    simp only [hv, Option.map_some, Option.getD_some]
    simp [normalize, normalizeMembers, normalizeMembers_canon _ _ hbody, insertSorted]
  have hk : v.wire ∈ p.published :=
    (hf p (List.mem_of_getElem? hp) v.wire).mpr (List.mem_map_of_mem (List.mem_of_getElem? hv))
  unfold wrapperDecode
  rw [hnorm]
  simp only [findPart_at ps i p v.wire hp hk hd]
  unfold decodeEnum
  simp only [findVariant_at p.variants vi v hv hwires, decodeFields_sorted v.fields cs hlen hnd hcan, Option.map_some]

/-- **C03: the wrapper never reaches a part that does not own the name.** Whenever it accepts, the chosen
part publishes the (single) key of the normalised document and its own decoder produced the value. -/
theorem wrapper_ok_sound (ps : List PartSpec) (d : Json) (i vi : Nat) (fs : List (String × Json))
    (h : wrapperDecode ps d = .ok i vi fs) :
    ∃ p k body, ps[i]? = some p ∧ normalize d = some (.obj [(k, body)]) ∧ k ∈ p.published ∧
      decodeEnum true p.variants (.obj [(k, body)]) = some (vi, fs) := by
  unfold wrapperDecode at h
  split at h
  · cases h
  · rename_i ms hn
    split at h
    · rename_i k body
      split at h
      · rename_i n p hfp
        split at h
        · rename_i v' fs' hde
          cases h
          obtain ⟨_, h2, h3⟩ := findPart_go_some ps 0 i p k hfp
          exact ⟨p, k, body, by simpa using h2, hn, h3, hde⟩
        · cases h
      · cases h
    · cases h
  · cases h

/-- **C03: unknown name.** A single key that no part publishes yields the documented sentence followed
by all published lists, in part order. -/
theorem unknown_lists_all (ps : List PartSpec) (d : Json) (k : String) (body : Json)
    (hn : normalize d = some (.obj [(k, body)])) (hk : ∀ p ∈ ps, k ∉ p.published) :
    wrapperDecode ps d = .errUnknown (unknownText ps (.obj [(k, body)])) := by
  unfold wrapperDecode
  rw [hn]
  have : findPart ps k = none := by unfold findPart; exact findPart_go_none ps 0 k hk
  simp [this]

/-- zero or several top-level keys, or a non-object, is an error and no handler is chosen -/
theorem not_single_key_rejected (ps : List PartSpec) (d : Json) :
    (∀ k body, normalize d ≠ some (.obj [(k, body)])) → ∀ i vi fs, wrapperDecode ps d ≠ .ok i vi fs := by
  intro hns i vi fs h
  obtain ⟨p, k, body, _, hn, _, _⟩ := wrapper_ok_sound ps d i vi fs h
  exact hns k body hn

end C03
