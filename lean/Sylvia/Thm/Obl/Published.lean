import Sylvia.Extracted.Tables
/-! Obligation: the published routing names are derived with serde's own renaming rule for variants
(recognised in the current source by the translator). -/
namespace Obl
theorem published_rule_is_wire_rule : Extracted.publishedRule = 1 := by decide
end Obl
