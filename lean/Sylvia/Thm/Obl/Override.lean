import Sylvia.Extracted.Tables
import Sylvia.Lemmas.Tables
namespace Obl
open Sylvia Extracted

/-- The override attribute's kind parser agrees with the documented kind vocabulary on every word. -/
theorem override_table_faithful : ∀ s, lookup overrideParse s = lookup msgTypeNew s :=
  lookup_eq_of_rowsIn (by decide) (by decide)

end Obl
