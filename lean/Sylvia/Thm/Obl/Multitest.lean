import Sylvia.Extracted.Tables
import Sylvia.Util.Bytes
import Sylvia.Model.Multitest
/-! Obligations tying the multitest model to the current source of `sylvia-derive/src/{contract,interface}/mt.rs`
and `sylvia/src/multitest.rs` (tables regenerated on every run). -/
namespace Obl
open Sylvia Extracted

/-- no call site unwraps a downcast of the chain's error, and `downcast_error` has the three-way form of `Mt.downcastError` -/
theorem mt_no_unwrapping_downcast : mtUnwrapSites = [] ∧ downcastErrorForm = true := by decide

/-- every proxy method builds its message with the like-named constructor (`new` for migrate) from its own parameters,
and hands it to the chain operation of its own kind: what `Mt.lower` does -/
theorem mt_proxy_ops : mtProxyOps =
    [(bytes! "contract/mt.rs", bytes! "exec", bytes! "#name", bytes! "exec-proxy"),
     (bytes! "contract/mt.rs", bytes! "query", bytes! "#name", bytes! "smart-query"),
     (bytes! "contract/mt.rs", bytes! "sudo", bytes! "#name", bytes! "wasm-sudo"),
     (bytes! "contract/mt.rs", bytes! "migrate", bytes! "new", bytes! "migrate-proxy"),
     (bytes! "interface/mt.rs", bytes! "exec", bytes! "#name", bytes! "exec-proxy"),
     (bytes! "interface/mt.rs", bytes! "query", bytes! "#name", bytes! "smart-query"),
     (bytes! "interface/mt.rs", bytes! "sudo", bytes! "#name", bytes! "wasm-sudo"),
     (bytes! "interface/mt.rs", bytes! "migrate", bytes! "new", bytes! "migrate-proxy")] := by decide

/-- the defaults of `CodeId::instantiate` are those of `Mt.InstOpts` -/
theorem mt_inst_defaults : mtInstDefaults =
    [(bytes! "funds", bytes! "&[]"), (bytes! "label", bytes! "\"Contract\""), (bytes! "admin", bytes! "None"), (bytes! "salt", bytes! "None")] ∧
    (({} : Mt.InstOpts).funds = 0 ∧ ({} : Mt.InstOpts).label = "Contract" ∧ ({} : Mt.InstOpts).admin = none ∧ ({} : Mt.InstOpts).salt = none) :=
  ⟨by decide, rfl, rfl, rfl, rfl⟩

/-- each setter replaces exactly its own field -/
theorem mt_inst_setters : mtInstSetters =
    [(bytes! "with_funds", bytes! "funds"), (bytes! "with_label", bytes! "label"), (bytes! "with_admin", bytes! "admin"), (bytes! "with_salt", bytes! "salt")] := by decide

/-- the call forms the model mirrors are the ones in the source -/
theorem mt_forms : ∀ f ∈ mtForms, f.2 = true := by decide

theorem mt_forms_all : mtForms.map Prod.fst =
    [bytes! "instantiate-call", bytes! "instantiate2-call", bytes! "ExecProxy::new", bytes! "ExecProxy::with_funds", bytes! "ExecProxy::call",
     bytes! "MigrateProxy::call", bytes! "default-dispatch", bytes! "override-dispatch"] := by decide

/-- `impl cw_multi_test::Contract`: each operation runs the override or the default dispatch of its own kind -/
theorem mt_contract_bodies : mtContractBodies =
    [(bytes! "execute", bytes! "exec"), (bytes! "instantiate", bytes! "instantiate"), (bytes! "query", bytes! "query"),
     (bytes! "sudo", bytes! "sudo"), (bytes! "reply", bytes! "reply"), (bytes! "migrate", bytes! "migrate")] := by decide

end Obl
