import Sylvia.Extracted.Tables
import Sylvia.Lemmas.Tables
import Sylvia.Util.Bytes
import Sylvia.Model.Strip
/-! One obligation over the regenerated tables per module, so that a changed table breaks only the checks that depend on it. -/
namespace Obl
open Sylvia Extracted

/-- `sv::msg` is itself recognised as a framework attribute (needed for idempotence of stripping) -/
theorem msg_is_framework : ∀ a, Strip.isMsgAttr a = true → Strip.isFramework a = true := by
  intro a h
  have hp : a.path = ["sv", "msg"] := by simpa [Strip.isMsgAttr] using h
  unfold Strip.isFramework
  rw [hp]
  decide

end Obl
