import Sylvia.Extracted.Tables
import Sylvia.Lemmas.Tables
import Sylvia.Util.Bytes
import Sylvia.Model.Strip
/-! One obligation over the regenerated tables per module, so that a changed table breaks only the checks that depend on it. -/
namespace Obl
open Sylvia Extracted

theorem replyOn_documented : replyOnNew =
    [(bytes! "success", .success), (bytes! "error", .error), (bytes! "always", .always)] := by decide

end Obl
