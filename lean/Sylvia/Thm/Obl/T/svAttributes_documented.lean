import Sylvia.Extracted.Tables
import Sylvia.Lemmas.Tables
import Sylvia.Util.Bytes
import Sylvia.Model.Strip
/-! One obligation over the regenerated tables per module, so that a changed table breaks only the checks that depend on it. -/
namespace Obl
open Sylvia Extracted

/-- the framework's own attributes (`sv::<name>`) -/
theorem svAttributes_documented : svAttributes = [bytes! "custom", bytes! "error", bytes! "messages", bytes! "msg",
    bytes! "override_entry_point", bytes! "attr", bytes! "msg_attr", bytes! "payload", bytes! "data", bytes! "features"] := by decide

end Obl
