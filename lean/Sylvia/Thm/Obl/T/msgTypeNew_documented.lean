import Sylvia.Extracted.Tables
import Sylvia.Lemmas.Tables
import Sylvia.Util.Bytes
import Sylvia.Model.Strip
/-! One obligation over the regenerated tables per module, so that a changed table breaks only the checks that depend on it. -/
namespace Obl
open Sylvia Extracted

/-- the documented vocabulary of `#[sv::msg(<kind>)]` -/
theorem msgTypeNew_documented : msgTypeNew =
    [(bytes! "exec", .exec), (bytes! "query", .query), (bytes! "instantiate", .instantiate),
     (bytes! "migrate", .migrate), (bytes! "reply", .reply), (bytes! "sudo", .sudo)] := by decide

end Obl
