import Sylvia.Extracted.Tables
import Sylvia.Lemmas.Tables
import Sylvia.Util.Bytes
import Sylvia.Model.Strip
/-! One obligation over the regenerated tables per module, so that a changed table breaks only the checks that depend on it. -/
namespace Obl
open Sylvia Extracted

theorem epName_documented : ∀ k ∈ Kind.all, lookup epName k = some (match k with
    | .exec => bytes! "execute" | .query => bytes! "query" | .instantiate => bytes! "instantiate"
    | .migrate => bytes! "migrate" | .reply => bytes! "reply" | .sudo => bytes! "sudo") := by decide

end Obl
