import Sylvia.Extracted.Tables
import Sylvia.Lemmas.Tables
import Sylvia.Util.Bytes
import Sylvia.Model.Strip
/-! One obligation over the regenerated tables per module, so that a changed table breaks only the checks that depend on it. -/
namespace Obl
open Sylvia Extracted

theorem result_and_leg : resultIsBinary.all (fun r => r.2 == (r.1 == .query)) = true ∧
    (∀ k ∈ Kind.all, lookup dispatchLeg k = some (match k with
      | .exec | .sudo => 0 | .query => 1 | _ => 2)) := by decide

end Obl
