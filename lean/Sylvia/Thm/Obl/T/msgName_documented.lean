import Sylvia.Extracted.Tables
import Sylvia.Lemmas.Tables
import Sylvia.Util.Bytes
import Sylvia.Model.Strip
/-! One obligation over the regenerated tables per module, so that a changed table breaks only the checks that depend on it. -/
namespace Obl
open Sylvia Extracted

theorem msgName_documented : ∀ k ∈ Kind.all, lookup msgName k = some (match k with
    | .exec => bytes! "ExecMsg" | .query => bytes! "QueryMsg" | .instantiate => bytes! "InstantiateMsg"
    | .migrate => bytes! "MigrateMsg" | .reply => bytes! "ReplyMsg" | .sudo => bytes! "SudoMsg") := by decide

end Obl
