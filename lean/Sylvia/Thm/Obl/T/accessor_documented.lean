import Sylvia.Extracted.Tables
import Sylvia.Lemmas.Tables
import Sylvia.Util.Bytes
import Sylvia.Model.Strip
/-! One obligation over the regenerated tables per module, so that a changed table breaks only the checks that depend on it. -/
namespace Obl
open Sylvia Extracted

theorem accessor_documented : ∀ k ∈ Kind.all,
    lookup accessorName k = some (match k with
      | .exec => bytes! "Exec" | .query => bytes! "Query" | .instantiate => bytes! "Instantiate"
      | .migrate => bytes! "Migrate" | .reply => bytes! "Reply" | .sudo => bytes! "Sudo") ∧
    lookup accessorWrapperName k = some (match k with
      | .exec => bytes! "ContractExec" | .query => bytes! "ContractQuery" | .sudo => bytes! "ContractSudo"
      | .instantiate => bytes! "Instantiate" | .migrate => bytes! "Migrate" | .reply => bytes! "Reply") := by decide

end Obl
