import Sylvia.Extracted.Tables
import Sylvia.Lemmas.Tables
import Sylvia.Util.Bytes
import Sylvia.Model.Strip
/-! One obligation over the regenerated tables per module, so that a changed table breaks only the checks that depend on it. -/
namespace Obl
open Sylvia Extracted

/-- context shape per kind: declared parameter names = values passed on = what the ctx tuple type lists -/
theorem ctx_tables_agree : ∀ k ∈ Kind.all,
    ((lookup ctxParams k).getD []).map Prod.fst = (lookup ctxValues k).getD [] ∧
    ((lookup ctxParams k).getD []).map Prod.snd = (lookup ctxType k).getD [] ∧
    (lookup ctxType k).getD [] =
      (match k with
       | .exec | .instantiate => [bytes! "DepsMut", bytes! "Env", bytes! "MessageInfo"]
       | .migrate | .reply | .sudo => [bytes! "DepsMut", bytes! "Env"]
       | .query => [bytes! "Deps", bytes! "Env"]) := by decide

end Obl
