import Sylvia.Extracted.Tables
import Sylvia.Lemmas.Tables
import Sylvia.Util.Bytes
import Sylvia.Model.Strip
/-! One obligation over the regenerated tables per module, so that a changed table breaks only the checks that depend on it. -/
namespace Obl
open Sylvia Extracted

theorem epDefaults_documented : epDefaults = [.instantiate, .exec, .query, .sudo] := by decide

end Obl
