import Sylvia.Extracted.Tables
import Sylvia.Lemmas.Tables
import Sylvia.Util.Bytes
import Sylvia.Model.Strip
/-! One obligation over the regenerated tables per module, so that a changed table breaks only the checks that depend on it. -/
namespace Obl
open Sylvia Extracted

theorem wrapperName_documented : ∀ k ∈ Kind.all, lookup wrapperName k = some (match k with
    | .exec => bytes! "ContractExecMsg" | .query => bytes! "ContractQueryMsg" | .sudo => bytes! "ContractSudoMsg"
    | .instantiate => bytes! "InstantiateMsg" | .migrate => bytes! "MigrateMsg" | .reply => bytes! "ReplyMsg") := by decide

end Obl
