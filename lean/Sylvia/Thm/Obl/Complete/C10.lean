import Sylvia.Extracted.Tables
/-! the translator found and classified everything the model of C10 reads from the sources -/
namespace Obl

theorem extraction_complete_C10 : Extracted.problems_C10 = [] := by decide

end Obl
