import Sylvia.Extracted.Tables
/-! the translator found and classified everything the model of C06 reads from the sources -/
namespace Obl

theorem extraction_complete_C06 : Extracted.problems_C06 = [] := by decide

end Obl
