import Sylvia.Extracted.Tables
/-! the translator found and classified everything the model of C03 reads from the sources -/
namespace Obl

theorem extraction_complete_C03 : Extracted.problems_C03 = [] := by decide

end Obl
