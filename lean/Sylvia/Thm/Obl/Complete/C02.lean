import Sylvia.Extracted.Tables
/-! the translator found and classified everything the model of C02 reads from the sources -/
namespace Obl

theorem extraction_complete_C02 : Extracted.problems_C02 = [] := by decide

end Obl
