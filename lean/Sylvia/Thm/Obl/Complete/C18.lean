import Sylvia.Extracted.Tables
/-! the translator found and classified everything the model of C18 reads from the sources -/
namespace Obl

theorem extraction_complete_C18 : Extracted.problems_C18 = [] := by decide

end Obl
