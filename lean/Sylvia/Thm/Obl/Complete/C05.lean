import Sylvia.Extracted.Tables
/-! the translator found and classified everything the model of C05 reads from the sources -/
namespace Obl

theorem extraction_complete_C05 : Extracted.problems_C05 = [] := by decide

end Obl
