import Sylvia.Extracted.Tables
/-! the translator found and classified everything the model of C14 reads from the sources -/
namespace Obl

theorem extraction_complete_C14 : Extracted.problems_C14 = [] := by decide

end Obl
