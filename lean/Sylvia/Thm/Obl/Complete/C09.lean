import Sylvia.Extracted.Tables
/-! the translator found and classified everything the model of C09 reads from the sources -/
namespace Obl

theorem extraction_complete_C09 : Extracted.problems_C09 = [] := by decide

end Obl
