import Sylvia.Extracted.Tables
/-! the translator found and classified everything the model of C01 reads from the sources -/
namespace Obl

theorem extraction_complete_C01 : Extracted.problems_C01 = [] := by decide

end Obl
