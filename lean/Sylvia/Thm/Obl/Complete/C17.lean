import Sylvia.Extracted.Tables
/-! the translator found and classified everything the model of C17 reads from the sources -/
namespace Obl

theorem extraction_complete_C17 : Extracted.problems_C17 = [] := by decide

end Obl
