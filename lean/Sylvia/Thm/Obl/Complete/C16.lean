import Sylvia.Extracted.Tables
/-! the translator found and classified everything the model of C16 reads from the sources -/
namespace Obl

theorem extraction_complete_C16 : Extracted.problems_C16 = [] := by decide

end Obl
