import Sylvia.Extracted.Tables
/-! the translator found and classified everything the model of C12 reads from the sources -/
namespace Obl

theorem extraction_complete_C12 : Extracted.problems_C12 = [] := by decide

end Obl
