import Sylvia.Extracted.Tables
/-! the translator found and classified everything the model of C13 reads from the sources -/
namespace Obl

theorem extraction_complete_C13 : Extracted.problems_C13 = [] := by decide

end Obl
