import Sylvia.Extracted.Tables
/-! the translator found and classified everything the model of C07 reads from the sources -/
namespace Obl

theorem extraction_complete_C07 : Extracted.problems_C07 = [] := by decide

end Obl
