import Sylvia.Extracted.Tables
/-! the translator found and classified everything the model of C04 reads from the sources -/
namespace Obl

theorem extraction_complete_C04 : Extracted.problems_C04 = [] := by decide

end Obl
