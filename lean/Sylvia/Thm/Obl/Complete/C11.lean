import Sylvia.Extracted.Tables
/-! the translator found and classified everything the model of C11 reads from the sources -/
namespace Obl

theorem extraction_complete_C11 : Extracted.problems_C11 = [] := by decide

end Obl
