import Sylvia.Extracted.Tables
/-! the translator found and classified everything the model of C15 reads from the sources -/
namespace Obl

theorem extraction_complete_C15 : Extracted.problems_C15 = [] := by decide

end Obl
