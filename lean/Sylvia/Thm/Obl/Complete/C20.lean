import Sylvia.Extracted.Tables
/-! the translator found and classified everything the model of C20 reads from the sources -/
namespace Obl

theorem extraction_complete_C20 : Extracted.problems_C20 = [] := by decide

end Obl
