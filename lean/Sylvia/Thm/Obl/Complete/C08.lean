import Sylvia.Extracted.Tables
/-! the translator found and classified everything the model of C08 reads from the sources -/
namespace Obl

theorem extraction_complete_C08 : Extracted.problems_C08 = [] := by decide

end Obl
