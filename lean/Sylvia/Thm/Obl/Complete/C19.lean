import Sylvia.Extracted.Tables
/-! the translator found and classified everything the model of C19 reads from the sources -/
namespace Obl

theorem extraction_complete_C19 : Extracted.problems_C19 = [] := by decide

end Obl
