import Sylvia.Extracted.Tables
import Sylvia.Util.Bytes
/-! The contract-level message's hand-written `Deserialize`, the order in which its parts are consulted and the
build-time overlap assertion have the source forms that `Serde.wrapperDecode`, `Gen.parts` and `Inter` model. -/
namespace Obl
open Sylvia Extracted

theorem wrapper_forms : wrapperForms =
    [(bytes! "deserialize", true), (bytes! "attempt-contract", true), (bytes! "parts-order", true), (bytes! "overlap-assert", true),
     (bytes! "attempt-interface", true)] := by decide

end Obl
