import Sylvia.Extracted.Tables
import Sylvia.Thm.C11
/-! Obligation: `IntoMsg::into_msg` has a converting arm for every non-custom kind of `CosmosMsg`. -/
namespace Obl
theorem convertible_complete : C11.Complete Extracted.convertible := by
  intro k hk
  cases k <;> first | exact absurd rfl hk | decide
end Obl
