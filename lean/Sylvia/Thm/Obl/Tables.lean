import Sylvia.Thm.Obl.T.msgTypeNew_documented
import Sylvia.Thm.Obl.T.epDefaults_documented
import Sylvia.Thm.Obl.T.replyOn_documented
import Sylvia.Thm.Obl.T.svAttributes_documented
import Sylvia.Thm.Obl.T.ctx_tables_agree
import Sylvia.Thm.Obl.T.epName_documented
import Sylvia.Thm.Obl.T.msgName_documented
import Sylvia.Thm.Obl.T.wrapperName_documented
import Sylvia.Thm.Obl.T.accessor_documented
import Sylvia.Thm.Obl.T.result_and_leg
import Sylvia.Thm.Obl.T.msg_is_framework
import Sylvia.Thm.Obl.T.msgAttrFwd_is_msgType
/-! Umbrella: the obligations over the regenerated tables live one per module under `Obl/T/`
(and `Obl/Complete/Cxx` for the per-property completeness of the extraction). -/
