import Sylvia.Extracted.Tables
import Sylvia.Lemmas.Tables
import Sylvia.Util.Bytes
import Sylvia.Model.Strip
/-! Obligations over the tables regenerated from /repo's current sources. Each is a closed decidable
statement; a source edit that changes a table makes the corresponding `decide` fail. -/
namespace Obl
open Sylvia Extracted

/-- the translator found and classified everything it looks for -/
theorem extraction_complete : Extracted.problems = [] := by decide

/-- the documented vocabulary of `#[sv::msg(<kind>)]` -/
theorem msgTypeNew_documented : msgTypeNew =
    [(bytes! "exec", .exec), (bytes! "query", .query), (bytes! "instantiate", .instantiate),
     (bytes! "migrate", .migrate), (bytes! "reply", .reply), (bytes! "sudo", .sudo)] := by decide

theorem epDefaults_documented : epDefaults = [.instantiate, .exec, .query, .sudo] := by decide

theorem replyOn_documented : replyOnNew =
    [(bytes! "success", .success), (bytes! "error", .error), (bytes! "always", .always)] := by decide

/-- the framework's own attributes (`sv::<name>`) -/
theorem svAttributes_documented : svAttributes = [bytes! "custom", bytes! "error", bytes! "messages", bytes! "msg",
    bytes! "override_entry_point", bytes! "attr", bytes! "msg_attr", bytes! "payload", bytes! "data", bytes! "features"] := by decide

/-- context shape per kind: declared parameter names = values passed on = what the ctx tuple type lists -/
theorem ctx_tables_agree : ∀ k ∈ Kind.all,
    ((lookup ctxParams k).getD []).map Prod.fst = (lookup ctxValues k).getD [] ∧
    ((lookup ctxParams k).getD []).map Prod.snd = (lookup ctxType k).getD [] ∧
    (lookup ctxType k).getD [] =
      (match k with
       | .exec | .instantiate => [bytes! "DepsMut", bytes! "Env", bytes! "MessageInfo"]
       | .migrate | .reply | .sudo => [bytes! "DepsMut", bytes! "Env"]
       | .query => [bytes! "Deps", bytes! "Env"]) := by decide

theorem epName_documented : ∀ k ∈ Kind.all, lookup epName k = some (match k with
    | .exec => bytes! "execute" | .query => bytes! "query" | .instantiate => bytes! "instantiate"
    | .migrate => bytes! "migrate" | .reply => bytes! "reply" | .sudo => bytes! "sudo") := by decide

theorem msgName_documented : ∀ k ∈ Kind.all, lookup msgName k = some (match k with
    | .exec => bytes! "ExecMsg" | .query => bytes! "QueryMsg" | .instantiate => bytes! "InstantiateMsg"
    | .migrate => bytes! "MigrateMsg" | .reply => bytes! "ReplyMsg" | .sudo => bytes! "SudoMsg") := by decide

theorem wrapperName_documented : ∀ k ∈ Kind.all, lookup wrapperName k = some (match k with
    | .exec => bytes! "ContractExecMsg" | .query => bytes! "ContractQueryMsg" | .sudo => bytes! "ContractSudoMsg"
    | .instantiate => bytes! "InstantiateMsg" | .migrate => bytes! "MigrateMsg" | .reply => bytes! "ReplyMsg") := by decide

theorem accessor_documented : ∀ k ∈ Kind.all,
    lookup accessorName k = some (match k with
      | .exec => bytes! "Exec" | .query => bytes! "Query" | .instantiate => bytes! "Instantiate"
      | .migrate => bytes! "Migrate" | .reply => bytes! "Reply" | .sudo => bytes! "Sudo") ∧
    lookup accessorWrapperName k = some (match k with
      | .exec => bytes! "ContractExec" | .query => bytes! "ContractQuery" | .sudo => bytes! "ContractSudo"
      | .instantiate => bytes! "Instantiate" | .migrate => bytes! "Migrate" | .reply => bytes! "Reply") := by decide

theorem result_and_leg : resultIsBinary.all (fun r => r.2 == (r.1 == .query)) = true ∧
    (∀ k ∈ Kind.all, lookup dispatchLeg k = some (match k with
      | .exec | .sudo => 0 | .query => 1 | _ => 2)) := by decide

/-- `sv::msg` is itself recognised as a framework attribute (needed for idempotence of stripping) -/
theorem msg_is_framework : ∀ a, Strip.isMsgAttr a = true → Strip.isFramework a = true := by
  intro a h
  have hp : a.path = ["sv", "msg"] := by simpa [Strip.isMsgAttr] using h
  unfold Strip.isFramework
  rw [hp]
  decide

theorem msgAttrFwd_is_msgType : ∀ s, lookup msgAttrFwdParse s = lookup msgTypeNew s :=
  lookup_eq_of_rowsIn (by decide) (by decide)

end Obl
