import Sylvia.Extracted.Tables
import Sylvia.Thm.C11Features
/-! Obligation: under every cargo feature set, every `CosmosMsg` variant that exists (except `Custom`) has a converting
arm of `IntoMsg::into_msg` compiled in (the arms' `cfg` attributes are re-read from the source on every run). -/
namespace Obl
theorem convertible_complete_under_all_features : ∀ F ∈ C11.featureSets, C11.CompleteUnder Extracted.convertibleCfg F :=
  C11.completeAllB_sound _ (by decide)
end Obl
