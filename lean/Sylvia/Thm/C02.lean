import Sylvia.Thm.C03
import Sylvia.Lemmas.Sort
import Sylvia.Model.Dispatch
/-!
# C02 — dispatch runs exactly the annotated handler with the sent arguments

`Dispatch.route` models "decode the document at the entry point of kind `k`, then `dispatch`": its result
is either a decoding error or **one** `Call` (handler id, kind, argument list, context) — the type itself
has no room for a second call. Handlers are not interpreted here: the theorems are about which call is
built, for every program and all argument values; what the caller gets back from that call
(`showOutcome`) is specified by `error_conversion` / definitional unfolding and compared with the real
generated code by the `disp` / `entry` streams (echo handlers, both outcomes).
-/
namespace C02
open Sylvia Sylvia.Gen Sylvia.Dispatch Sylvia.Serde

theorem map_eq_map_zip {α β γ : Type} (g : α → γ) (h : α × β → γ) : ∀ (as : List α) (bs : List β),
    as.length = bs.length → (∀ q ∈ as.zip bs, g q.1 = h q) → as.map g = (as.zip bs).map h
  | [], [], _, _ => rfl
  | a :: as, b :: bs, hl, hq => by
    simp only [List.map_cons, List.zip_cons_cons]
    rw [hq (a, b) (by simp), map_eq_map_zip g h as bs (by simpa using hl)
      (fun q hqm => hq q (by simp only [List.zip_cons_cons, List.mem_cons]; exact Or.inr hqm))]
  | [], _ :: _, hl, _ => by simp at hl
  | _ :: _, [], hl, _ => by simp at hl

/-- the positional call built by the arm passes every field value to the parameter of the same name -/
theorem bindArgs_pairUp (m : Method) (cs : List Json) (hlen : m.args.length = cs.length)
    (hnd : (m.args.map (·.name)).Nodup) :
    bindArgs m (pairUp (m.args.map fieldSpec) cs) = pairUp (m.args.map fieldSpec) cs := by
  have hlen' : (m.args.map fieldSpec).length = cs.length := by simpa using hlen
  have hnd' : ((m.args.map fieldSpec).map (·.name)).Nodup := by simpa [fieldSpec, Function.comp_def] using hnd
  have hget := get?_pairUp (m.args.map fieldSpec) cs hlen' hnd'
  unfold bindArgs
  rw [map_eq_map_zip _ (fun q : Arg × Json => (q.1.name, q.2)) m.args cs hlen]
  · simp [pairUp, List.zip_map_left, fieldSpec]
  · intro q hq
    have hq' : (fieldSpec q.1, q.2) ∈ (m.args.map fieldSpec).zip cs := by
      rw [List.zip_map_left]
      exact List.mem_map.mpr ⟨q, hq, rfl⟩
    have := hget _ hq'
    have hname : (fieldSpec q.1).name = q.1.name := rfl
    simp only [hname] at this
    simp [this]

theorem parts_variants (k : Kind) (p : Program) :
    (parts k p).map (·.variants) = (partMethods k p).map (·.map variantSpec) := by
  simp [parts, partMethods, variantSpecs, Function.comp_def]

theorem parts_getElem (k : Kind) (p : Program) (i : Nat) (ms : List Method) (h : (partMethods k p)[i]? = some ms) :
    ∃ ps, (parts k p)[i]? = some ps ∧ ps.variants = ms.map variantSpec := by
  have := congrArg (fun l => l[i]?) (parts_variants k p)
  simp only [List.getElem?_map, h, Option.map_some] at this
  cases hp : (parts k p)[i]? with
  | none => simp [hp] at this
  | some ps => exact ⟨ps, rfl, by simpa [hp] using this⟩

/-- **C02, enum kinds.** For every program, every part `i`, every handler `m` of kind `k` in it and all
canonical argument values: sending the message `m` serialises to reaches exactly `m` of part `i`, with
every value bound to the parameter of the same name and the caller's context unchanged. -/
theorem dispatch_exact (p : Program) (k : Kind) (hk : k = .exec ∨ k = .query ∨ k = .sudo)
    (hf : C03.ListsFaithful (parts k p)) (hd : C03.ListsDisjoint (parts k p))
    (i : Nat) (ms : List Method) (hms : (partMethods k p)[i]? = some ms)
    (vi : Nat) (m : Method) (hm : ms[vi]? = some m)
    (hwires : ((ms.map variantSpec).map (·.wire)).Nodup)
    (hargs : (m.args.map (·.name)).Nodup) (hwf : ∀ a ∈ m.args, WFTy (fieldSpec a).ty)
    (cs : List Json) (hlen : m.args.length = cs.length)
    (hcan : ∀ q ∈ (m.args.map fieldSpec).zip cs, decodeVal false q.1.ty q.2 = some q.2)
    (c : CtxIn) :
    route p k (encodeEnum (ms.map variantSpec) vi (pairUp (m.args.map fieldSpec) cs)) c =
      .ran { handler := partId p k i ++ "." ++ Casing.toString m.name, kind := k,
             args := pairUp (m.args.map fieldSpec) cs, ctx := c } m i := by
  obtain ⟨ps, hps, hvar⟩ := parts_getElem k p i ms hms
  have hv : ps.variants[vi]? = some (variantSpec m) := by rw [hvar]; simp [hm]
  have hw := C03.wrapper_accepts_encoded (parts k p) hf hd i ps hps vi (variantSpec m) hv
    (by rw [hvar]; exact hwires) cs (by simpa [variantSpec] using hlen)
    (by simpa [variantSpec, fieldSpec, Function.comp_def] using hargs)
    (by
      intro f hfm
      simp only [variantSpec, List.mem_map] at hfm
      obtain ⟨a, ha, rfl⟩ := hfm
      exact hwf a ha)
    (by simpa [variantSpec] using hcan)
  rw [hvar] at hw
  have hfields : (variantSpec m).fields = m.args.map fieldSpec := rfl
  rw [hfields] at hw
  have hcall : callOfWrapped p k i vi (pairUp (m.args.map fieldSpec) cs) c =
      some ({ handler := partId p k i ++ "." ++ Casing.toString m.name, kind := k,
              args := pairUp (m.args.map fieldSpec) cs, ctx := c }, m) := by
    unfold callOfWrapped
    simp only [hms, hm, bindArgs_pairUp m cs hlen hargs]
  rcases hk with rfl | rfl | rfl
  · show (match wrapperDecode (parts .exec p) _ with | .ok i v fs => _ | r => _) = _
    rw [hw]; simp only [hcall]
  · show (match wrapperDecode (parts .query p) _ with | .ok i v fs => _ | r => _) = _
    rw [hw]; simp only [hcall]
  · show (match wrapperDecode (parts .sudo p) _ with | .ok i v fs => _ | r => _) = _
    rw [hw]; simp only [hcall]

/-- **C02, struct kinds.** instantiate / migrate: the flat object reaches the single handler of that kind. -/
theorem dispatch_exact_struct (p : Program) (k : Kind) (hk : k = .instantiate ∨ k = .migrate)
    (m : Method) (rest : List Method) (hv : variantsOf k p.contract.methods = m :: rest)
    (hargs : (m.args.map (·.name)).Nodup)
    (cs : List Json) (hlen : m.args.length = cs.length)
    (hcan : ∀ q ∈ (m.args.map fieldSpec).zip cs, decodeVal false q.1.ty q.2 = some q.2)
    (c : CtxIn) :
    route p k (.obj (pairUp (m.args.map fieldSpec) cs)) c =
      .ran { handler := "ct." ++ Casing.toString m.name, kind := k,
             args := pairUp (m.args.map fieldSpec) cs, ctx := c } m p.contract.ifaces.length := by
  have hdec : decodeStruct false (m.args.map fieldSpec) (.obj (pairUp (m.args.map fieldSpec) cs)) =
      some (pairUp (m.args.map fieldSpec) cs) := by
    unfold decodeStruct
    exact decodeFields_pairUp false _ cs (by simpa using hlen)
      (by simpa [fieldSpec, Function.comp_def] using hargs) hcan
  unfold route
  rcases hk with rfl | rfl <;> simp only [hv, hdec, bindArgs_pairUp m cs hlen hargs]

/-- **Outcome: error conversion.** A failing handler's error reaches the caller converted into the contract's
declared error type: untouched when the contract declares none (StdError) or the handler already returns
the contract's type, wrapped through `From<StdError>` when the handler returns `StdError`. -/
theorem error_conversion (hid : String) :
    failText false .std hid = "Generic error: fail:" ++ hid ∧
    failText true .std hid = "CE::Std(Generic error: fail:" ++ hid ++ ")" ∧
    failText true .contract hid = "CE::Custom(fail:" ++ hid ++ ")" ∧
    failText true .self hid = "CE::Custom(fail:" ++ hid ++ ")" :=
  ⟨rfl, rfl, rfl, rfl⟩

/-- the published lists of a generated program are its wire names, provided the source derives them with
serde's rule (obligation `Obl.published_rule_is_wire_rule`) -/
theorem parts_faithful (k : Kind) (p : Program) (h : Extracted.publishedRule = 1) : C03.ListsFaithful (parts k p) := by
  intro ps hps key
  have hpub : ∀ m : Method, publishedName m = wireName m := by
    intro m; unfold publishedName wireName; rw [h]; rfl
  simp only [parts, List.mem_append, List.mem_map, List.mem_singleton] at hps
  rcases hps with ⟨r, _, rfl⟩ | rfl <;>
    simp [nameList, mem_sortStrings, variantSpecs, variantSpec, hpub, Function.comp_def]

end C02
