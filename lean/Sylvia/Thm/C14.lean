import Sylvia.Lemmas.Sort
import Sylvia.Lemmas.Reply
import Sylvia.Lemmas.SerdeRoundTrip
import Sylvia.Model.EntryPoints
import Sylvia.Model.Validate
/-!
# C14 — behaviour does not depend on the order of declarations

`l.Perm l'` = "`l'` is a reordering of `l`". The theorems say which observable artefacts of the model are
invariant under reordering handler methods, override attributes and the methods merged into one reply
entry. (Numeric reply ids and the order of type parameters of generic message types are positional and
excluded by the property / recorded in DESIGN.)
-/
namespace C14
open Sylvia Sylvia.Gen Sylvia.Reply Sylvia.Serde

theorem variantsOf_perm (k : Kind) {ms ms' : List Method} (h : ms.Perm ms') : (variantsOf k ms).Perm (variantsOf k ms') :=
  h.filter _

/-- **routing lists** are identical -/
theorem nameList_perm (k : Kind) {ms ms' : List Method} (h : ms.Perm ms') : nameList k ms = nameList k ms' :=
  sortStrings_perm_eq ((variantsOf_perm k h).map _)

/-- **wire format**: the same set of message names with the same fields -/
theorem variantSpecs_perm (k : Kind) {ms ms' : List Method} (h : ms.Perm ms') :
    ((variantSpecs k ms).map fun v => (v.wire, v.fields.map (·.name))).Perm ((variantSpecs k ms').map fun v => (v.wire, v.fields.map (·.name))) := by
  unfold variantSpecs
  exact ((variantsOf_perm k h).map _).map _

theorem findVariant_mem {vs : List VariantSpec} {k : String} {i : Nat} {v : VariantSpec} (h : findVariant vs k = some (i, v)) :
    v ∈ vs ∧ v.wire = k := by
  obtain ⟨_, h2, h3⟩ := findVariant_go_some vs 0 i v k h
  exact ⟨List.mem_of_getElem? h2, h3⟩

/-- **dispatch targets**: with distinct wire names a message name selects the same variant whatever the order -/
theorem dispatch_target_perm {vs vs' : List VariantSpec} (hp : vs.Perm vs') (hnd : (vs.map (·.wire)).Nodup)
    (k : String) (i : Nat) (v : VariantSpec) (h : findVariant vs k = some (i, v)) :
    ∃ j, findVariant vs' k = some (j, v) := by
  obtain ⟨hv, hw⟩ := findVariant_mem h
  have hv' : v ∈ vs' := hp.mem_iff.mp hv
  obtain ⟨j, hj, hget⟩ := List.getElem_of_mem hv'
  have hnd' : (vs'.map (·.wire)).Nodup := (hp.map _).nodup_iff.mp hnd
  have := findVariant_at vs' j v (by rw [List.getElem?_eq_getElem hj, hget]) hnd'
  rw [hw] at this
  exact ⟨j, this⟩

theorem hasHandler_perm (c c' : Contract) (k : Kind) (h : c.methods.Perm c'.methods) : hasHandler c k = hasHandler c' k := by
  unfold hasHandler
  cases h1 : c.methods.any (fun m => m.kind? == some k) <;> cases h2 : c'.methods.any (fun m => m.kind? == some k) <;> try rfl
  · rw [List.any_eq_false] at h1; rw [List.any_eq_true] at h2
    obtain ⟨m, hm, hk⟩ := h2
    exact absurd hk (h1 m (h.mem_iff.mpr hm))
  · rw [List.any_eq_true] at h1; rw [List.any_eq_false] at h2
    obtain ⟨m, hm, hk⟩ := h1
    exact absurd hk (h2 m (h.mem_iff.mp hm))

theorem contains_perm {l l' : List Kind} (h : l.Perm l') (k : Kind) : l.contains k = l'.contains k := by
  cases h1 : l.contains k <;> cases h2 : l'.contains k <;> try rfl
  · simp only [List.contains_iff_mem] at h2
    have : k ∈ l := h.mem_iff.mpr h2
    simp [List.contains_iff_mem, this] at h1
  · simp only [List.contains_iff_mem] at h1
    have : k ∈ l' := h.mem_iff.mp h1
    simp [List.contains_iff_mem, this] at h2

/-- **set of entry points**: unchanged by reordering the handler methods and the override attributes -/
theorem entryPoints_perm (c c' : Contract) (hm : c.methods.Perm c'.methods) (ho : c.overrides.Perm c'.overrides) :
    entryPoints c = entryPoints c' := by
  have hov : (overriddenKinds c).Perm (overriddenKinds c') := ho.filterMap _
  unfold entryPoints
  rw [hasHandler_perm c c' .migrate hm, hasHandler_perm c c' .reply hm,
    contains_perm hov .migrate, contains_perm hov .reply]
  congr 2
  apply List.filter_congr
  intro k _
  rw [contains_perm hov k]

theorem any_perm {α : Type} {l l' : List α} (h : l.Perm l') (p : α → Bool) : l.any p = l'.any p := by
  cases h1 : l.any p <;> cases h2 : l'.any p <;> try rfl
  · rw [List.any_eq_false] at h1; rw [List.any_eq_true] at h2
    obtain ⟨x, hx, hp⟩ := h2
    exact absurd hp (h1 x (h.mem_iff.mpr hx))
  · rw [List.any_eq_true] at h1; rw [List.any_eq_false] at h2
    obtain ⟨x, hx, hp⟩ := h1
    exact absurd hp (h2 x (h.mem_iff.mp hx))

/-- **reply trigger** of an entry does not depend on the order in which its methods were merged -/
theorem trigger_perm (e e' : Entry) (h : e.handlers.Perm e'.handlers) : cwReplyOn e = cwReplyOn e' := by
  unfold cwReplyOn
  rw [any_perm h, any_perm h, any_perm h]

theorem compatible_perm {hs hs' : List (Name × ReplyOn)} (h : hs.Perm hs') (hc : Compatible hs) : Compatible hs' := by
  unfold Compatible at *
  exact h.pairwise hc (fun hab => by rw [excludes_symm]; exact hab)

/-- **reply routing** does not depend on that order either: the method found for a success (resp. failure) is the
one *declared* for it, wherever it sits in the entry -/
theorem reply_routing_perm {hs hs' : List (Name × ReplyOn)} (h : hs.Perm hs') (hc : Compatible hs) :
    hs.find? (fun p => p.2 == .success || p.2 == .always) = hs'.find? (fun p => p.2 == .success || p.2 == .always) ∧
    hs.find? (fun p => p.2 == .error || p.2 == .always) = hs'.find? (fun p => p.2 == .error || p.2 == .always) := by
  have hc' := compatible_perm h hc
  have key : ∀ (o : ReplyOn), (o = .success ∨ o = .error) →
      hs.find? (fun p => p.2 == o || p.2 == .always) = hs'.find? (fun p => p.2 == o || p.2 == .always) := by
    intro o ho
    by_cases hA : ∃ fn, (fn, ReplyOn.always) ∈ hs
    · obtain ⟨fn, hfn⟩ := hA
      have e1 := always_alone hc hfn
      have e2 := always_alone hc' (h.mem_iff.mp hfn)
      rw [e1, e2]
    · by_cases hO : ∃ fn, (fn, o) ∈ hs
      · obtain ⟨fn, hfn⟩ := hO
        rcases ho with rfl | rfl
        · rw [find_success hc hfn, find_success hc' (h.mem_iff.mp hfn)]
        · rw [find_error hc hfn, find_error hc' (h.mem_iff.mp hfn)]
      · have n1 : ∀ fn, (fn, o) ∉ hs := fun fn hm => hO ⟨fn, hm⟩
        have n2 : ∀ fn, (fn, ReplyOn.always) ∉ hs := fun fn hm => hA ⟨fn, hm⟩
        rw [find_none_of_absent o n1 n2,
          find_none_of_absent o (fun fn hm => n1 fn (h.mem_iff.mpr hm)) (fun fn hm => n2 fn (h.mem_iff.mpr hm))]
  exact ⟨key .success (Or.inl rfl), key .error (Or.inr rfl)⟩

/-- **acceptance** (structural rules): the counts the validations look at are order-independent -/
theorem countKind_perm (k : Kind) {ms ms' : List Method} (h : ms.Perm ms') : Validate.countKind k ms = Validate.countKind k ms' :=
  (variantsOf_perm k h).length_eq

end C14
