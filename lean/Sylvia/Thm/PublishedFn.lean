import Sylvia.Extracted.CasingFns
import Sylvia.Model.Casing
/-!
# The rule behind the published name lists, on the regenerated code

`Extracted.CasingFns.serde_snake_case` is written by the function translator from `sylvia-derive/src/types/msg_variant.rs`
on every run. It computes exactly serde's `rename_all = "snake_case"` rule for variants (`Casing.serdeSnake`, the function the
theorems of C01 / C03 / C05 are about), and never panics. Strings are lists over the identifier alphabet `Casing.Ch`
(one byte per character, so `char_indices` offsets are positions).
-/
namespace PublishedFn
open RustSem Casing Extracted.CasingFns

theorem loop_eq : ∀ (xs : List Ch) (k : Nat) (acc : List Ch),
    serde_snake_case.loop0 (charIndicesFrom k xs) acc = .ok (.done (acc ++ serdeGo (k == 0) xs))
  | [], k, acc => by simp [charIndicesFrom, serde_snake_case.loop0, serdeGo]
  | c :: t, k, acc => by
    rw [charIndicesFrom, serde_snake_case.loop0]
    cases k with
    | zero =>
      simp only [Nat.lt_irrefl, decide_false, Bool.false_and, Bool.false_eq_true, if_false]
      rw [loop_eq t 1 _]
      simp [serdeGo]
    | succ n =>
      have hk : (n + 1 == 0) = false := by simp
      by_cases hu : isUpper c = true
      · simp only [Nat.zero_lt_succ, decide_true, Bool.true_and, hu, if_true]
        rw [loop_eq t (n + 1 + 1) _]
        simp [serdeGo, hk, hu]
      · have hu' : isUpper c = false := by simpa using hu
        simp only [Nat.zero_lt_succ, decide_true, Bool.true_and, hu', Bool.false_eq_true, if_false]
        rw [loop_eq t (n + 1 + 1) _]
        simp [serdeGo, hk, hu']

/-- **the regenerated `serde_snake_case` is serde's variant rule**, for every string over the identifier alphabet -/
theorem serde_snake_case_eq (v : List Ch) : serde_snake_case v = .ok (serdeSnake v) := by
  simp [serde_snake_case, charIndices, loop_eq v 0 [], serdeSnake]

/-- non-vacuity / sanity: `Transfer2X` ↦ `transfer2_x` -/
example : serde_snake_case [Ch.upper 19, Ch.lower 17, Ch.digit 2, Ch.upper 23] = .ok [Ch.lower 19, Ch.lower 17, Ch.digit 2, Ch.us, Ch.lower 23] := by
  decide +kernel

end PublishedFn
