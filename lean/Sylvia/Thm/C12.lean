import Sylvia.Model.Multitest
import Sylvia.Thm.C02
import Sylvia.Thm.C05Gen
/-!
# C12 — multitest proxies are equivalent to sending the raw JSON message
-/
namespace C12
open Sylvia Sylvia.Mt Sylvia.Gen Sylvia.Dispatch Sylvia.Serde

/-- well-formed programs: what the macros and the compiler enforce (C05: disjoint routing lists; distinct wire
names per message type; distinct parameter names; argument types of the modelled universe) -/
structure ProgWF (p : Program) : Prop where
  disjoint : ∀ k, C03.ListsDisjoint (parts k p)
  wires : ∀ k ms, ms ∈ partMethods k p → ((ms.map variantSpec).map (·.wire)).Nodup
  args : ∀ k ms m, ms ∈ partMethods k p → m ∈ ms → (m.args.map (·.name)).Nodup ∧ ∀ a ∈ m.args, WFTy (fieldSpec a).ty

theorem decodeAll_spec : ∀ (fs : List FieldSpec) (vs cs : List Json), decodeAll fs vs = some cs →
    fs.length = cs.length ∧ ∀ q ∈ fs.zip cs, decodeVal false q.1.ty q.2 = some q.2
  | [], [], cs, h => by
    simp [decodeAll] at h; subst h; simp
  | [], _ :: _, _, h => by simp [decodeAll] at h
  | _ :: _, [], _, h => by simp [decodeAll] at h
  | f :: fs, v :: vs, cs, h => by
    unfold decodeAll at h
    cases hd : decodeVal false f.ty v with
    | none => simp [hd] at h
    | some c =>
      cases hr : decodeAll fs vs with
      | none => simp [hd, hr] at h
      | some cs' =>
        simp [hd, hr] at h
        subst h
        obtain ⟨hl, hq⟩ := decodeAll_spec fs vs cs' hr
        refine ⟨by simp [hl], ?_⟩
        intro q hqm
        simp only [List.zip_cons_cons, List.mem_cons] at hqm
        rcases hqm with rfl | hqm
        · exact decodeVal_idem false false f.ty v c hd
        · exact hq q hqm

theorem findMethod_spec (p : Program) (k : Kind) (part : Nat) (name : String) (ms : List Method) (vi : Nat) (m : Method)
    (h : findMethod p k part name = some (ms, vi, m)) : (partMethods k p)[part]? = some ms ∧ ms[vi]? = some m := by
  unfold findMethod at h
  cases hp : (partMethods k p)[part]? with
  | none => simp [hp] at h
  | some ms' =>
    simp only [hp] at h
    cases hi : ms'.findIdx? (fun m => Casing.toString m.name == name) with
    | none => simp [hi] at h
    | some vi' =>
      simp only [hi] at h
      cases hm : ms'[vi']? with
      | none => simp [hm] at h
      | some m' =>
        simp [hm] at h
        obtain ⟨rfl, rfl, rfl⟩ := h
        exact ⟨rfl, hm⟩

theorem mem_of_getElem? {α : Type} {l : List α} {i : Nat} {a : α} (h : l[i]? = some a) : a ∈ l :=
  List.mem_of_getElem? h

/-- **the message a proxy submits is decoded and routed to the handler the proxy method is named after**, with
the same values: the contract side of the raw operation coincides with the specification of the proxy call -/
theorem lower_outcome (p : Program) (wf : ProgWF p) (op : ProxyOp) (raw : RawOp) (h : lower p op = some raw) :
    rawOutcome p raw = specOutcome p op := by
  unfold lower at h
  cases hb : lowerBody p op with
  | none => simp [hb] at h
  | some b =>
    simp [hb] at h
    subst h
    have enumCase : ∀ (k : Kind) (hk : k = .exec ∨ k = .query ∨ k = .sudo) (r : MsgRef) (c : CtxIn) (b : Json),
        (match findMethod p k r.part r.method with
          | some (ms, vi, m) => (typedArgs m r.args).map fun vs => encodeEnum (ms.map variantSpec) vi (pairUp (m.args.map fieldSpec) vs)
          | none => none) = some b →
        route p k b c =
          (match findMethod p k r.part r.method with
            | some (_, _, m) =>
              match typedArgs m r.args with
              | some vs => Outcome.ran { handler := partId p k r.part ++ "." ++ Casing.toString m.name, kind := k, args := pairUp (m.args.map fieldSpec) vs, ctx := c } m r.part
              | none => .decodeErr "bad-args"
            | none => .decodeErr "bad-op") := by
      intro k hk r c b hb
      cases hf : findMethod p k r.part r.method with
      | none => simp [hf] at hb
      | some t =>
        obtain ⟨ms, vi, m⟩ := t
        simp only [hf] at hb ⊢
        cases ht : typedArgs m r.args with
        | none => simp [ht] at hb
        | some vs =>
          simp [ht] at hb
          subst hb
          obtain ⟨hms, hm⟩ := findMethod_spec p k r.part r.method ms vi m hf
          obtain ⟨hl, hc⟩ := decodeAll_spec _ _ _ ht
          have hmem : ms ∈ partMethods k p := mem_of_getElem? hms
          have hmm : m ∈ ms := mem_of_getElem? hm
          obtain ⟨hargs, hwf⟩ := wf.args k ms m hmem hmm
          exact C02.dispatch_exact p k hk (C05.parts_faithful_closed k p) (wf.disjoint k) r.part ms hms vi m hm
            (wf.wires k ms hmem) hargs hwf vs (by simpa using hl) hc c
    have structCase : ∀ (k : Kind) (hk : k = .instantiate ∨ k = .migrate) (args : List Json) (c : CtxIn) (b : Json),
        (match structMethod p k with
          | some m => (typedArgs m args).map fun vs => Json.obj (pairUp (m.args.map fieldSpec) vs)
          | none => none) = some b →
        route p k b c =
          (match structMethod p k with
            | some m =>
              match typedArgs m args with
              | some vs => Outcome.ran { handler := "ct." ++ Casing.toString m.name, kind := k, args := pairUp (m.args.map fieldSpec) vs, ctx := c } m p.contract.ifaces.length
              | none => .decodeErr "bad-args"
            | none => .decodeErr "bad-op") := by
      intro k hk args c b hb
      cases hs : structMethod p k with
      | none => simp [hs] at hb
      | some m =>
        simp only [hs] at hb ⊢
        cases ht : typedArgs m args with
        | none => simp [ht] at hb
        | some vs =>
          simp [ht] at hb
          subst hb
          unfold structMethod at hs
          cases hv : variantsOf k p.contract.methods with
          | nil => simp [hv] at hs
          | cons m' rest =>
            simp [hv] at hs
            subst hs
            obtain ⟨hl, hc⟩ := decodeAll_spec _ _ _ ht
            have hmem : variantsOf k p.contract.methods ∈ partMethods k p := by simp [partMethods]
            obtain ⟨hargs, _⟩ := wf.args k _ m' hmem (by simp [hv])
            exact C02.dispatch_exact_struct p k hk m' rest hv hargs vs (by simpa using hl) hc c
    cases op with
    | store => simp [rawOutcome, specOutcome, ProxyOp.shape, Shape.kind]
    | setfail s m => simp [rawOutcome, specOutcome, ProxyOp.shape, Shape.kind]
    | exec slot sender funds r =>
      simp only [lowerBody, ProxyOp.shape, Shape.kind, Option.getD_some] at hb
      simp only [rawOutcome, specOutcome, ProxyOp.shape, Shape.kind, Option.getD_some]
      exact enumCase .exec (Or.inl rfl) r _ b hb
    | query slot r =>
      simp only [lowerBody, ProxyOp.shape, Shape.kind, Option.getD_some] at hb
      simp only [rawOutcome, specOutcome, ProxyOp.shape, Shape.kind, Option.getD_some]
      exact enumCase .query (Or.inr (Or.inl rfl)) r _ b hb
    | sudo slot r =>
      simp only [lowerBody, ProxyOp.shape, Shape.kind, Option.getD_some] at hb
      simp only [rawOutcome, specOutcome, ProxyOp.shape, Shape.kind, Option.getD_some]
      exact enumCase .sudo (Or.inr (Or.inr rfl)) r _ b hb
    | inst code sender ss args =>
      simp only [lowerBody, ProxyOp.shape, Shape.kind, Option.getD_some] at hb
      simp only [rawOutcome, specOutcome, ProxyOp.shape, Shape.kind, Option.getD_some]
      exact structCase .instantiate (Or.inl rfl) args _ b hb
    | mig slot sender nc args =>
      simp only [lowerBody, ProxyOp.shape, Shape.kind, Option.getD_some] at hb
      simp only [rawOutcome, specOutcome, ProxyOp.shape, Shape.kind, Option.getD_some]
      exact structCase .migrate (Or.inr rfl) args _ b hb

/-- **one step**: the proxy call has the same effect on the chain and the same result as the raw operation it lowers to -/
theorem step_equiv (p : Program) (wf : ProgWF p) (ch : Chain) (op : ProxyOp) (raw : RawOp) (h : lower p op = some raw) :
    proxyStep p ch op = rawStep p ch raw := by
  have hs : raw.shape = op.shape := by
    unfold lower at h
    cases hb : lowerBody p op with
    | none => simp [hb] at h
    | some b => simp [hb] at h; subst h; rfl
  unfold proxyStep rawStep
  rw [lower_outcome p wf op raw h, hs]

/-- lowering of a whole history (defined when every step names an existing handler with well-typed arguments) -/
def lowerAll (p : Program) : List ProxyOp → Option (List RawOp)
  | [] => some []
  | op :: rest =>
    match lower p op, lowerAll p rest with
    | some r, some rs => some (r :: rs)
    | _, _ => none

/-- **histories**: for every well-formed program, every starting chain and every history of proxy calls, the
chain ends in the same state as after the lowered raw-JSON history and every step returned the same result -/
theorem history_equiv (p : Program) (wf : ProgWF p) : ∀ (ops : List ProxyOp) (raws : List RawOp) (ch : Chain),
    lowerAll p ops = some raws → runProxy p ch ops = runRaw p ch raws
  | [], raws, ch, h => by
    simp [lowerAll] at h; subst h; simp [runProxy, runRaw]
  | op :: ops, raws, ch, h => by
    unfold lowerAll at h
    cases hl : lower p op with
    | none => simp [hl] at h
    | some r =>
      cases hr : lowerAll p ops with
      | none => simp [hl, hr] at h
      | some rs =>
        simp [hl, hr] at h
        subst h
        have hstep := step_equiv p wf ch op r hl
        have ih := history_equiv p wf ops rs (rawStep p ch r).1 hr
        simp only [runProxy, runRaw, hstep, ih]

/-- a failing step leaves the chain as it was (what makes "same effect" checkable step by step), except that a
failed instantiation still consumes a slot of the history -/
theorem failed_step_keeps_state (p : Program) (ch : Chain) (s : Shape) (o : Outcome) (t : String)
    (h : (stepWith p ch s o).2 = .handlerErr t) :
    (stepWith p ch s o).1 = ch ∨ (stepWith p ch s o).1 = { ch with slots := ch.slots ++ [none] } := by
  cases s <;> simp only [stepWith] at h ⊢ <;> (repeat' (split at h)) <;> simp_all <;>
    first | (left; (repeat' split) <;> rfl) | (right; (repeat' split) <;> rfl)

/-- **an error returned by a handler surfaces as that value** of the contract's error type, through every proxy;
a `StdError` goes through `From`, any other refusal of the chain becomes a generic `StdError` — never a panic -/
theorem handler_error_surfaces (t : String) :
    (Res.handlerErr t).errDyn = some .own ∧ downcastError .own = .asIs ∧ downcastError .std = .viaFromStd ∧ downcastError .other = .genericStd :=
  ⟨rfl, rfl, rfl, rfl⟩

-- ------------------------------------------------------------------------------------------------
-- options of the instantiate proxy
-- ------------------------------------------------------------------------------------------------

/-- defaults: no funds, label `Contract`, no admin, plain (unsalted) instantiation -/
theorem inst_defaults : optsOf [] = { funds := 0, label := "Contract", admin := none, salt := none } := rfl

theorem inst_last_writer_wins (o : InstOpts) :
    (∀ s t, (o.set (.label s)).set (.label t) = o.set (.label t)) ∧ (∀ s t, (o.set (.admin s)).set (.admin t) = o.set (.admin t)) ∧
    (∀ s t, (o.set (.funds s)).set (.funds t) = o.set (.funds t)) ∧ (∀ s t, (o.set (.salt s)).set (.salt t) = o.set (.salt t)) :=
  ⟨fun _ _ => rfl, fun _ _ => rfl, fun _ _ => rfl, fun _ _ => rfl⟩

def _root_.Sylvia.Mt.MtSetter.field : MtSetter → Nat
  | .label _ => 0 | .admin _ => 1 | .funds _ => 2 | .salt _ => 3

theorem inst_setters_commute (o : InstOpts) (a b : MtSetter) (h : a.field ≠ b.field) : (o.set a).set b = (o.set b).set a := by
  cases a <;> cases b <;> simp_all [InstOpts.set, MtSetter.field]

/-- the options reach the chain operation as they stand; a salt selects the predictable-address form -/
theorem inst_shape (code : Nat) (sender : String) (ss : List MtSetter) (args : List Json) :
    (ProxyOp.inst code sender ss args).shape =
      .inst code sender (optsOf ss).funds (optsOf ss).label (optsOf ss).admin (optsOf ss).salt := rfl

/-- exec without `with_funds` sends no funds -/
theorem exec_shape (slot : Nat) (sender : String) (m : MsgRef) :
    (ProxyOp.exec slot sender none m).shape = .exec slot sender (.amount 0) ∧ ∀ n, (ProxyOp.exec slot sender (some n) m).shape = .exec slot sender n :=
  ⟨rfl, fun _ => rfl⟩

-- ------------------------------------------------------------------------------------------------
-- non-vacuity
-- ------------------------------------------------------------------------------------------------

/-- a contract with an instantiate handler and an exec handler `a` taking no arguments -/
def demo : Program :=
  { contract := { name := "C", methods := [
      ({ name := [], msg := some ({ kind := Kind.instantiate } : MsgAttr) } : Method),
      ({ name := [Casing.Ch.lower 0], msg := some ({ kind := Kind.exec } : MsgAttr) } : Method)] },
    ifaces := [] }

theorem demo_wf : ProgWF demo := by
  have hpm : ∀ k, partMethods k demo = [variantsOf k demo.contract.methods] := fun k => by simp [partMethods, demo]
  have hsingle : ∀ k, (variantsOf k demo.contract.methods).length ≤ 1 := by
    intro k; cases k <;> simp [variantsOf, demo, Method.kind?]
  refine ⟨?_, ?_, ?_⟩
  · intro k i j pi pj hij hi hj
    have : (parts k demo).length = 1 := by simp [parts, demo]
    have h1 := (List.getElem?_eq_some_iff.mp hi).1
    have h2 := (List.getElem?_eq_some_iff.mp hj).1
    omega
  · intro k ms hms
    rw [hpm k] at hms
    simp at hms; subst hms
    have := hsingle k
    match h : variantsOf k demo.contract.methods with
    | [] => simp
    | [_] => simp
    | _ :: _ :: _ => simp [h] at this
  · intro k ms m hms hm
    rw [hpm k] at hms
    simp at hms; subst hms
    have hall : ∀ m ∈ demo.contract.methods, m.args = [] := by simp [demo]
    have : m ∈ demo.contract.methods := (List.mem_filter.mp hm).1
    simp [hall m this]

/-- a history on `demo` that lowers, runs, and changes the chain: store, instantiate with options, exec with funds -/
example : ∃ raws, lowerAll demo [.store, .inst 0 "alice" [.label "x", .funds 5] [], .exec 0 "alice" (some (.amount 7)) { part := 0, method := "a", args := [] }] = some raws ∧
    raws.length = 3 := by
  refine ⟨_, rfl, rfl⟩

end C12
