import Sylvia.Lemmas.ValuePassGeneral
import Sylvia.Thm.C03
import Sylvia.Model.Domain
/-!
# C03, both directions, on an explicit domain of documents

The unrestricted "the contract-level message accepts a document iff exactly one part accepts it" is false of the
code (known findings: repeated member names, numbers the generic value cannot hold, sequences read leniently).
Here the statement is proved in full on the complement of those three classes, for *arbitrary* documents — not only
encodings of messages: unknown members, missing members, wrong types, any nesting.
-/
namespace C03
open Sylvia Sylvia.Serde

/-- the documents on which the two decoders are claimed to agree -/
structure InDomain (ps : List PartSpec) (d : Json) : Prop where
  /-- no repeated member name and no number beyond the generic value's range, at any depth -/
  plain : Plain d
  /-- no argument written as a sequence that only the value pass tolerates -/
  strict : ∀ p ∈ ps, ∀ v ∈ p.variants, ∀ k ms, d = .obj [(k, .obj ms)] → v.wire = k →
    ∀ f ∈ v.fields, ∀ val, Json.get? ms f.name = some val → Strict f.ty val

theorem normalize_single (k : String) (body body' : Json) (hb : normalize body = some body') :
    normalize (.obj [(k, body)]) = some (.obj [(k, body')]) := by
  simp [normalize, normalizeMembers, hb, insertSorted]

theorem findVariant_spec (vs : List VariantSpec) (k : String) (i : Nat) (v : VariantSpec) (h : findVariant vs k = some (i, v)) :
    v ∈ vs ∧ v.wire = k := by
  unfold findVariant at h
  obtain ⟨_, h2, h3⟩ := findVariant_go_some vs 0 i v k h
  exact ⟨List.mem_of_getElem? h2, h3⟩

/-- one part's decoder: after the pass it sees what it would have seen on the text -/
theorem decodeEnum_after_pass (vs : List VariantSpec) (k : String) (body body' : Json) (hb : normalize body = some body')
    (hplain : Plain body)
    (hs : ∀ v ∈ vs, v.wire = k → ∀ ms, body = .obj ms → ∀ f ∈ v.fields, ∀ val, Json.get? ms f.name = some val → Strict f.ty val) :
    decodeEnum true vs (.obj [(k, body')]) = decodeEnum false vs (.obj [(k, body)]) := by
  cases hfv : findVariant vs k with
  | none => simp only [decodeEnum, hfv]
  | some iv =>
    obtain ⟨i, v⟩ := iv
    obtain ⟨hv, hw⟩ := findVariant_spec vs k i v hfv
    have hk := normalize_sameKind body body' hb
    cases body with
    | obj ms =>
      cases body' with
      | obj ms' =>
        simp only [normalize, Option.map_eq_some_iff] at hb
        obtain ⟨r, hr, he⟩ := hb
        cases he
        simp only [Plain] at hplain
        simp only [decodeEnum, hfv]
        rw [decodeFields_after_pass v.fields ms ms' hplain.1 hr (hs v hv hw ms rfl)]
      | _ => simp [sameKind] at hk
    | null => cases body' <;> simp [sameKind] at hk <;> simp only [decodeEnum, hfv]
    | bool b => cases body' <;> simp [sameKind] at hk <;> simp only [decodeEnum, hfv]
    | num t => cases body' <;> simp [sameKind] at hk <;> simp only [decodeEnum, hfv]
    | str t => cases body' <;> simp [sameKind] at hk <;> simp only [decodeEnum, hfv]
    | arr xs => cases body' <;> simp [sameKind] at hk <;> simp only [decodeEnum, hfv]

/-- a plain document whose normal form has a single member has a single member itself -/
theorem single_of_normalized (ms : List (String × Json)) (k : String) (b' : Json) (hnd : (ms.map Prod.fst).Nodup)
    (h : normalizeMembers ms [] = some [(k, b')]) : ∃ b, ms = [(k, b)] ∧ normalize b = some b' := by
  have hkeys := fun k' => normalizeMembers_keys ms [] [(k, b')] k' h
  match ms, hnd, h, hkeys with
  | [], _, h, _ => simp [normalizeMembers] at h
  | [(k0, b)], _, h, hkeys =>
    have : k0 = k := by
      have := (hkeys k0).mpr (Or.inl (by simp))
      simpa using this
    subst this
    simp only [normalizeMembers, Option.bind_eq_bind] at h
    cases hb : normalize b with
    | none => simp [hb] at h
    | some b'' =>
      simp [hb, insertSorted] at h
      exact ⟨b, rfl, by rw [h] at hb; exact hb⟩
  | (k0, _) :: (k1, _) :: _, hnd, _, hkeys =>
    have h0 : k0 = k := by
      have := (hkeys k0).mpr (Or.inl (by simp))
      simpa using this
    have h1 : k1 = k := by
      have := (hkeys k1).mpr (Or.inl (by simp))
      simpa using this
    simp [h0, h1] at hnd

/-- **C03 in full on the domain.** For every list of parts with faithful, pairwise disjoint routing lists, every
part `i` and every document of the domain: the contract-level message accepts the document as part `i`'s message
`(vi, fs)` **iff** part `i`'s own message type accepts it as `(vi, fs)`. -/
theorem wrapper_iff_on_domain (ps : List PartSpec) (hf : ListsFaithful ps) (hd : ListsDisjoint ps) (d : Json)
    (dom : InDomain ps d) (i : Nat) (p : PartSpec) (hp : ps[i]? = some p) (vi : Nat) (fs : List (String × Json)) :
    wrapperDecode ps d = .ok i vi fs ↔ decodeEnum false p.variants d = some (vi, fs) := by
  have hpm : p ∈ ps := List.mem_of_getElem? hp
  constructor
  · intro h
    obtain ⟨p', k, body', hp', hn, hk, hde⟩ := wrapper_ok_sound ps d i vi fs h
    have : p' = p := by rw [hp] at hp'; exact (Option.some.inj hp').symm
    subst this
    have hkind := normalize_sameKind d _ hn
    cases d with
    | obj ms =>
      have hpl := dom.plain
      simp only [Plain] at hpl
      simp only [normalize, Option.map_eq_some_iff] at hn
      obtain ⟨r, hr, he⟩ := hn
      cases he
      obtain ⟨b, rfl, hb⟩ := single_of_normalized ms k body' hpl.1 hr
      have hbp : Plain b := by simpa [PlainMembers] using hpl.2
      rw [← decodeEnum_after_pass p'.variants k b body' hb hbp
        (fun v hv hw ms hms f hfm val hval => dom.strict p' hpm v hv k ms (by rw [hms]) hw f hfm val hval)]
      exact hde
    | _ => simp [sameKind] at hkind
  · intro h
    obtain ⟨k, body, rfl, hkw⟩ := decodeEnum_key false p.variants d (vi, fs) h
    have hkp : k ∈ p.published := (hf p hpm k).mpr hkw
    have hfp := findPart_at ps i p k hp hkp hd
    have hpl := dom.plain
    simp only [Plain, PlainMembers] at hpl
    obtain ⟨body', hb⟩ := normalize_total body hpl.2.1
    have hn := normalize_single k body body' hb
    have hde := decodeEnum_after_pass p.variants k body body' hb hpl.2.1
      (fun v hv hw ms hms f hfm val hval => dom.strict p hpm v hv k ms (by rw [hms]) hw f hfm val hval)
    unfold wrapperDecode
    simp only [hn, hfp, hde, h]

/-- corollary: on the domain, if the contract-level message accepts a document, exactly the part it names accepts it -/
theorem wrapper_accepts_iff_some_part (ps : List PartSpec) (hf : ListsFaithful ps) (hd : ListsDisjoint ps) (d : Json)
    (dom : InDomain ps d) :
    (∃ i vi fs, wrapperDecode ps d = .ok i vi fs) ↔
      (∃ (i : Nat) (p : PartSpec) (r : Nat × List (String × Json)), ps[i]? = some p ∧ decodeEnum false p.variants d = some r) := by
  constructor
  · rintro ⟨i, vi, fs, h⟩
    obtain ⟨p, _, _, hp, _⟩ := wrapper_ok_sound ps d i vi fs h
    exact ⟨i, p, (vi, fs), hp, (wrapper_iff_on_domain ps hf hd d dom i p hp vi fs).mp h⟩
  · rintro ⟨i, p, r, hp, h⟩
    obtain ⟨vi, fs⟩ := r
    exact ⟨i, vi, fs, (wrapper_iff_on_domain ps hf hd d dom i p hp vi fs).mpr h⟩

mutual
theorem plainB_sound : ∀ j : Json, plainB j = true → Plain j
  | .null, _ => trivial
  | .bool _, _ => trivial
  | .str _, _ => trivial
  | .num t, h => by simpa [plainB, Plain] using h
  | .arr xs, h => by simp only [plainB] at h; simp only [Plain]; exact plainListB_sound xs h
  | .obj ms, h => by
    simp only [plainB, Bool.and_eq_true, decide_eq_true_eq] at h
    simp only [Plain]
    exact ⟨h.1, plainMembersB_sound ms h.2⟩
theorem plainListB_sound : ∀ xs : List Json, plainListB xs = true → PlainList xs
  | [], _ => trivial
  | x :: xs, h => by
    simp only [plainListB, Bool.and_eq_true] at h
    exact ⟨plainB_sound x h.1, plainListB_sound xs h.2⟩
theorem plainMembersB_sound : ∀ ms : List (String × Json), plainMembersB ms = true → PlainMembers ms
  | [], _ => trivial
  | (_, v) :: ms, h => by
    simp only [plainMembersB, Bool.and_eq_true] at h
    exact ⟨plainB_sound v h.1, plainMembersB_sound ms h.2⟩
end

theorem strictB_sound : ∀ (t : VTy) (j : Json), strictB t j = true → Strict t j := by
  intro t
  induction t with
  | u bits => intro j _; cases j <;> simp [Strict]
  | i bits => intro j _; cases j <;> simp [Strict]
  | bool => intro j _; cases j <;> simp [Strict]
  | string => intro j _; cases j <;> simp [Strict]
  | uint128 => intro j _; cases j <;> simp [Strict]
  | addr => intro j _; cases j <;> simp [Strict]
  | binary => intro j _; cases j <;> simp [Strict]
  | empty => intro j h; cases j <;> simp [strictB, Strict] at h ⊢
  | option t ih =>
    intro j h
    cases j <;> simp only [strictB, Strict] at h ⊢ <;> first | trivial | exact ih _ h
  | vec t ih =>
    intro j h
    cases j with
    | arr xs =>
      simp only [strictB, Strict] at h ⊢
      induction xs with
      | nil => simp [Strict.StrictAll]
      | cons x r ihr =>
        simp only [strictB.strictAllB, Bool.and_eq_true] at h
        simp only [Strict.StrictAll]
        exact ⟨ih x h.1, ihr h.2⟩
    | _ => simp [Strict]
  | pair a b iha ihb =>
    intro j h
    cases j with
    | arr xs =>
      match xs, h with
      | [], _ => simp [Strict]
      | [_], _ => simp [Strict]
      | [x, y], h =>
        simp only [strictB, Bool.and_eq_true] at h
        simp only [Strict]
        exact ⟨iha x h.1, ihb y h.2⟩
      | _ :: _ :: _ :: _, h => simp [strictB] at h
    | _ => simp [Strict]

/-- **the executable domain check is sound**: what the driver answers `in` for satisfies the hypothesis of `wrapper_iff_on_domain` -/
theorem inDomainB_sound (ps : List PartSpec) (d : Json) (h : inDomainB ps d = true) : InDomain ps d := by
  simp only [inDomainB, Bool.and_eq_true] at h
  refine ⟨plainB_sound d h.1, ?_⟩
  intro p hp v hv k ms hd hw f hf val hval
  subst hd
  have h2 := h.2
  simp only [strictDocB, List.all_eq_true] at h2
  have := h2 p hp v hv
  simp only [Bool.or_eq_true, Bool.not_eq_true', beq_eq_false_iff_ne, ne_eq, List.all_eq_true] at this
  rcases this with hne | hall
  · exact absurd hw hne
  · have := hall f hf
    simp only [hval] at this
    exact strictB_sound _ _ this

/-- non-vacuity: a document with an unknown member, a missing optional one and nested values is in the domain -/
example : Plain (.obj [("m", .obj [("a", .arr [.str "1", .bool true]), ("zz", .obj [("q", .null)])])]) := by
  simp [Plain, PlainMembers, PlainList]

end C03
