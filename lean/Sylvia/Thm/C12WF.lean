import Sylvia.Model.WF
import Sylvia.Thm.C12
/-! The executable well-formedness check is sound for the hypothesis of the C12 (and C02/C10) theorems. -/
namespace C12
open Sylvia Sylvia.Gen Sylvia.Serde

theorem wfTyB_sound : ∀ t : VTy, wfTyB t = true → WFTy t
  | .u b, h => by simpa [wfTyB, WFTy, Bool.or_eq_true, or_assoc] using h
  | .i b, h => by simpa [wfTyB, WFTy, Bool.or_eq_true, or_assoc] using h
  | .option t, h => by simp only [wfTyB] at h; exact wfTyB_sound t h
  | .vec t, h => by simp only [wfTyB] at h; exact wfTyB_sound t h
  | .pair a b, h => by
    simp only [wfTyB, Bool.and_eq_true] at h
    exact ⟨wfTyB_sound a h.1, wfTyB_sound b h.2⟩
  | .bool, _ => trivial | .string, _ => trivial | .uint128, _ => trivial | .addr, _ => trivial | .empty, _ => trivial | .binary, _ => trivial

theorem disjointB_sound (ps : List PartSpec) (h : disjointB ps = true) : C03.ListsDisjoint ps := by
  intro i j pi pj hij hi hj k hk hk'
  have hi' := (List.getElem?_eq_some_iff.mp hi).1
  have hj' := (List.getElem?_eq_some_iff.mp hj).1
  simp only [disjointB, List.all_eq_true, List.mem_range] at h
  have := h i hi' j hj'
  simp only [Bool.or_eq_true, beq_iff_eq, hi, hj] at this
  rcases this with heq | hall
  · exact hij heq
  · simp only [List.all_eq_true] at hall
    have := hall k hk
    simp [List.contains_iff_mem, hk'] at this

theorem all_kinds (k : Kind) : k ∈ Kind.all := by cases k <;> decide

/-- **soundness of the executable check** -/
theorem progWFb_sound (p : Program) (h : progWFb p = true) : ProgWF p := by
  have hk : ∀ k, kindWFb k p = true := by
    intro k
    simp only [progWFb, List.all_eq_true] at h
    exact h k (all_kinds k)
  refine ⟨?_, ?_, ?_⟩
  · intro k
    have := hk k
    simp only [kindWFb, Bool.and_eq_true] at this
    exact disjointB_sound _ this.1
  · intro k ms hms
    have := hk k
    simp only [kindWFb, Bool.and_eq_true, List.all_eq_true] at this
    have := (this.2 ms hms).1
    exact of_decide_eq_true this
  · intro k ms m hms hm
    have := hk k
    simp only [kindWFb, Bool.and_eq_true, List.all_eq_true] at this
    have hmw := (this.2 ms hms).2 m hm
    simp only [methodWFb, Bool.and_eq_true, List.all_eq_true] at hmw
    exact ⟨of_decide_eq_true hmw.1, fun a ha => wfTyB_sound _ (hmw.2 a ha)⟩

/-- the demo program passes the executable check (so the check is not vacuously false) -/
example : progWFb demo = true := by decide

end C12
