import Sylvia.Extracted.ReplyOnFns
import Sylvia.Model.Reply
/-!
# `ReplyOn::excludes`, on the regenerated code

`Extracted.ReplyOnFns.ReplyOn.excludes` is written by the function translator from
`sylvia-derive/src/parser/attributes/msg.rs` on every run. It is the function the reply-table theorems (C07, C14, C18)
call `Reply.excludes`: equal outcomes exclude each other and `always` excludes everything; it is symmetric.
-/
namespace ReplyOnFn
open RustSem

/-- the outcome names of the source and of the model -/
def conv : Extracted.ReplyOnFns.ReplyOn → Sylvia.ReplyOn
  | .Success => .success
  | .Error => .error
  | .Always => .always

theorem excludes_eq (a b : Extracted.ReplyOnFns.ReplyOn) :
    Extracted.ReplyOnFns.ReplyOn.excludes a b = .ok (Sylvia.Reply.excludes (conv a) (conv b)) := by
  cases a <;> cases b <;> rfl

theorem excludes_symmetric (a b : Extracted.ReplyOnFns.ReplyOn) :
    Extracted.ReplyOnFns.ReplyOn.excludes a b = Extracted.ReplyOnFns.ReplyOn.excludes b a := by
  cases a <;> cases b <;> rfl

theorem conv_surjective (r : Sylvia.ReplyOn) : ∃ a, conv a = r := by
  cases r
  · exact ⟨.Success, rfl⟩
  · exact ⟨.Error, rfl⟩
  · exact ⟨.Always, rfl⟩

end ReplyOnFn
